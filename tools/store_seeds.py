#!/usr/bin/env python3
"""Development aid: copy the confirmed later-round seeds (breaking r2_*/mutK, neutral nt_*/refK) with their demo,
the agent's note and my confirmation record into /verif/seeded (breaking: seeded/Cnn-(3+K); neutral: seeded/neutral/Cnn-K).
Only seeds whose confirmation (/tmp/seed_confirm/*.json, written by tools/confirm_seed.sh) is complete and positive are stored."""
import json, os, re, shutil, subprocess, sys
from pathlib import Path
ROOT = Path(__file__).resolve().parents[1]
head = subprocess.run(["git", "-C", "/repo", "rev-parse", "--short", "HEAD"], capture_output=True, text=True).stdout.strip()

def section(notes: str, k: int, word: str) -> str:
    m = re.split(rf"^##\s+{word}\s+(\d+)[^\n]*$", notes, flags=re.M)
    for i in range(1, len(m), 2):
        if int(m[i]) == k:
            return m[i + 1].strip()[:2000]
    return ""

stored, skipped = [], []
WAVES = {"2": (("mut", "r2", "Mutation", "mut", 3, 2), ("ref", "nt", "Refactoring", "ref", 0, 2)),
         "3": (("mut", "r3", "Mutation", "mut", 6, 3), ("ref", "n3", "Refactoring", "ref", 3, 3)),
         "4": (("mut", "r4", "Mutation", "mut", 9, 4), ("ref", "n4", "Refactoring", "ref", 6, 4)),
         "5": (("mut", "r5", "Mutation", "mut", 12, 5), ("ref", "n5", "Refactoring", "ref", 9, 5)),
         "6": (("mut", "r6", "Mutation", "mut", 15, 6), ("ref", "n6", "Refactoring", "ref", 12, 6)),
         "7": (("mut", "r7", "Mutation", "mut", 18, 7), ("ref", "n7", "Refactoring", "ref", 15, 7)),
         "8": (("mut", "r8", "Mutation", "mut", 21, 8), ("ref", "n8", "Refactoring", "ref", 18, 8)),
         "9": (("mut", "r9", "Mutation", "mut", 24, 9), ("ref", "n9", "Refactoring", "ref", 21, 9)),
         "10": (("mut", "ra", "Mutation", "mut", 27, 10), ("ref", "na", "Refactoring", "ref", 24, 10))}
wave = sys.argv[1] if len(sys.argv) > 1 else "2"
for kind, prefix, word, fname, offset, rnd in WAVES[wave]:
    for P in [f"C{i:02d}" for i in range(1, 21)]:
        src = Path(f"/tmp/{prefix}_{P}/_seed")
        if not src.is_dir():
            continue
        notes = (src / "notes.md").read_text() if (src / "notes.md").exists() else ""
        for K in (1, 2, 3):
            conf = Path(f"/tmp/seed_confirm/{prefix}{P}_{K}.json")
            diff, demo = src / f"{fname}{K}.diff", src / f"demo{K}.py"
            if not (conf.exists() and diff.exists() and demo.exists()):
                skipped.append((f"{prefix} {P}-{K}", "not confirmed yet / files missing"))
                continue
            d = json.loads(conf.read_text())
            ok = d["applies"] == 0 and d["demo_clean_exit"] == 0 and "157 passed" in d["suite"] and "3 failed" in d["suite"]
            ok = ok and ((d["demo_changed_exit"] != 0) if kind == "mut" else (d["demo_changed_exit"] == 0))
            stale = False
            if not ok and kind == "ref" and d["applies"] == 0 and "157 passed" in d["suite"] and "3 failed" in d["suite"]:
                # the demonstration hard-codes values recorded before a later `fix:` commit: accepted when its complete output
                # is byte-identical on the clean and on the refactored tree
                a, b = Path(f"/tmp/seed_confirm/{prefix}{P}_{K}.clean.log"), Path(f"/tmp/seed_confirm/{prefix}{P}_{K}.mut.log")
                if a.exists() and b.exists() and a.read_bytes() == b.read_bytes() and a.stat().st_size > 0:
                    ok = stale = True
            if not ok:
                skipped.append((f"{prefix} {P}-{K}", f"confirmation negative: {d}"))
                continue
            dst = ROOT / "seeded" / (f"{P}-{offset + K}" if kind == "mut" else f"neutral/{P}-{offset + K}")
            dst.mkdir(parents=True, exist_ok=True)
            shutil.copy(diff, dst / "patch.diff")
            shutil.copy(demo, dst / "demo.py")
            files = sorted(set(re.findall(r"^\+\+\+ b/(\S+)", diff.read_text(), flags=re.M)))
            meta = {
                "property": P, "seed": dst.name, "round": rnd, "kind": "breaking" if kind == "mut" else "behaviour-preserving",
                "base_commit": head, "files_touched": files,
                "origin": "written by an independent sub-agent given only the property text and a scratch worktree",
                ("needs_to_manifest" if kind == "mut" else "what_changed"): section(notes, K, word),
                "confirmed": {"how": "tools/confirm_seed.sh: scratch worktree of /repo HEAD, demo on clean tree, git apply patch, demo on changed tree, "
                                     "full test suite on changed tree, worktree removed",
                              "patch_applies": True, "demo_exit_clean_tree": d["demo_clean_exit"], "demo_exit_changed_tree": d["demo_changed_exit"],
                              "suite_on_changed_tree": d["suite"]},
                **({"note": "the demonstration's recorded expectations predate a later fix: commit of /repo; accepted because its complete "
                            "output is byte-identical on the clean and on the refactored tree"} if stale else {}),
                "run_demo": "cd <tree with the patch applied> && /venv/bin/python -W ignore <path>/demo.py   "
                            + ("(exits non-zero with the patch, 0 without)" if kind == "mut" else "(exits 0 with and without the patch)"),
            }
            (dst / "meta.json").write_text(json.dumps(meta, indent=1))
            stored.append(str(dst.relative_to(ROOT)))
print(len(stored), "stored;", len(skipped), "skipped")
for s in skipped:
    print("  skipped", s[0], "-", s[1][:200])
