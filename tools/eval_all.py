#!/usr/bin/env python3
"""Development aid: replay every seeded change (round 1 in /verif/seeded, later rounds wherever they are) in memory
against its own property's rules, 16 at a time, and print one line per seed.
usage: python3-vt tools/eval_all.py [--only C03,C05] [--kind B|N] [-v] [--cross [--at C06,C08]]"""
import glob, os, sys, re, json, time
from concurrent.futures import ProcessPoolExecutor
from pathlib import Path
ROOT = Path(__file__).resolve().parents[1]
sys.path.insert(0, str(ROOT))

def jobs():
    out = []
    for d in sorted(glob.glob(str(ROOT / "seeded" / "C*-*"))):
        pid = os.path.basename(d).split("-")[0]
        out.append((pid, "B", "r1 " + os.path.basename(d), d + "/patch.diff"))
    for d in sorted(glob.glob(str(ROOT / "seeded" / "neutral" / "C*-*"))):
        pid = os.path.basename(d).split("-")[0]
        out.append((pid, "N", "nt* " + os.path.basename(d), d + "/patch.diff"))
    # later waves still in their scratch worktrees (stored ones are replayed from seeded/)
    for pre, kind, stem in ():
        for f in sorted(glob.glob(f"/tmp/{pre}_C*/_seed/{stem}*.diff")):
            pid = f.split("/")[2][3:]
            out.append((pid, kind, f"{pre} {pid}-{f[-6]}", f))
    return out

def run(job):
    pid, kind, label, path = job
    os.environ["HVSA_EVIDENCE_DIR"] = "/tmp/hvsa_eval_evidence"
    from hvsa.selftest import apply_unified_diff, _current_sources, run_variant, Variant, PatchError
    src = _current_sources()
    t = time.time()
    try:
        new = apply_unified_diff(src, open(path).read())
    except PatchError as e:
        return (label, kind, "PATCH", str(e), 0)
    changed = {k: v for k, v in new.items() if src.get(k) != v}
    import io, contextlib
    buf = io.StringIO()
    with contextlib.redirect_stdout(buf):
        viol, errs = run_variant(pid, Variant(label, kind, changed))
    if kind == "B":
        res = "detected" if viol else ("MISS+err" if errs else "MISS")
    else:
        res = "silent" if not viol and not errs else ("FALSE-ALARM" if viol else "UNDECIDED")
    return (label, kind, res, "; ".join((viol + errs)[:3])[:400], time.time() - t)

if __name__ == "__main__":
    only = None
    kind = None
    verbose = "-v" in sys.argv
    for i, a in enumerate(sys.argv):
        if a == "--only":
            only = set(sys.argv[i + 1].split(","))
        if a == "--kind":
            kind = sys.argv[i + 1]
    js = [j for j in jobs() if (only is None or j[0] in only) and (kind is None or j[1] == kind)]
    if "--cross" in sys.argv:
        # every neutral change against every property (a change must not alarm any check)
        allp = [f"C{i:02d}" for i in range(1, 21)]
        at = None
        for i, a in enumerate(sys.argv):
            if a == "--at":
                at = set(sys.argv[i + 1].split(","))
        js = [(p, k, f"{lab} @{p}", path) for (own, k, lab, path) in jobs() if k == "N" for p in allp if p != own and (at is None or p in at)]
    with ProcessPoolExecutor(16) as ex:
        res = list(ex.map(run, js))
    tally = {}
    for label, k, r, msg, dt in res:
        grp = label.split()[0]
        tally.setdefault((grp, r), 0)
        tally[(grp, r)] += 1
        if verbose or r not in ("detected", "silent"):
            print(f"{label:14s} {r:12s} {msg[:300]}")
    print("---")
    for (g, r), n in sorted(tally.items()):
        print(f"{g:4s} {r:12s} {n}")
