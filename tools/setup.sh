#!/bin/sh
# Offline setup: nothing to build. Verifies the interpreter and the two pure-Python libraries.
set -e
cd "$(dirname "$0")/.."
if command -v python3-vt >/dev/null 2>&1; then PY=python3-vt; elif [ -x /opt/veriftools/pyvenv/bin/python ]; then PY=/opt/veriftools/pyvenv/bin/python; else PY=/venv/bin/python; fi
$PY - <<'PYEOF'
import sys
try:
    import networkx, sympy
    print("hvsa setup ok: python", sys.version.split()[0], "networkx", networkx.__version__, "sympy", sympy.__version__)
except Exception as e:
    import glob
    ok = glob.glob("/opt/veriftools/wheels/networkx-*.whl") and glob.glob("/opt/veriftools/wheels/sympy-*.whl")
    print("hvsa setup: libraries not importable directly (%s); wheelhouse fallback %s" % (e, "available" if ok else "MISSING"))
    sys.exit(0 if ok else 1)
PYEOF
mkdir -p evidence replays
