#!/usr/bin/env python3
"""Regenerate MANIFEST.json from the rule modules present in hvsa/rules (claimed) and the
properties file (everything else is listed under not_applicable until its check exists)."""
import importlib, json, os, sys
sys.path.insert(0, os.path.dirname(os.path.dirname(os.path.abspath(__file__))))
HERE = os.path.dirname(os.path.dirname(os.path.abspath(__file__)))

props = [json.loads(l) for l in open(os.path.join(HERE, "properties.jsonl"))]
checks, na = [], []
for p in props:
    pid = p["id"]
    path = os.path.join(HERE, "hvsa", "rules", pid.lower() + ".py")
    if not os.path.exists(path):
        na.append({"property_id": pid, "reason": "check not built yet in this round (static rules planned in DESIGN.md section 4); not claimed"})
        continue
    mod = importlib.import_module(f"hvsa.rules.{pid.lower()}")
    checks.append({
        "property_id": pid,
        "quick_cmd": f"./check {pid} --tier quick",
        "thorough_cmd": f"./check {pid} --tier thorough",
        "evidence_file": f"/verif/evidence/{pid}.json",
        "replay_cmd_template": f"./check {pid} --replay {{path}}",
        "engine": "hvsa",
        "technique": getattr(mod, "TECHNIQUE", "static analysis: repo-specific AST/CFG/dataflow rules"),
        "level_claimed": {
            "category": "other",
            "text": ("Static analysis of /repo's current source (never executed): every listed rule is decided for all "
                     "inputs/paths at once on the structural clauses named below; the numeric behaviour itself is not "
                     "observed. " + mod.EXPLANATION),
            "design_ref": f"DESIGN.md section 4, {pid}",
        },
        "level_note": ("Partial claim: decides the structural (necessary) clauses only. Trusted base: the source parsed is "
                       "the source that runs; external-library semantics as tabulated in hvsa/externals.py; implicit exceptions "
                       "are not paths; formula equality over the reals. " + getattr(mod, "NOT_DECIDED", "")),
    })
man = {
    "version": 1,
    "setup_cmd": "./tools/setup.sh",
    "hooks": {
        "guard": "HVSRPY_VERIF",
        "enable": "none needed: the checks read /repo's source and never build or run it; no hook commits exist",
        "baseline_off_cmd": "cd /repo && /venv/bin/python -m pytest -ra -q -p no:cacheprovider --timeout=900 --continue-on-collection-errors",
        "source_commits": [],
        "add_only": True,
    },
    "engines": [{
        "name": "hvsa",
        "path": "/verif/hvsa",
        "serves_properties": [c["property_id"] for c in checks],
        "kind_free_text": "purpose-built static analyser for hvsrpy: ast source model, call resolution, statement CFG (networkx), "
                          "interprocedural effect/freshness analysis, expression canonicalisation (sympy), table extraction",
    }],
    "checks": checks,
    "not_applicable": na,
    "notes": "All checks are static (family: static analysis). Exit 0 = decided clauses hold; exit 1 + VIOLATION = a construct "
             "violates a rule; exit 2 + ANALYSIS-ERROR = the analysis cannot decide (anchor missing / idiom unknown). "
             "KNOWN_FINDINGS.txt lists genuine recorded defects (finding:) and repaired ones (fixed:).",
}
json.dump(man, open(os.path.join(HERE, "MANIFEST.json"), "w"), indent=1)
print(f"claimed {len(checks)}; not_applicable {len(na)}")
