#!/usr/bin/env python3
"""Regenerate hvsa/baseline_functions.txt: the vocabulary of function names the rules are anchored on.
Run only on the clean pinned tree (plus fix: commits); functions absent from this list are treated as new
helpers and inlined at their call sites before analysis (hvsa/normalize.py)."""
import ast, sys
from pathlib import Path
sys.path.insert(0, str(Path(__file__).resolve().parents[1]))
root = Path("/repo/hvsrpy")
out = []
for p in sorted(root.glob("*.py")):
    tree = ast.parse(p.read_text())
    m = p.stem
    for st in tree.body:
        if isinstance(st, ast.FunctionDef):
            out.append(f"{m}.{st.name}")
            out += [f"{m}.{st.name}.<locals>.{y.name}" for y in st.body if isinstance(y, ast.FunctionDef)]
        elif isinstance(st, ast.ClassDef):
            for x in st.body:
                if isinstance(x, ast.FunctionDef):
                    out.append(f"{m}.{st.name}.{x.name}")
                    out += [f"{m}.{st.name}.{x.name}.<locals>.{y.name}" for y in x.body if isinstance(y, ast.FunctionDef)]
# names bound at module / class level (constants, tables): a literal constant that is NOT in this vocabulary is a new
# constant and is propagated to its uses before analysis
consts = []
for p in sorted(root.glob("*.py")):
    tree = ast.parse(p.read_text())
    m = p.stem
    for st in tree.body:
        if isinstance(st, (ast.Assign, ast.AnnAssign)):
            for t in (st.targets if isinstance(st, ast.Assign) else [st.target]):
                consts += [f"const:{m}.{n.id}" for n in ast.walk(t) if isinstance(n, ast.Name)]
        elif isinstance(st, ast.ClassDef):
            for x in st.body:
                if isinstance(x, (ast.Assign, ast.AnnAssign)):
                    for t in (x.targets if isinstance(x, ast.Assign) else [x.target]):
                        consts += [f"const:{m}.{st.name}.{n.id}" for n in ast.walk(t) if isinstance(n, ast.Name)]
out += consts
# parameter names of the pinned functions: a renamed parameter is spelled with its pinned name again before analysis
sigs = []
for p in sorted(root.glob("*.py")):
    tree = ast.parse(p.read_text())
    m = p.stem
    def sig(q, fn):
        ps = [a.arg for a in fn.args.posonlyargs + fn.args.args + fn.args.kwonlyargs]
        seen, loc = set(ps), []
        for x in sorted([x for x in ast.walk(fn) if isinstance(x, ast.Name) and isinstance(x.ctx, ast.Store)], key=lambda x: (x.lineno, x.col_offset)):
            if x.id not in seen:          # locals in the order of their first binding
                seen.add(x.id)
                loc.append(x.id)
        sigs.append(f"sig:{q}=" + ",".join(ps) + "|" + ",".join(loc))
    for st in tree.body:
        if isinstance(st, ast.FunctionDef):
            sig(f"{m}.{st.name}", st)
        elif isinstance(st, ast.ClassDef):
            for x in st.body:
                if isinstance(x, ast.FunctionDef):
                    if not any(isinstance(d, ast.Attribute) and d.attr in ("setter", "deleter") for d in x.decorator_list):
                        sig(f"{m}.{st.name}.{x.name}", x)
out += sigs
# how the pinned tree calls its own functions: pos:<qualname>=<k> says every call site of the (uniquely named) function passes at
# least its first k parameters by position; a call that passes one of them by keyword is put in that form before analysis
defs = {}
for p in sorted(root.glob("*.py")):
    tree = ast.parse(p.read_text())
    m = p.stem
    for st in tree.body:
        if isinstance(st, ast.FunctionDef):
            defs.setdefault(st.name, []).append(f"{m}.{st.name}")
        elif isinstance(st, ast.ClassDef):
            for x in st.body:
                if isinstance(x, ast.FunctionDef) and not x.decorator_list or isinstance(x, ast.FunctionDef) and all(isinstance(d, ast.Name) and d.id in ("staticmethod", "classmethod") for d in x.decorator_list):
                    defs.setdefault(x.name, []).append(f"{m}.{st.name}.{x.name}")
mins = {}
for p in sorted(root.glob("*.py")):
    for c in ast.walk(ast.parse(p.read_text())):
        if isinstance(c, ast.Call):
            nm = c.func.id if isinstance(c.func, ast.Name) else c.func.attr if isinstance(c.func, ast.Attribute) else None
            if nm in defs and len(defs[nm]) == 1 and not nm.startswith("__"):
                k = -1 if any(isinstance(a, ast.Starred) for a in c.args) else len(c.args)
                mins[nm] = min(mins.get(nm, 99), k)
out += [f"pos:{defs[nm][0]}={k}" for nm, k in mins.items() if 1 <= k < 99]
# value fingerprints of the module-level constants: a constant that was only renamed is recognised by its value
import hashlib
for p in sorted(root.glob("*.py")):
    tree = ast.parse(p.read_text())
    m = p.stem
    for st in tree.body:
        if isinstance(st, ast.Assign) and len(st.targets) == 1 and isinstance(st.targets[0], ast.Name):
            out.append(f"cval:{m}.{st.targets[0].id}=" + hashlib.sha1(ast.dump(st.value).encode()).hexdigest()[:16] + ":" + type(st.value).__name__)
# private attributes (`self._x = ...`) of every class, in the order they are first stored: a renamed private attribute is recognised
for p in sorted(root.glob("*.py")):
    tree = ast.parse(p.read_text())
    m = p.stem
    for st in tree.body:
        if isinstance(st, ast.ClassDef):
            names = []
            for x in sorted([x for x in ast.walk(st) if isinstance(x, ast.Attribute) and isinstance(x.ctx, ast.Store) and isinstance(x.value, ast.Name)
                             and x.value.id == "self" and x.attr.startswith("_") and not x.attr.startswith("__")], key=lambda x: (x.lineno, x.col_offset)):
                if x.attr not in names:
                    names.append(x.attr)
            if names:
                out.append(f"attrs:{m}.{st.name}=" + ",".join(names))
dst = Path(__file__).resolve().parents[1] / "hvsa" / "baseline_functions.txt"
dst.write_text("# functions of the pinned hvsrpy tree (names only); see hvsa/normalize.py\n" + "\n".join(sorted(set(out))) + "\n")
print(len(out), "functions ->", dst)
