#!/bin/sh
# usage: tools/confirm_seed.sh <PID> <K>    (development aid; confirms a seeded change in a scratch worktree)
# Confirms that /tmp/seed_<PID>/_seed/mutK.diff applies to /repo HEAD, keeps the suite at the baseline result,
# makes demoK.py fail and that demoK.py passes on the clean tree.  Writes /tmp/seed_confirm/<PID>_<K>.json.
PID="$1"; K="$2"
SRC="/tmp/seed_${PID}/_seed"
WT="/tmp/confirm_${PID}_${K}"
OUT="/tmp/seed_confirm/${PID}_${K}.json"
rm -rf "$WT"; git -C /repo worktree prune
git -C /repo worktree add -q --detach "$WT" HEAD || exit 3
mkdir -p "$WT/_seed"; cp "$SRC/demo${K}.py" "$WT/_seed/"
cd "$WT"
/venv/bin/python -W ignore "_seed/demo${K}.py" >/tmp/seed_confirm/${PID}_${K}.clean.log 2>&1; CLEAN=$?
if git apply "$SRC/mut${K}.diff" 2>/tmp/seed_confirm/${PID}_${K}.apply.log; then APPLY=0; else APPLY=1; fi
/venv/bin/python -W ignore "_seed/demo${K}.py" >/tmp/seed_confirm/${PID}_${K}.mut.log 2>&1; MUT=$?
SUITE=$(/venv/bin/python -m pytest -q -p no:cacheprovider --timeout=900 --continue-on-collection-errors 2>&1 | tail -1)
cd /; git -C /repo worktree remove --force "$WT"
printf '{"property":"%s","k":%s,"applies":%s,"demo_clean_exit":%s,"demo_mutated_exit":%s,"suite":"%s"}\n' "$PID" "$K" "$APPLY" "$CLEAN" "$MUT" "$SUITE" > "$OUT"
cat "$OUT"
