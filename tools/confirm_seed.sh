#!/bin/sh
# usage: tools/confirm_seed.sh <seed source dir> <K> <mut|ref> <tag>    (development aid)
# Confirms in a scratch worktree of /repo HEAD that <dir>/<mut|ref>K.diff applies, that the suite keeps the baseline
# result with it, and that <dir>/demoK.py passes on the clean tree and (mut) fails / (ref) passes on the changed tree.
# Writes /tmp/seed_confirm/<tag>_<K>.json and removes the worktree.
SRC="$1"; K="$2"; KIND="$3"; TAG="$4"
WT="/tmp/confirm_${TAG}_${K}"
OUT="/tmp/seed_confirm/${TAG}_${K}.json"
mkdir -p /tmp/seed_confirm
rm -rf "$WT"; git -C /repo worktree prune
git -C /repo worktree add -q --detach "$WT" HEAD || exit 3
mkdir -p "$WT/_seed"; cp "$SRC/demo${K}.py" "$WT/_seed/"
cd "$WT"
/venv/bin/python -W ignore "_seed/demo${K}.py" >/tmp/seed_confirm/${TAG}_${K}.clean.log 2>&1; CLEAN=$?
if git apply "$SRC/${KIND}${K}.diff" 2>/tmp/seed_confirm/${TAG}_${K}.apply.log; then APPLY=0; else APPLY=1; fi
/venv/bin/python -W ignore "_seed/demo${K}.py" >/tmp/seed_confirm/${TAG}_${K}.mut.log 2>&1; MUT=$?
SUITE=$(/venv/bin/python -m pytest -q -p no:cacheprovider --timeout=900 --continue-on-collection-errors 2>&1 | tail -1)
cd /; git -C /repo worktree remove --force "$WT"
printf '{"tag":"%s","k":%s,"kind":"%s","applies":%s,"demo_clean_exit":%s,"demo_changed_exit":%s,"suite":"%s"}\n' "$TAG" "$K" "$KIND" "$APPLY" "$CLEAN" "$MUT" "$SUITE" > "$OUT"
cat "$OUT"
