#!/bin/sh
# usage: tools/try_patch.sh <patch.diff> <PID> [<PID>...]
# Applies a patch to a scratch copy of /repo/hvsrpy (never to /repo) and runs the named checks on it.
set -e
PATCH="$1"; shift
TMP=$(mktemp -d /tmp/hvsa_try.XXXXXX)
trap 'rm -rf "$TMP"' EXIT
cp -r /repo/hvsrpy "$TMP/hvsrpy"
rm -rf "$TMP/hvsrpy/__pycache__"
(cd "$TMP" && git apply --include='hvsrpy/*' "$PATCH") || { echo "PATCH-DOES-NOT-APPLY $PATCH"; exit 3; }
cd "$(dirname "$0")/.."
for P in "$@"; do
  VERIF_REPO="$TMP" HVSA_EVIDENCE_DIR="$TMP/evidence" ./check "$P" | grep -v '^    via' | grep -E 'VIOLATION|ANALYSIS-ERROR|^\[C|C[0-9][0-9]\.R' | cut -c1-330 || true
done
