#!/bin/sh
# usage: tools/try_patch.sh <patch.diff> <PID> [<PID>...]
# Applies a patch to a scratch copy of /repo/hvsrpy (never to /repo) and runs the named checks on it.
PATCH=$(readlink -f "$1"); shift
TMP=$(mktemp -d /tmp/hvsa_try.XXXXXX)
trap 'rm -rf "$TMP"' EXIT
cp -r /repo/hvsrpy "$TMP/hvsrpy"
rm -rf "$TMP/hvsrpy/__pycache__"
if ! (cd "$TMP" && git apply --include='hvsrpy/*' "$PATCH" 2>/dev/null); then
  # the tree moved since the patch was written: retry with fuzz
  if ! (cd "$TMP" && patch -p1 -s -F3 --no-backup-if-mismatch < "$PATCH" >/dev/null 2>&1); then
    echo "PATCH-DOES-NOT-APPLY $PATCH"; exit 3
  fi
  echo "(applied with fuzz)"
fi
cd "$(dirname "$0")/.."
for P in "$@"; do
  VERIF_REPO="$TMP" HVSA_EVIDENCE_DIR="$TMP/evidence" ./check "$P" | grep -v '^    via' | grep -E 'VIOLATION|ANALYSIS-ERROR|^\[C|C[0-9][0-9]\.R' | cut -c1-330 || true
done
