#!/usr/bin/env python3
"""Run every seeded change (seeded/<id>/patch.diff) against the checks on a scratch copy of /repo/hvsrpy and
write seeded/MATRIX.md: which check(s) report which seeded change.  Development aid; never touches /repo."""
import concurrent.futures as cf, glob, json, os, re, shutil, subprocess, sys, tempfile
HERE = os.path.dirname(os.path.dirname(os.path.abspath(__file__)))
ALL = [f"C{i:02d}" for i in range(1, 21)]
have = [p for p in ALL if os.path.exists(os.path.join(HERE, "hvsa", "rules", p.lower() + ".py"))]
mode_all = "--all" in sys.argv


def run(seed_dir):
    sid = os.path.basename(seed_dir)
    pid = sid.split("-")[0]
    tmp = tempfile.mkdtemp(prefix="hvsa_mx.")
    try:
        shutil.copytree("/repo/hvsrpy", os.path.join(tmp, "hvsrpy"), ignore=shutil.ignore_patterns("__pycache__"))
        patch = os.path.join(seed_dir, "patch.diff")
        r = subprocess.run(["git", "apply", "--include=hvsrpy/*", patch], cwd=tmp, capture_output=True)
        how = "git apply"
        if r.returncode != 0:
            r = subprocess.run(f"patch -p1 -s -F3 --no-backup-if-mismatch < {patch}", cwd=tmp, shell=True, capture_output=True)
            how = "patch -F3"
            if r.returncode != 0:
                return sid, pid, {"_apply": "FAILED"}
        props = have if mode_all else ([pid] if pid in have else [])
        out = {"_apply": how}
        env = dict(os.environ, VERIF_REPO=tmp, HVSA_EVIDENCE_DIR=os.path.join(tmp, "evidence"))
        for p in props:
            rr = subprocess.run([os.path.join(HERE, "check"), p], cwd=HERE, env=env, capture_output=True, text=True)
            rules = sorted(set(re.findall(r" (C\d\d\.R[\w#]+) \[", rr.stdout)))
            out[p] = {"exit": rr.returncode, "rules": rules}
        return sid, pid, out
    finally:
        shutil.rmtree(tmp, ignore_errors=True)


seeds = sorted(glob.glob(os.path.join(HERE, "seeded", "C*-*")))
res = {}
with cf.ThreadPoolExecutor(max_workers=12) as ex:
    for sid, pid, out in ex.map(run, seeds):
        res[sid] = (pid, out)
lines = ["# Seeded changes vs. checks", "",
         "Each row: a confirmed seeded change (seeded/<id>/), the exit code of its own property's check on a scratch copy with",
         "the change applied (1 = reported, 0 = missed, 2 = analysis error), the rules that fired" +
         (" and every other property whose check also reports it." if mode_all else "."), "",
         "| seed | own check | rules | " + ("also reported by |" if mode_all else "|"), "|---|---|---|" + ("---|" if mode_all else "")]
caught = missed = 0
for sid in sorted(res):
    pid, out = res[sid]
    own = out.get(pid)
    if own is None:
        lines.append(f"| {sid} | (no check yet) | {out.get('_apply')} | |")
        continue
    caught += own["exit"] == 1
    missed += own["exit"] != 1
    others = ", ".join(f"{p}({'/'.join(v['rules'][:2])})" for p, v in out.items() if p not in ("_apply", pid) and isinstance(v, dict) and v["exit"] == 1)
    lines.append(f"| {sid} | exit {own['exit']} | {', '.join(own['rules']) or '-'} | " + (f"{others} |" if mode_all else "|"))
lines += ["", f"own-property detection: {caught} reported, {missed} not reported, of {caught + missed} seeds with a check."]
open(os.path.join(HERE, "seeded", "MATRIX.md"), "w").write("\n".join(lines) + "\n")
print("\n".join(l for l in lines if "exit 0" in l or "exit 2" in l or "FAILED" in l or l.startswith("own-")))
