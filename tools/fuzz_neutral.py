#!/usr/bin/env python3
"""Development aid: metamorphic test of the checks against mechanical behaviour-preserving edits of the pinned tree.
For every function of the package one variant per transformation is generated in memory and replayed against all 20 checks;
anything other than "silent" is printed.  Transformations:
  rename   - every local variable of the function (not parameters, not names shared with nested scopes) gets a new name
  rettemp  - `return <expr>` becomes `_result = <expr>; return _result`
  kwargs   - positional arguments of calls of package functions are passed by keyword (where the callee is unambiguous)
  ifswap   - `if c: A else: B` -> `if not c: B else: A`
  cmpswap  - `a < b` -> `b > a`, `a == b` -> `b == a` (side-effect-free operands)
  extract  - a call nested as first argument of a call gets a name of its own on the line before
usage: python3-vt tools/fuzz_neutral.py [--only processing,smoothing] [--kinds rename,rettemp] [--at C03,C05] [--limit N]"""
import ast, copy, os, sys, time
from concurrent.futures import ProcessPoolExecutor
from pathlib import Path
ROOT = Path(__file__).resolve().parents[1]
sys.path.insert(0, str(ROOT))
PKG = Path(os.environ.get("VERIF_REPO", "/repo")) / "hvsrpy"


def functions(tree):
    for st in tree.body:
        if isinstance(st, ast.FunctionDef):
            yield None, st
        elif isinstance(st, ast.ClassDef):
            for x in st.body:
                if isinstance(x, ast.FunctionDef):
                    yield st.name, x


def rename_locals(fn):
    params = {a.arg for a in fn.args.args + fn.args.kwonlyargs + fn.args.posonlyargs}
    if fn.args.vararg:
        params.add(fn.args.vararg.arg)
    if fn.args.kwarg:
        params.add(fn.args.kwarg.arg)
    nested = [x for x in ast.walk(fn) if isinstance(x, (ast.FunctionDef, ast.Lambda, ast.ClassDef)) and x is not fn]
    nested_names = {n.id for x in nested for n in ast.walk(x) if isinstance(n, ast.Name)} | {x.name for x in nested if hasattr(x, "name")}
    scoped = {nm for x in ast.walk(fn) if isinstance(x, (ast.Global, ast.Nonlocal)) for nm in x.names}
    comp_targets = set()
    stores = {n.id for n in ast.walk(fn) if isinstance(n, ast.Name) and isinstance(n.ctx, (ast.Store, ast.Del))}
    exc = {h.name for x in ast.walk(fn) if isinstance(x, ast.Try) for h in x.handlers if h.name}
    locs = stores - params - nested_names - scoped - exc - {"_"}
    if not locs:
        return False
    m = {x: f"{x}_rn" for x in locs}
    for n in ast.walk(fn):
        if isinstance(n, ast.Name) and n.id in m:
            n.id = m[n.id]
    return True


def ret_temp(fn):
    done = False

    class RT(ast.NodeTransformer):
        def visit_FunctionDef(self, node):
            if node is fn:
                self.generic_visit(node)
            return node

        def visit_Lambda(self, node):
            return node

        def visit_Return(self, node):
            nonlocal done
            if node.value is None or isinstance(node.value, (ast.Name, ast.Constant)):
                return node
            done = True
            return [ast.copy_location(ast.Assign(targets=[ast.Name(id="_result_rt", ctx=ast.Store())], value=node.value), node),
                    ast.copy_location(ast.Return(value=ast.Name(id="_result_rt", ctx=ast.Load())), node)]
    RT().visit(fn)
    ast.fix_missing_locations(fn)
    return done


def package_signatures():
    """name -> parameter list, for module-level functions whose name is unique in the package; (class, method) -> parameters."""
    byname, methods = {}, {}
    for p in sorted(PKG.glob("*.py")):
        tree = ast.parse(p.read_text())
        for cname, fn in functions(tree):
            a = fn.args
            if a.vararg or a.posonlyargs:
                continue
            ps = [x.arg for x in a.args]
            if cname is None:
                byname.setdefault(fn.name, []).append(ps)
            else:
                decos = {d.id if isinstance(d, ast.Name) else getattr(d, "attr", "") for d in fn.decorator_list}
                if "property" in decos:
                    continue
                methods[(cname, fn.name)] = ps if "staticmethod" in decos else ps[1:]
    return {k: v[0] for k, v in byname.items() if len(v) == 1}, methods


SIGS = None


def to_keywords(fn, cname):
    global SIGS
    if SIGS is None:
        SIGS = package_signatures()
    byname, methods = SIGS
    local = {n.id for n in ast.walk(fn) if isinstance(n, ast.Name) and isinstance(n.ctx, ast.Store)} | {a.arg for a in fn.args.args}
    done = False
    for c in ast.walk(fn):
        if not isinstance(c, ast.Call) or not c.args or any(isinstance(a, ast.Starred) for a in c.args) or any(k.arg is None for k in c.keywords):
            continue
        ps = None
        if isinstance(c.func, ast.Name) and c.func.id in byname and c.func.id not in local:
            ps = byname[c.func.id]
        elif isinstance(c.func, ast.Attribute) and isinstance(c.func.value, ast.Name) and c.func.value.id == "self" and cname and (cname, c.func.attr) in methods:
            ps = methods[(cname, c.func.attr)]
        if ps is None or len(c.args) > len(ps) or {k.arg for k in c.keywords} & set(ps[:len(c.args)]):
            continue
        c.keywords = [ast.keyword(arg=p_, value=a) for p_, a in zip(ps, c.args)] + c.keywords
        c.args = []
        done = True
    return done


def if_swap(fn):
    """`if c: A else: B` (no elif chain on the else side) becomes `if not c: B else: A`."""
    done = False
    for node in ast.walk(fn):
        if isinstance(node, ast.If) and node.orelse and not (len(node.orelse) == 1 and isinstance(node.orelse[0], ast.If)):
            node.test = ast.UnaryOp(op=ast.Not(), operand=node.test)
            node.body, node.orelse = node.orelse, node.body
            done = True
    ast.fix_missing_locations(fn)
    return done


def cmp_swap(fn):
    """`a < b` -> `b > a`, `a == b` -> `b == a` (single comparisons of side-effect-free operands: names, attributes, constants, subscripts)."""
    def simple(e):
        return all(isinstance(x, (ast.Name, ast.Attribute, ast.Constant, ast.Subscript, ast.Load, ast.UnaryOp, ast.USub, ast.BinOp, ast.operator, ast.Tuple, ast.Slice)) for x in ast.walk(e))
    flip = {ast.Lt: ast.Gt, ast.Gt: ast.Lt, ast.LtE: ast.GtE, ast.GtE: ast.LtE, ast.Eq: ast.Eq, ast.NotEq: ast.NotEq}
    done = False
    for node in ast.walk(fn):
        if isinstance(node, ast.Compare) and len(node.ops) == 1 and type(node.ops[0]) in flip and simple(node.left) and simple(node.comparators[0]):
            node.left, node.comparators[0] = node.comparators[0], node.left
            node.ops = [flip[type(node.ops[0])]()]
            done = True
    return done


def extract_args(fn):
    """The first call nested as an argument of a call in an assignment / return / expression statement gets a name of its own on
    the line before (evaluation order is kept: it is the first thing the statement evaluates among its calls only when it is the
    first argument - so only first positional arguments of a top-level call are extracted)."""
    done = False
    k = 0
    for node in ast.walk(fn):
        for fld in ("body", "orelse", "finalbody"):
            block = getattr(node, fld, None)
            if not (isinstance(block, list) and block and isinstance(block[0], ast.stmt)):
                continue
            i = 0
            while i < len(block):
                st = block[i]
                v = st.value if isinstance(st, (ast.Assign, ast.Return, ast.Expr)) else None
                if isinstance(v, ast.Call) and isinstance(v.func, (ast.Name, ast.Attribute)) and v.args and isinstance(v.args[0], ast.Call) \
                        and all(isinstance(x, (ast.Name, ast.Attribute, ast.Load)) for x in ast.walk(v.func)):
                    k += 1
                    tmp = f"_arg{k}_ex"
                    block.insert(i, ast.copy_location(ast.Assign(targets=[ast.Name(id=tmp, ctx=ast.Store())], value=v.args[0]), st))
                    v.args[0] = ast.Name(id=tmp, ctx=ast.Load())
                    done = True
                    i += 1
                i += 1
    ast.fix_missing_locations(fn)
    return done


def hoist_lookups(fn):
    """An attribute chain rooted at a parameter (`settings.smoothing`, `self.frequency`, `record.ns.dt_in_seconds`) that is read at least
    twice, whose attributes are not stored to in the function and whose root is not rebound, is read once into a new local placed right
    before the first top-level statement that uses it (only when that statement is not preceded by a call that receives the root)."""
    params = [a.arg for a in fn.args.args + fn.args.kwonlyargs]
    stored_attrs = {x.attr for x in ast.walk(fn) if isinstance(x, ast.Attribute) and isinstance(x.ctx, (ast.Store, ast.Del))}
    stored_attrs |= {x.value.attr for x in ast.walk(fn) if isinstance(x, ast.Subscript) and isinstance(x.ctx, (ast.Store, ast.Del)) and isinstance(x.value, ast.Attribute)}
    rebound = {x.id for x in ast.walk(fn) if isinstance(x, ast.Name) and isinstance(x.ctx, (ast.Store, ast.Del))}
    if any(isinstance(x, (ast.Lambda, ast.FunctionDef, ast.ListComp, ast.GeneratorExp, ast.DictComp, ast.SetComp, ast.Try, ast.With)) and x is not fn for x in ast.walk(fn)):
        return False
    def chain(e):
        attrs = []
        while isinstance(e, ast.Attribute):
            attrs.append(e.attr); e = e.value
        return (e.id, tuple(attrs[::-1])) if isinstance(e, ast.Name) and attrs else None
    counts = {}
    for x in ast.walk(fn):
        if isinstance(x, ast.Attribute) and isinstance(x.ctx, ast.Load):
            c = chain(x)
            if c and c[0] in params and c[0] not in rebound and not (set(c[1]) & stored_attrs):
                counts[c] = counts.get(c, 0) + 1
    # only outermost chains that are not the callee of a method call
    callees = {id(c.func) for c in ast.walk(fn) if isinstance(c, ast.Call)}
    cands = [c for c, k in counts.items() if k >= 2 and not any(c2 != c and c2[0] == c[0] and c2[1][:len(c[1])] == c[1] and counts[c2] >= counts[c] for c2 in counts)]
    if not cands:
        return False
    c = sorted(cands)[0]
    name = "_h_" + "_".join(c[1])
    first = None
    for i, st in enumerate(fn.body):
        if any(isinstance(x, ast.Attribute) and chain(x) == c for x in ast.walk(st)):
            first = i
            break
    if first is None or any(isinstance(x, ast.Call) for st in fn.body[:first] for x in ast.walk(st) if any(isinstance(z, ast.Name) and z.id == c[0] for z in ast.walk(x))):
        return False
    if any(isinstance(x, ast.Call) and any(isinstance(z, ast.Name) and z.id == c[0] for a in list(x.args) + [k.value for k in x.keywords] for z in ast.walk(a))
           and not (isinstance(x.func, ast.Attribute) and chain(x.func) and chain(x.func)[0] == c[0]) for x in ast.walk(fn)):
        return False        # the root is handed to some call: that call might change the attribute
    if isinstance(fn.body[first], (ast.For, ast.While, ast.If)):
        pass
    class R(ast.NodeTransformer):
        def visit_Attribute(self, node):
            if isinstance(node.ctx, ast.Load) and chain(node) == c and id(node) not in callees:
                return ast.copy_location(ast.Name(id=name, ctx=ast.Load()), node)
            return self.generic_visit(node)
    src = None
    for x in ast.walk(fn):
        if isinstance(x, ast.Attribute) and chain(x) == c:
            src = copy.deepcopy(x); break
    for i in range(first, len(fn.body)):
        fn.body[i] = R().visit(fn.body[i])
    fn.body.insert(first, ast.Assign(targets=[ast.Name(id=name, ctx=ast.Store())], value=src))
    ast.fix_missing_locations(fn)
    return True


def add_logging(fn):
    """`logger.debug(...)` as the first statement after the docstring, and `assert True` before every return."""
    i = 1 if fn.body and isinstance(fn.body[0], ast.Expr) and isinstance(fn.body[0].value, ast.Constant) else 0
    call = ast.Expr(value=ast.Call(func=ast.Attribute(value=ast.Name(id="logger", ctx=ast.Load()), attr="debug", ctx=ast.Load()),
                                   args=[ast.Constant(value="entering %s"), ast.Constant(value=fn.name)], keywords=[]))
    fn.body.insert(i, call)
    for node in ast.walk(fn):
        for fld in ("body", "orelse", "finalbody"):
            block = getattr(node, fld, None)
            if isinstance(block, list) and block and isinstance(block[0], ast.stmt):
                j = 0
                while j < len(block):
                    if isinstance(block[j], ast.Return) and node is not fn or (isinstance(block[j], ast.Return) and node is fn and j > i):
                        block.insert(j, ast.Assert(test=ast.Constant(value=True), msg=None))
                        j += 1
                    j += 1
    ast.fix_missing_locations(fn)
    return True


def np_methods(fn):
    """`np.argmin(x)` -> `x.argmin()` for name / attribute receivers, `np.abs` -> `np.absolute`, `np.conjugate(x)` -> `x.conj()`."""
    done = False
    class T(ast.NodeTransformer):
        def visit_Call(self, node):
            nonlocal done
            self.generic_visit(node)
            f = node.func
            if isinstance(f, ast.Attribute) and isinstance(f.value, ast.Name) and f.value.id == "np":
                if f.attr == "abs":
                    f.attr = "absolute"; done = True
                elif f.attr in ("argmin", "argmax") and len(node.args) == 1 and not node.keywords and isinstance(node.args[0], (ast.Name, ast.Attribute, ast.Call)):
                    done = True
                    return ast.copy_location(ast.Call(func=ast.Attribute(value=node.args[0], attr=f.attr, ctx=ast.Load()), args=[], keywords=[]), node)
                elif f.attr == "conjugate" and len(node.args) == 1:
                    done = True
                    return ast.copy_location(ast.Call(func=ast.Attribute(value=node.args[0], attr="conj", ctx=ast.Load()), args=[], keywords=[]), node)
            return node
    T().visit(fn)
    ast.fix_missing_locations(fn)
    return done


def annotate_locals(fn):
    """`x = v` with a plain name target becomes `x: object = v` (first binding of each name only, outside loops' else etc.)."""
    seen = set()
    done = False
    for node in ast.walk(fn):
        for fld in ("body", "orelse", "finalbody"):
            block = getattr(node, fld, None)
            if isinstance(block, list) and block and isinstance(block[0], ast.stmt) and not isinstance(node, ast.ClassDef):
                for i, st in enumerate(block):
                    if isinstance(st, ast.Assign) and len(st.targets) == 1 and isinstance(st.targets[0], ast.Name) and st.targets[0].id not in seen:
                        seen.add(st.targets[0].id)
                        block[i] = ast.copy_location(ast.AnnAssign(target=st.targets[0], annotation=ast.Name(id="object", ctx=ast.Load()), value=st.value, simple=1), st)
                        done = True
    ast.fix_missing_locations(fn)
    return done


TRANSFORMS = {"annotate": lambda fn, c: annotate_locals(fn), "hoist": lambda fn, c: hoist_lookups(fn), "logging": lambda fn, c: add_logging(fn), "npmethod": lambda fn, c: np_methods(fn), "rename": lambda fn, c: rename_locals(fn), "rettemp": lambda fn, c: ret_temp(fn), "kwargs": lambda fn, c: to_keywords(fn, c),
              "ifswap": lambda fn, c: if_swap(fn), "cmpswap": lambda fn, c: cmp_swap(fn), "extract": lambda fn, c: extract_args(fn)}


def variants(only, kinds):
    out = []
    for p in sorted(PKG.glob("*.py")):
        if only and p.stem not in only:
            continue
        src = p.read_text()
        tree0 = ast.parse(src)
        idx = 0
        for cname, fn0 in functions(tree0):
            idx += 1
            for kind in kinds:
                tree = copy.deepcopy(tree0)
                fn = [f for _c, f in functions(tree)][idx - 1]
                ok = TRANSFORMS[kind](fn, cname)
                if not ok:
                    continue
                out.append((f"{kind}:{p.stem}.{cname + '.' if cname else ''}{fn.name}", f"hvsrpy/{p.name}", ast.unparse(tree)))
    return out


def fn_rename_variants(only):
    """Every private function / method (one leading underscore, defined once in the package) renamed, with all its references."""
    srcs = {p.name: p.read_text() for p in sorted(PKG.glob("*.py"))}
    trees = {n: ast.parse(s) for n, s in srcs.items()}
    defs = {}
    for n, t in trees.items():
        for x in ast.walk(t):
            if isinstance(x, ast.FunctionDef) and x.name.startswith("_") and not x.name.startswith("__"):
                defs.setdefault(x.name, []).append(n)
    out = []
    for name, where in sorted(defs.items()):
        if len(where) != 1 or (only and where[0][:-3] not in only):
            continue
        new = name + "_rn"
        over = {}
        for n, t0 in trees.items():
            if name not in srcs[n]:
                continue
            t = copy.deepcopy(t0)
            hit = False
            for x in ast.walk(t):
                if isinstance(x, ast.FunctionDef) and x.name == name:
                    x.name = new; hit = True
                elif isinstance(x, ast.Name) and x.id == name:
                    x.id = new; hit = True
                elif isinstance(x, ast.Attribute) and x.attr == name:
                    x.attr = new; hit = True
                elif isinstance(x, ast.alias) and x.name == name:
                    x.name = new; hit = True
            if hit:
                over[f"hvsrpy/{n}"] = ast.unparse(t)
        out.append((f"fnrename:{where[0][:-3]}.{name}", over))
    return out


def const_rename_variants(only):
    """Every module-level constant (bound once in the package, not dunder, not `logger`) renamed with all its references."""
    srcs = {p.name: p.read_text() for p in sorted(PKG.glob("*.py"))}
    trees = {n: ast.parse(s) for n, s in srcs.items()}
    defs = {}
    for n, t in trees.items():
        for st in t.body:
            if isinstance(st, ast.Assign) and len(st.targets) == 1 and isinstance(st.targets[0], ast.Name):
                defs.setdefault(st.targets[0].id, []).append(n)
    fnames = {x.name for t in trees.values() for x in ast.walk(t) if isinstance(x, (ast.FunctionDef, ast.ClassDef))}
    out = []
    for name, where in sorted(defs.items()):
        if len(where) != 1 or name.startswith("__") or name in ("logger",) or name in fnames or (only and where[0][:-3] not in only):
            continue
        # public tables exported through __init__ / __all__ keep their names in real life; they are renamed here all the same
        new = "_" + name.lower() + "_rn" if name.isupper() else name.upper() + "_RN"
        over = {}
        for n, t0 in trees.items():
            if name not in srcs[n]:
                continue
            t = copy.deepcopy(t0)
            hit = False
            for x in ast.walk(t):
                if isinstance(x, ast.Name) and x.id == name:
                    x.id = new; hit = True
                elif isinstance(x, ast.Attribute) and x.attr == name:
                    x.attr = new; hit = True
                elif isinstance(x, ast.alias) and x.name == name:
                    x.name = new; hit = True
            if hit:
                over[f"hvsrpy/{n}"] = ast.unparse(t)
        out.append((f"constrename:{where[0][:-3]}.{name}", over))
    return out


def run(job):
    label, rel, new_src, pid = job
    os.environ["HVSA_EVIDENCE_DIR"] = "/tmp/hvsa_eval_evidence"
    from hvsa.selftest import run_variant, Variant
    import io, contextlib
    buf = io.StringIO()
    t = time.time()
    with contextlib.redirect_stdout(buf):
        viol, errs = run_variant(pid, Variant(label, "N", new_src if isinstance(new_src, dict) else {rel: new_src}))
    res = "silent" if not viol and not errs else ("FALSE-ALARM" if viol else "UNDECIDED")
    return (label, pid, res, "; ".join((viol + errs)[:2])[:300], time.time() - t)


if __name__ == "__main__":
    only = kinds = at = None
    limit = None
    for i, a in enumerate(sys.argv):
        if a == "--only":
            only = set(sys.argv[i + 1].split(","))
        if a == "--kinds":
            kinds = sys.argv[i + 1].split(",")
        if a == "--at":
            at = sys.argv[i + 1].split(",")
        if a == "--limit":
            limit = int(sys.argv[i + 1])
    kinds = kinds or ["rename", "rettemp"]
    vs = variants(only, [k for k in kinds if k not in ("fnrename", "constrename")])
    if "constrename" in kinds:
        vs += [(lab, None, over) for lab, over in const_rename_variants(only)]
    if "fnrename" in kinds:
        vs += [(lab, None, over) for lab, over in fn_rename_variants(only)]
    if limit:
        vs = vs[:limit]
    props = at or [f"C{i:02d}" for i in range(1, 21)]
    js = [(lab, rel, src, p) for (lab, rel, src) in vs for p in props]
    print(len(vs), "variants x", len(props), "checks", flush=True)
    with ProcessPoolExecutor(int(os.environ.get("FUZZ_JOBS", "12"))) as ex:
        res = list(ex.map(run, js, chunksize=4))
    tally = {}
    for label, pid, r, msg, dt in res:
        tally[r] = tally.get(r, 0) + 1
        if r != "silent":
            print(f"{label:60s} @{pid} {r:12s} {msg[:260]}")
    print("---", tally)
