"""Reproducer (development aid, not part of the static checks): an upper search limit at or beyond the end of the frequency
grid must behave like no upper limit; the highest interior local maximum inside the range must be the reported peak."""
import sys
import numpy as np
import hvsrpy

f = np.linspace(0.1, 50, 500)
a = np.ones_like(f)
a[100] = 2.0
a[-2] = 5.0          # highest local maximum, at the second-to-last sample (49.9 Hz)
c = hvsrpy.HvsrCurve(f, a)
ok = True
for rng in [(None, None), (None, 100.0), (None, 50.0)]:
    c.update_peaks_bounded(search_range_in_hz=rng)
    print(rng, c.peak_frequency, c.peak_amplitude)
    ok = ok and abs(c.peak_frequency - f[-2]) < 1e-9 and c.peak_amplitude == 5.0
sys.exit(0 if ok else 1)
