"""Reproducers for the seven defects of DESIGN.md section 5.1.

Development aid only: run with /venv/bin/python against /repo (or PYTHONPATH
of a scratch worktree).  The checks in /verif never run hvsrpy; this script
documents the failing input for each finding recorded in KNOWN_FINDINGS.txt.
Prints one line per defect: DEFECT-PRESENT / DEFECT-ABSENT.
"""
import sys, io, os, tempfile, copy, json, warnings
import numpy as np
warnings.simplefilter("ignore")
import hvsrpy
from hvsrpy import TimeSeries, SeismicRecording3C

def rec(n=4096, dt=0.01, seed=0):
    rng = np.random.default_rng(seed)
    mk = lambda: TimeSeries(rng.normal(size=n), dt)
    return SeismicRecording3C(mk(), mk(), mk())

def c06():
    rng = np.random.default_rng(1)
    f = np.geomspace(0.1, 10, 64)
    amp = []
    for i in range(30):
        fc = rng.uniform(0.5, 5)
        amp.append(1 + 3*np.exp(-((np.log(f)-np.log(fc))/0.2)**2))
    h = hvsrpy.HvsrTraditional(f, np.array(amp))
    try:
        it = hvsrpy.frequency_domain_window_rejection(h, n=0.5, max_iterations=1)
    except TypeError:
        return True
    return it != 1

def c07():
    from unittest import mock
    seen = []
    def fake(fname, obspy_read_kwargs=None, degrees_from_north=None):
        seen.append(degrees_from_north); return None
    with mock.patch("hvsrpy.data_wrangler.read_single", fake):
        hvsrpy.read(["a", "b"], degrees_from_north=[10., 20.])
    return seen != [10., 20.]

def c09():
    out = []
    for settings in (hvsrpy.HvsrTraditionalProcessingSettings(), hvsrpy.HvsrDiffuseFieldProcessingSettings(), hvsrpy.PsdProcessingSettings()):
        r = [rec(seed=1), rec(seed=2)]
        before = [x.ns.amplitude.copy() for x in r]
        meta = [dict(x.meta) for x in r]
        hvsrpy.process(r, settings)
        out.append(any(not np.array_equal(b, x.ns.amplitude) for b, x in zip(before, r)) or any(m != x.meta for m, x in zip(meta, r)))
    return any(out)

def c10():
    ts = TimeSeries(np.arange(75*10+1, dtype=float), 1/75)
    w = ts.split(3.0)
    return w[0].n_samples != 226

def c12():
    r = [rec(seed=i) for i in range(4)]
    s = hvsrpy.HvsrAzimuthalProcessingSettings(azimuths_in_degrees=[0., 45., 90.])
    s.smoothing["center_frequencies_in_hz"] = np.geomspace(0.5, 20, 30)
    h = hvsrpy.process(r, s)
    with tempfile.TemporaryDirectory() as d:
        fn = os.path.join(d, "x.csv")
        hvsrpy.write_hvsr_object_to_file(h, fn)
        arr = np.loadtxt(fn, delimiter=",", comments="#")
    return not np.allclose(arr[:, -2], h.mean_curve("lognormal"))

def c15():
    bad = False
    a = hvsrpy.HvsrTraditionalProcessingSettings()
    a.window_type_and_width[1] = 0.9
    b = hvsrpy.HvsrTraditionalProcessingSettings()
    bad |= b.window_type_and_width[1] == 0.9
    a.window_type_and_width[1] = 0.1
    a.smoothing["center_frequencies_in_hz"][0] = 77.
    b = hvsrpy.HvsrTraditionalProcessingSettings()
    bad |= b.smoothing["center_frequencies_in_hz"][0] == 77.
    a.smoothing["center_frequencies_in_hz"][0] = 0.1
    p = hvsrpy.HvsrPreProcessingSettings(); p.filter_corner_frequencies_in_hz[0] = 3
    q = hvsrpy.HvsrPreProcessingSettings(); bad |= q.filter_corner_frequencies_in_hz[0] == 3
    p.filter_corner_frequencies_in_hz[0] = None
    z = hvsrpy.HvsrAzimuthalProcessingSettings(); z.azimuths_in_degrees[0] = 99
    y = hvsrpy.HvsrAzimuthalProcessingSettings(); bad |= y.azimuths_in_degrees[0] == 99
    z.azimuths_in_degrees[0] = 0
    return bool(bad)

def c19():
    import inspect
    from hvsrpy import cli
    # the worker is not runnable without files; show the shared-settings effect directly
    big = [rec(n=40000, dt=0.002, seed=1)]
    small = [rec(n=4096, dt=0.01, seed=2)]
    s = hvsrpy.HvsrTraditionalProcessingSettings()
    src = inspect.getsource(cli._process_hvsr)
    shared = "deepcopy" not in src and "copy" not in src
    hvsrpy.process(big, s)
    n1 = s.fft_settings["n"]
    hvsrpy.process(small, s)
    return shared and s.fft_settings["n"] == n1 and n1 > 32768

for name, fn in [("C06", c06), ("C07", c07), ("C09", c09), ("C10", c10), ("C12", c12), ("C15", c15), ("C19", c19)]:
    try:
        r = fn()
    except Exception as e:
        r = f"ERROR {type(e).__name__}: {e}"
    print(name, "DEFECT-PRESENT" if r is True else ("DEFECT-ABSENT" if r is False else r))
