"""Reproducer (development aid, not part of the static checks): the lognormal standard deviation must not depend on
which accepted spelling of the distribution is used ("log-normal" is a key of DISTRIBUTION_MAP)."""
import sys
import numpy as np
import hvsrpy

f = np.geomspace(0.5, 20, 100)
amp = np.array([1 + 3*np.exp(-((np.log(f) - np.log(2 + 0.3*i))/0.2)**2) for i in range(8)])
h = hvsrpy.HvsrTraditional(f, amp)
a, b = h.std_fn_frequency("lognormal"), h.std_fn_frequency("log-normal")
c, d = h.std_curve("lognormal"), h.std_curve("log-normal")
print(a, b)
ok = np.isclose(a, b) and np.allclose(c, d)
sys.exit(0 if ok else 1)
