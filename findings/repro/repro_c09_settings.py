"""C09: process() with one settings object, interleaved with longer recordings / fft_settings n=None.
Run as: cd <tree> && /venv/bin/python /verif/findings/repro/repro_c09_settings.py"""
import sys, os
sys.path.insert(0, os.getcwd())
import numpy as np
import hvsrpy
from hvsrpy.timeseries import TimeSeries
from hvsrpy.seismic_recording_3c import SeismicRecording3C

def rec(n, seed):
    r = np.random.default_rng(seed)
    return SeismicRecording3C(*[TimeSeries(r.standard_normal(n), 0.01) for _ in range(3)])

short = [rec(4096, 1)]
longer = [rec(40000, 2)]
s = hvsrpy.settings.HvsrTraditionalProcessingSettings()
a1 = hvsrpy.process(short, s).amplitude.copy()
hvsrpy.process(longer, s)
a2 = hvsrpy.process(short, s).amplitude.copy()
print("interleaved: identical =", np.array_equal(a1, a2), " settings.fft_settings =", s.fft_settings)
s2 = hvsrpy.settings.HvsrTraditionalProcessingSettings(fft_settings=dict(n=None))
b1 = hvsrpy.process(short, s2).amplitude.copy()
b2 = hvsrpy.process(short, s2).amplitude.copy()
print("n=None repeated: identical =", np.array_equal(b1, b2), " settings.fft_settings =", s2.fft_settings)
sys.exit(0 if np.array_equal(a1, a2) and np.array_equal(b1, b2) else 1)
