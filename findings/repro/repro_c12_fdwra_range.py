"""C12 finding: after frequency_domain_window_rejection(azimuthal, search_range_in_hz=(a, b)) the azimuthal
object's meta keeps the old range, so a write/read round trip restores peaks over the wrong range.
DEFECT-PRESENT / DEFECT-ABSENT.  Development aid (the checks never run hvsrpy)."""
import numpy as np, hvsrpy, tempfile, os, warnings
warnings.simplefilter("ignore")
rng = np.random.default_rng(0)
f = np.geomspace(0.2, 20, 80)
def curves(n, fc):
    out = []
    for i in range(n):
        c = fc*np.exp(rng.normal(0, 0.15))
        out.append(1 + 3*np.exp(-((np.log(f)-np.log(c))/0.25)**2) + 6*np.exp(-((np.log(f)-np.log(9))/0.1)**2))
    return np.array(out)
hv = [hvsrpy.HvsrTraditional(f, curves(12, 1.0)) for _ in range(3)]
az = hvsrpy.HvsrAzimuthal(hv, [0., 60., 120.])
az.meta["processing_method"] = "azimuthal"
hvsrpy.frequency_domain_window_rejection(az, n=1.5, search_range_in_hz=(0.3, 3.0))
with tempfile.TemporaryDirectory() as d:
    fn = os.path.join(d, "a.csv")
    hvsrpy.write_hvsr_object_to_file(az, fn)
    b = hvsrpy.read_hvsr_object_from_file(fn)
same = np.isclose(az.mean_fn_frequency(), b.mean_fn_frequency()) and tuple(b.hvsrs[0]._search_range_in_hz) == (0.3, 3.0)
print("C12-fdwra-range", "DEFECT-ABSENT" if same else f"DEFECT-PRESENT (mean fn {az.mean_fn_frequency():.3f} -> {b.mean_fn_frequency():.3f}, range {b.hvsrs[0]._search_range_in_hz})")
