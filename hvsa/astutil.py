"""Small AST helpers shared by the rule modules."""
from __future__ import annotations

import ast
from typing import Iterable, Iterator, List, Optional, Tuple

from .model import Func, norm_key, parent_of, enclosing_stmt  # noqa: F401


def dotted(node: ast.AST) -> Optional[str]:
    """'a.b.c' for Name/Attribute chains, else None."""
    parts = []
    n = node
    while isinstance(n, ast.Attribute):
        parts.append(n.attr)
        n = n.value
    if isinstance(n, ast.Name):
        parts.append(n.id)
        return ".".join(reversed(parts))
    return None


def call_name(call: ast.Call) -> Optional[str]:
    """Last component of the callee (function or method name)."""
    f = call.func
    if isinstance(f, ast.Name):
        return f.id
    if isinstance(f, ast.Attribute):
        return f.attr
    return None


def calls_in(node: ast.AST, name: Optional[str] = None) -> List[ast.Call]:
    out = []
    for n in ast.walk(node):
        if isinstance(n, ast.Call) and (name is None or call_name(n) == name):
            out.append(n)
    return out


def own_nodes(fnode: ast.AST) -> Iterator[ast.AST]:
    """Walk a function body without descending into nested function definitions/lambdas."""
    stack = list(ast.iter_child_nodes(fnode))
    while stack:
        n = stack.pop()
        yield n
        if isinstance(n, (ast.FunctionDef, ast.AsyncFunctionDef, ast.Lambda, ast.ClassDef)):
            continue
        stack.extend(ast.iter_child_nodes(n))


def stmts_of(fnode: ast.AST) -> List[ast.stmt]:
    out = [n for n in own_nodes(fnode) if isinstance(n, ast.stmt)]
    out.sort(key=lambda s: (s.lineno, s.col_offset))
    return out


def names_in(node: ast.AST) -> set:
    return {n.id for n in ast.walk(node) if isinstance(n, ast.Name)}


def names_loaded(node: ast.AST) -> set:
    return {n.id for n in ast.walk(node) if isinstance(n, ast.Name) and isinstance(n.ctx, ast.Load)}


def target_names(target: ast.AST) -> List[str]:
    out = []
    for n in ast.walk(target):
        if isinstance(n, ast.Name):
            out.append(n.id)
    return out


def assigned_names(stmt: ast.stmt) -> List[str]:
    """Names bound (not attribute/subscript stores) by a statement header."""
    out: List[str] = []

    def tgt(t):
        if isinstance(t, ast.Name):
            out.append(t.id)
        elif isinstance(t, (ast.Tuple, ast.List)):
            for e in t.elts:
                tgt(e)
        elif isinstance(t, ast.Starred):
            tgt(t.value)
    if isinstance(stmt, ast.Assign):
        for t in stmt.targets:
            tgt(t)
    elif isinstance(stmt, (ast.AugAssign, ast.AnnAssign)):
        tgt(stmt.target)
    elif isinstance(stmt, (ast.For, ast.AsyncFor)):
        tgt(stmt.target)
    elif isinstance(stmt, (ast.With, ast.AsyncWith)):
        for i in stmt.items:
            if i.optional_vars is not None:
                tgt(i.optional_vars)
    return out


def const(node: ast.AST):
    """Python value of a literal (numbers, strings, None, bools, +/- numbers), else raises."""
    if isinstance(node, ast.Constant):
        return node.value
    if isinstance(node, ast.UnaryOp) and isinstance(node.op, (ast.USub, ast.UAdd)) and isinstance(node.operand, ast.Constant):
        return -node.operand.value if isinstance(node.op, ast.USub) else node.operand.value
    raise ValueError("not a literal")


def is_const(node: ast.AST, value=None) -> bool:
    try:
        v = const(node)
    except ValueError:
        return False
    return True if value is None and v is not None or value is None and False else v == value


def kwarg(call: ast.Call, name: str) -> Optional[ast.AST]:
    for k in call.keywords:
        if k.arg == name:
            return k.value
    return None


def arg(call: ast.Call, index: int, name: Optional[str] = None) -> Optional[ast.AST]:
    plain = [a for a in call.args if not isinstance(a, ast.Starred)]
    if index < len(plain) and not any(isinstance(a, ast.Starred) for a in call.args[:index + 1]):
        return plain[index]
    if name is not None:
        return kwarg(call, name)
    return None


def loops_enclosing(node: ast.AST, stop: ast.AST) -> List[ast.AST]:
    out = []
    n = parent_of(node)
    while n is not None and n is not stop:
        if isinstance(n, (ast.For, ast.While)):
            out.append(n)
        n = parent_of(n)
    return out


def is_descendant(node: ast.AST, anc: ast.AST) -> bool:
    n = node
    while n is not None:
        if n is anc:
            return True
        n = parent_of(n)
    return False


def unparse(node) -> str:
    try:
        return " ".join(ast.unparse(node).split())
    except Exception:  # pragma: no cover
        return "?"


def subscript_of(node: ast.AST, base_name: str) -> bool:
    return isinstance(node, ast.Subscript) and isinstance(node.value, ast.Name) and node.value.id == base_name


def attr_chain_root(node: ast.AST) -> Optional[str]:
    n = node
    while isinstance(n, (ast.Attribute, ast.Subscript, ast.Call)):
        n = n.value if not isinstance(n, ast.Call) else n.func
    return n.id if isinstance(n, ast.Name) else None


def bind_call(call: ast.Call, params: List[str], skip_first: bool = False) -> dict:
    """Map callee parameter names to the argument expressions of ``call`` (positional and keyword;
    starred arguments are not bound)."""
    names = params[1:] if skip_first else list(params)
    out = {}
    i = 0
    for a in call.args:
        if isinstance(a, ast.Starred):
            break
        if i < len(names):
            out[names[i]] = a
        i += 1
    for k in call.keywords:
        if k.arg is not None:
            out[k.arg] = k.value
    return out
