"""E4 reaching definitions / def-use chains per function, on the statement CFG."""
from __future__ import annotations

import ast
from typing import Dict, FrozenSet, List, Optional, Set, Tuple

from .astutil import assigned_names, own_nodes
from .cfg import CFG, cfg_of
from .model import Func, enclosing_stmt, parent_of

PARAM = "<param>"


class ReachingDefs:
    """defs are (name, cfg_node) ; cfg_node == -1 means the parameter binding at entry."""

    def __init__(self, func: Func, cut_backedges_to: Optional[int] = None):
        self.func = func
        self.cfg: CFG = cfg_of(func)
        g = self.cfg.g
        if cut_backedges_to is not None:
            # view of the CFG without the edges that return to the given loop header from its body
            g = g.copy()
            body = self.cfg.stmts_in_loop(self.cfg.ast_of(cut_backedges_to))
            for p in list(g.predecessors(cut_backedges_to)):
                if p in body:
                    g.remove_edge(p, cut_backedges_to)
        self.g = g
        self.gen: Dict[int, Set[str]] = {}
        for n in g.nodes:
            a = self.cfg.ast_of(n)
            names: List[str] = []
            if a is not None:
                k = self.cfg.kind(n)
                if k == "stmt":
                    names = assigned_names(a)
                    if isinstance(a, (ast.FunctionDef, ast.ClassDef)):
                        names = [a.name]
                    if isinstance(a, (ast.Import, ast.ImportFrom)):
                        names = [(x.asname or x.name).split(".")[0] for x in a.names]
                    # walrus
                    for sub in ast.walk(a):
                        if isinstance(sub, ast.NamedExpr) and isinstance(sub.target, ast.Name):
                            names.append(sub.target.id)
                elif k == "iter":
                    names = assigned_names(a)
                elif k == "with":
                    names = assigned_names(a)
                elif k == "except":
                    names = [a.name] if getattr(a, "name", None) else []
            self.gen[n] = set(names)
        params = list(func.params) + list(func.kwonly)
        if func.vararg:
            params.append(func.vararg)
        if func.kwarg:
            params.append(func.kwarg)
        entry_defs = frozenset((p, -1) for p in params)
        self.IN: Dict[int, FrozenSet[Tuple[str, int]]] = {n: frozenset() for n in g.nodes}
        self.OUT: Dict[int, FrozenSet[Tuple[str, int]]] = {n: frozenset() for n in g.nodes}
        self.OUT[self.cfg.entry] = entry_defs
        work = list(g.nodes)
        while work:
            n = work.pop()
            if n == self.cfg.entry:
                continue
            inn = frozenset().union(*[self.OUT[p] for p in g.predecessors(n)]) if g.in_degree(n) else frozenset()
            gen = self.gen[n]
            out = frozenset(d for d in inn if d[0] not in gen) | frozenset((x, n) for x in gen)
            if inn != self.IN[n] or out != self.OUT[n]:
                self.IN[n] = inn
                self.OUT[n] = out
                work.extend(g.successors(n))

    def node_for(self, node: ast.AST) -> Optional[int]:
        """CFG node of the statement (or loop/if header) containing ``node``."""
        n = node
        while n is not None:
            c = self.cfg.node(n)
            if c is not None:
                # an expression inside the *body* of a compound statement belongs to an inner stmt,
                # which would have been found first; header expressions map to the header node
                return c
            n = parent_of(n)
        return None

    def defs_at(self, name: str, at: ast.AST) -> List[int]:
        """CFG nodes (or -1 for the parameter) whose definition of ``name`` reaches the use at ``at``."""
        c = self.node_for(at)
        if c is None:
            return []
        return sorted(d[1] for d in self.IN[c] if d[0] == name)

    def def_stmts(self, name: str, at: ast.AST) -> List[object]:
        return [PARAM if d == -1 else self.cfg.ast_of(d) for d in self.defs_at(name, at)]

    def only_param(self, name: str, at: ast.AST) -> bool:
        return self.defs_at(name, at) == [-1]

    def uses_of(self, def_node: int, name: str) -> List[ast.Name]:
        """Name loads of ``name`` reached by the definition at cfg node ``def_node``."""
        out = []
        for n in self.g.nodes:
            if (name, def_node) in self.IN[n]:
                a = self.cfg.ast_of(n)
                if a is None:
                    continue
                for sub in _header_nodes(a, self.cfg.kind(n)):
                    for x in ast.walk(sub):
                        if isinstance(x, ast.Name) and x.id == name and isinstance(x.ctx, ast.Load):
                            out.append(x)
        return out


def _header_nodes(a: ast.AST, kind: str) -> List[ast.AST]:
    if kind == "test":
        return [a.test]
    if kind == "iter":
        return [a.iter]
    if kind == "with":
        return [i.context_expr for i in a.items]
    if kind == "except":
        return [a.type] if a.type is not None else []
    return [a]


def reaching(func: Func) -> ReachingDefs:
    """Reaching definitions of a function, cached on its AST node."""
    r = getattr(func.node, "_hvsa_rd", None)
    if r is None:
        r = ReachingDefs(func)
        func.node._hvsa_rd = r
    return r


def value_sources(func: Func, expr: ast.AST, at: Optional[ast.AST] = None, depth: int = 8,
                  through_calls: bool = True) -> Tuple[Set[str], List[ast.AST]]:
    """Backward slice of ``expr`` through simple assignments inside ``func``.

    Returns (parameter names reached, defining statements visited).  Follows ``x = e`` chains,
    tuple-unpacking, loop targets (into the iterable) and augmented assignments.
    """
    rd = reaching(func)
    params: Set[str] = set()
    visited: List[ast.AST] = []
    seen: Set[Tuple[str, int]] = set()

    def visit_expr(e: ast.AST, at_node: ast.AST, d: int):
        for x in ast.walk(e):
            if isinstance(x, ast.Name) and isinstance(x.ctx, ast.Load):
                visit_name(x.id, at_node, d)

    def visit_name(name: str, at_node: ast.AST, d: int):
        for dn in rd.defs_at(name, at_node):
            if (name, dn) in seen:
                continue
            seen.add((name, dn))
            if dn == -1:
                params.add(name)
                continue
            st = rd.cfg.ast_of(dn)
            visited.append(st)
            if d <= 0:
                continue
            if isinstance(st, ast.Assign):
                tgt = st.targets[0] if len(st.targets) == 1 else None
                if isinstance(tgt, (ast.Tuple, ast.List)) and isinstance(st.value, (ast.Tuple, ast.List)) and len(tgt.elts) == len(st.value.elts) \
                        and sum(1 for e in tgt.elts if isinstance(e, ast.Name) and e.id == name) == 1:
                    # a, b = x, y: `a` comes from x only
                    for e, v in zip(tgt.elts, st.value.elts):
                        if isinstance(e, ast.Name) and e.id == name:
                            visit_expr(v, st, d - 1)
                else:
                    visit_expr(st.value, st, d - 1)
            elif isinstance(st, ast.AugAssign):
                visit_expr(st.value, st, d - 1)
                visit_name(name, st, d - 1)
            elif isinstance(st, ast.AnnAssign) and st.value is not None:
                visit_expr(st.value, st, d - 1)
            elif isinstance(st, (ast.For, ast.AsyncFor)):
                visit_expr(st.iter, st, d - 1)
            elif isinstance(st, (ast.With, ast.AsyncWith)):
                for i in st.items:
                    visit_expr(i.context_expr, st, d - 1)

    visit_expr(expr, at if at is not None else expr, depth)
    return params, visited


def free_loads(node: ast.AST, bound: frozenset = frozenset()):
    """Name loads of `node` that refer to the function's own variables (not to comprehension / lambda variables)."""
    if isinstance(node, (ast.ListComp, ast.SetComp, ast.GeneratorExp, ast.DictComp)):
        b = set(bound)
        for i, g in enumerate(node.generators):
            # the first iterable is evaluated in the enclosing scope
            yield from free_loads(g.iter, frozenset(b) if i else bound)
            b |= {x.id for x in ast.walk(g.target) if isinstance(x, ast.Name)}
            for c in g.ifs:
                yield from free_loads(c, frozenset(b))
        fb = frozenset(b)
        if isinstance(node, ast.DictComp):
            yield from free_loads(node.key, fb)
            yield from free_loads(node.value, fb)
        else:
            yield from free_loads(node.elt, fb)
        return
    if isinstance(node, ast.Lambda):
        b = bound | {a.arg for a in node.args.args + node.args.kwonlyargs}
        yield from free_loads(node.body, frozenset(b))
        return
    if isinstance(node, ast.Name):
        if isinstance(node.ctx, ast.Load) and node.id not in bound:
            yield node
        return
    for c in ast.iter_child_nodes(node):
        yield from free_loads(c, bound)


def loop_carried(func: Func, loop_stmt: ast.AST, ignore: Set[str] = frozenset()) -> List[Tuple[str, ast.AST, ast.AST]]:
    """(name, use, defining statement) for every name read inside ``loop_stmt``'s body whose value may
    come from a *previous* iteration of that loop: a definition inside the body that reaches the loop
    header along a back edge and, from the header, a use in the body without being overwritten first
    (inner loops are followed, so a value carried by an inner loop across the outer back edge counts)."""
    full = reaching(func)
    cfg = full.cfg
    h = cfg.node(loop_stmt)
    body = cfg.stmts_in_loop(loop_stmt)
    g = cfg.g
    # definitions made in the body that arrive at the header over a back edge
    arriving = set()
    for p in g.predecessors(h):
        if p in body:
            arriving |= {d for d in full.OUT[p] if d[1] in body}
    # the header itself (a `for` target) kills the names it binds
    arriving = {d for d in arriving if d[0] not in full.gen[h] and d[0] not in ignore}
    if not arriving:
        return []
    # forward propagation of exactly these facts from the header through the body (outer back edges cut)
    IN: Dict[int, set] = {n: set() for n in body}
    work = []
    for s_ in g.successors(h):
        if s_ in body:
            IN[s_] |= arriving
            work.append(s_)
    while work:
        n = work.pop()
        out = {d for d in IN[n] if d[0] not in full.gen[n]}
        for s_ in g.successors(n):
            if s_ in body and s_ != h and not out <= IN[s_]:
                IN[s_] |= out
                work.append(s_)
    res = []
    seen = set()
    for n in body:
        a = cfg.ast_of(n)
        if a is None or not IN[n]:
            continue
        for sub in _header_nodes(a, cfg.kind(n)):
            for x in free_loads(sub):
                if x.id not in ignore:
                    for (nm, dn) in IN[n]:
                        if nm == x.id and (nm, dn, n) not in seen:
                            seen.add((nm, dn, n))
                            res.append((nm, x, cfg.ast_of(dn)))
    return res
