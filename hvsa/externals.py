"""Trusted table of external-library behaviour used by the effect analysis (E5).

Everything here is part of the trusted base and is echoed in the evidence.
Categories (returned by ``classify_function`` / ``classify_method``):

  fresh          result is a new object sharing no mutable storage with the args
  fresh_shallow  result is a new container whose elements alias the elements of arg 0
  alias0         result aliases (is, or is a view of) argument 0 / the receiver
  elem0          result is an element of argument 0 (or of the receiver)
  iter           result iterates over (tuples of) the elements of the arguments
  scalar         result is an immutable scalar
  mutate_recv    method mutates its receiver in place (optionally adding arg elements)
  pure           unknown external: assumed not to mutate its arguments, returns an opaque
                 external object (listed in the evidence as "assumed pure")
"""
from __future__ import annotations

# ---- functions addressed by dotted name (after import resolution) or builtin name
FRESH_FUNCS = {
    "numpy.array", "numpy.copy", "numpy.empty", "numpy.zeros", "numpy.ones", "numpy.full",
    "numpy.empty_like", "numpy.zeros_like", "numpy.ones_like", "numpy.full_like",
    "numpy.arange", "numpy.linspace", "numpy.geomspace", "numpy.logspace", "numpy.meshgrid",
    "numpy.concatenate", "numpy.vstack", "numpy.hstack", "numpy.stack", "numpy.diff",
    "numpy.abs", "numpy.absolute", "numpy.sqrt", "numpy.exp", "numpy.log", "numpy.log10",
    "numpy.sin", "numpy.cos", "numpy.radians", "numpy.power", "numpy.square", "numpy.hypot",
    "numpy.where", "numpy.maximum", "numpy.minimum", "numpy.percentile", "numpy.mean",
    "numpy.nansum", "numpy.sum", "numpy.cov", "numpy.conjugate", "numpy.conj", "numpy.isnan",
    "numpy.logical_and", "numpy.logical_or", "numpy.round", "numpy.sign", "numpy.dot",
    "numpy.argsort", "numpy.rad2deg", "numpy.angle", "numpy.arctan2", "numpy.ceil", "numpy.floor",
    "numpy.fft.rfft", "numpy.fft.irfft", "numpy.fft.rfftfreq", "numpy.fft.fft",
    "numpy.linalg.norm", "numpy.isclose", "numpy.allclose", "numpy.loadtxt", "numpy.std",
    "numpy.nanmean", "numpy.nanstd", "numpy.median", "numpy.cumsum", "numpy.tile", "numpy.repeat",
    "copy.deepcopy", "scipy.signal.detrend", "scipy.signal.sosfiltfilt", "scipy.signal.sosfilt",
    "scipy.signal.butter", "scipy.signal.windows.tukey", "scipy.signal.find_peaks",
    "scipy.signal.zpk2tf", "scipy.signal.freqs", "json.load", "json.loads", "json.dumps",
    "numpy.random.default_rng",
}
# numpy.real returns a view for complex input: treat as alias (conservative)
ALIAS0_FUNCS = {
    "numpy.asarray", "numpy.asanyarray", "numpy.atleast_1d", "numpy.atleast_2d", "numpy.real",
    "numpy.imag", "numpy.ravel", "numpy.reshape", "numpy.transpose", "numpy.squeeze",
    "numpy.ascontiguousarray",
}
SHALLOW_FUNCS = {"list", "dict", "tuple", "set", "sorted", "copy.copy", "frozenset"}
ITER_FUNCS = {"enumerate", "zip", "reversed", "iter", "itertools.repeat", "map", "filter"}
ELEM_FUNCS = {"max", "min", "next", "numpy.max", "numpy.min", "numpy.amax", "numpy.amin"}
SCALAR_FUNCS = {
    "len", "int", "float", "str", "bool", "abs", "round", "isinstance", "hasattr", "id", "repr",
    "type", "any", "all", "sum", "complex", "range", "print", "callable", "format", "hash", "ord",
    "chr", "divmod", "pow", "issubclass", "numpy.argmin", "numpy.argmax", "numpy.isscalar",
    "numpy.ndim", "numpy.size", "numpy.shape", "time.perf_counter", "os.cpu_count",
    "warnings.warn", "warnings.simplefilter",
}

# ---- methods on external / untyped receivers
MUTATING_METHODS = {
    "append", "extend", "insert", "pop", "remove", "clear", "sort", "reverse", "update",
    "setdefault", "popitem", "fill", "resize", "put", "itemset", "add", "discard", "partition",
    "setflags", "byteswap",
}
# append-like methods also make the argument (or its elements) reachable from the receiver
ADD_ARG_AS_ELEM = {"append", "insert", "add"}
ADD_ARG_ELEMS = {"extend", "update"}
ALIAS_RECV_METHODS = {"reshape", "ravel", "view", "squeeze", "transpose", "swapaxes", "__iter__"}
SHALLOW_RECV_METHODS = {"copy", "items", "keys", "values"}     # new container, aliased elements
ELEM_RECV_METHODS = {"get", "pop", "setdefault", "max", "min", "item", "popitem", "index"}
FRESH_RECV_METHODS = {
    "tolist", "flatten", "astype", "mean", "sum", "any", "all", "std", "var", "cumsum", "round",
    "argmax", "argmin", "argsort", "nonzero", "conj", "conjugate", "ptp", "dot", "clip",
    "split", "join", "strip", "lower", "upper", "startswith", "endswith", "format", "replace",
    "read", "readlines", "readline", "search", "match", "groups", "group", "finditer", "findall",
    "count", "find", "encode", "decode", "title", "lstrip", "rstrip", "splitlines", "isdigit",
    "normal", "lognormal", "uniform", "random", "integers", "standard_normal", "choice",
}
ALIAS_ATTRS = {"T", "real", "imag", "flat", "data", "base"}   # attribute loads that give a view

NUMPY_OUT_KW = "out"


def classify_function(dotted: str) -> str:
    if dotted in FRESH_FUNCS:
        return "fresh"
    if dotted in ALIAS0_FUNCS:
        return "alias0"
    if dotted in SHALLOW_FUNCS:
        return "fresh_shallow"
    if dotted in ITER_FUNCS:
        return "iter"
    if dotted in ELEM_FUNCS:
        return "elem0"
    if dotted in SCALAR_FUNCS:
        return "scalar"
    return "pure"


def classify_method(name: str) -> str:
    if name in MUTATING_METHODS:
        return "mutate_recv"
    if name in ALIAS_RECV_METHODS:
        return "alias0"
    if name in SHALLOW_RECV_METHODS:
        return "fresh_shallow"
    if name in ELEM_RECV_METHODS:
        return "elem0"
    if name in FRESH_RECV_METHODS:
        return "fresh"
    return "pure"
