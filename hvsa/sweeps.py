"""Thorough tier: package-wide sweeps of the generic rule templates.  They print NOTE lines only and
never affect the exit code (constructs outside the properties' stated domains are observations)."""
from __future__ import annotations

import ast
from typing import List

from .astutil import call_name, calls_in, own_nodes, unparse
from .cfg import cfg_of
from .dataflow import reaching, PARAM
from .model import Program, norm_key
from .report import Checker


def sweeps(ck: Checker, prog: Program, pid: str):
    notes: List[str] = []
    n_funcs = 0
    for f in sorted(prog.funcs.values(), key=lambda x: x.qualname):
        if f.kind == "lambda":
            continue
        n_funcs += 1
        # T7: a parameter rebound by a loop target and read after the loop
        for st in own_nodes(f.node):
            if isinstance(st, ast.For):
                for nm in [n.id for n in ast.walk(st.target) if isinstance(n, ast.Name)]:
                    if nm in f.params:
                        rd = reaching(f)
                        later = [n for n in own_nodes(f.node) if isinstance(n, ast.Name) and n.id == nm and isinstance(n.ctx, ast.Load)
                                 and n.lineno > st.end_lineno]
                        if any(not rd.only_param(nm, u) for u in later):
                            notes.append(f"T7 {f.loc(st)} [{f.qualname}] loop target rebinds parameter `{nm}`, which is read after the loop")
        # T3: value-returning function with a fall-through path
        try:
            cfg = cfg_of(f)
            rets = [cfg.ast_of(n) for n in cfg.return_nodes()]
            if any(r.value is not None and not (isinstance(r.value, ast.Constant) and r.value.value is None) for r in rets) and cfg.falls_off_end():
                notes.append(f"T3 {f.loc()} [{f.qualname}] returns a value on some paths and falls off the end on others")
        except Exception:
            pass
        # float-quotient truncation
        for c in calls_in(f.node):
            if call_name(c) in ("int", "floor") and len(c.args) == 1 and isinstance(c.args[0], ast.BinOp) and isinstance(c.args[0].op, (ast.Div, ast.FloorDiv)):
                notes.append(f"T-trunc {f.loc(c)} [{f.qualname}] `{unparse(c)}` truncates a quotient")
        # mutable defaults
        for pn, d in f.defaults().items():
            if isinstance(d, (ast.List, ast.Dict, ast.Set, ast.Call)):
                notes.append(f"T2 {f.loc()} [{f.qualname}] mutable default `{pn}={unparse(d)[:40]}`")
    ck.extra["sweeps"] = {"functions_swept": n_funcs, "notes": len(notes)}
    # keep the output readable: the sweeps are identical for every property, print them for one id only
    if pid == "C09":
        for n in notes:
            ck.note(n)
    else:
        ck.note(f"package sweeps: {len(notes)} observations over {n_funcs} functions (listed by `./check C09 --tier thorough`)")
