"""Source normalisation: calls of *new* private helpers are inlined before any rule runs.

The rules are anchored on the functions of the pinned tree (``baseline_functions.txt`` - a vocabulary of
qualified names, not of source text).  A function that is not in that vocabulary was introduced later
("extract helper" is the most common behaviour-preserving edit); its call sites are replaced by its body
(parameters substituted or bound to temporaries, locals renamed on clashes, tail-position returns turned
into assignments), so that every rule sees the computation where it used to be.  A helper that cannot be
inlined (loops around returns, generators, recursion, star-arguments) is left alone and reported.

This is a source-to-source transformation of the parsed tree for analysis only - nothing is executed.
"""
from __future__ import annotations

import ast
import copy
import re
from pathlib import Path
from typing import Dict, List, Optional, Set, Tuple

BASELINE_FILE = Path(__file__).with_name("baseline_functions.txt")
MAX_ROUNDS = 4
MAX_HELPER_STMTS = 60


def load_baseline() -> Set[str]:
    if not BASELINE_FILE.exists():
        return set()
    return {l.strip() for l in BASELINE_FILE.read_text().splitlines() if l.strip() and not l.startswith("#")}


def load_baseline_sigs() -> Dict[str, List[str]]:
    out: Dict[str, List[str]] = {}
    if not BASELINE_FILE.exists():
        return out
    for l in BASELINE_FILE.read_text().splitlines():
        if l.startswith("sig:") and "=" in l:
            q, ps = l[4:].split("=", 1)
            ps, _, loc = ps.strip().partition("|")
            out[q.strip()] = [x for x in ps.split(",") if x]
            out["locals:" + q.strip()] = [x for x in loc.split(",") if x]
    return out


def restore_local_names(trees: Dict[str, ast.Module]) -> List[Tuple[str, str, str]]:
    """Local variables of a pinned function that were renamed are spelled with their pinned names again (a consistent renaming
    of locals never changes behaviour; the rules may then refer to the pinned vocabulary).  Two cases are recognised: the function
    binds the same number of locals in the same order of first binding (any number of them renamed), or exactly one pinned local
    is gone and exactly one new local has appeared.  Names are only restored when they are free in the function."""
    sigs = load_baseline_sigs()
    done: List[Tuple[str, str, str]] = []
    for m, tree in trees.items():
        fns: List[Tuple[str, ast.FunctionDef]] = []
        for st in tree.body:
            if isinstance(st, ast.FunctionDef):
                fns.append((f"{m}.{st.name}", st))
            elif isinstance(st, ast.ClassDef):
                for x in st.body:
                    if isinstance(x, ast.FunctionDef) and not any(isinstance(d, ast.Attribute) and d.attr in ("setter", "deleter") for d in x.decorator_list):
                        fns.append((f"{m}.{st.name}.{x.name}", x))
        for q, fn in fns:
            old = sigs.get("locals:" + q)
            if not old:
                continue
            params = {a.arg for a in fn.args.posonlyargs + fn.args.args + fn.args.kwonlyargs}
            if fn.args.vararg:
                params.add(fn.args.vararg.arg)
            if fn.args.kwarg:
                params.add(fn.args.kwarg.arg)
            seen, cur = set(params), []
            for x in sorted([x for x in ast.walk(fn) if isinstance(x, ast.Name) and isinstance(x.ctx, ast.Store)], key=lambda x: (getattr(x, "lineno", 0), getattr(x, "col_offset", 0))):
                if x.id not in seen:
                    seen.add(x.id)
                    cur.append(x.id)
            if cur == old or set(cur) == set(old):
                continue
            mp: Dict[str, str] = {}
            if len(cur) == len(old):
                mp = {c: o for c, o in zip(cur, old) if c != o}
                # a pinned name that still exists elsewhere in the function cannot be the target of a restoration
                if any(o in cur for o in mp.values()):
                    mp = {}
            if not mp:
                gone = [o for o in old if o not in cur]
                came = [c for c in cur if c not in old]
                if len(gone) == 1 and len(came) == 1:
                    mp = {came[0]: gone[0]}
            if not mp:
                continue
            used = {x.id for x in ast.walk(fn) if isinstance(x, ast.Name)} | params
            if set(mp.values()) & (used - set(mp)):
                continue
            inner_args = {a.arg for x in ast.walk(fn) if isinstance(x, (ast.Lambda, ast.FunctionDef, ast.AsyncFunctionDef)) and x is not fn
                          for a in x.args.posonlyargs + x.args.args + x.args.kwonlyargs}
            inner_args |= {h.name for x in ast.walk(fn) if isinstance(x, ast.Try) for h in x.handlers if h.name}
            if (set(mp) | set(mp.values())) & inner_args:
                continue
            if any(isinstance(x, (ast.Global, ast.Nonlocal)) for x in ast.walk(fn)):
                continue
            for x in ast.walk(fn):
                if isinstance(x, ast.Name) and x.id in mp:
                    x.id = mp[x.id]
            done += [(q, c, o) for c, o in mp.items()]
    return done


def restore_parameter_names(trees: Dict[str, ast.Module]) -> List[Tuple[str, str, str]]:
    """A pinned function whose parameter was renamed (same number of parameters; the names that still exist keep their
    meaning; exactly one pinned name and one current name are left over, or the left-over names sit at the same positions)
    is spelled with the pinned name again - in its body and in the keywords of its calls.  The order of the parameters
    needs nothing: the rules bind arguments by name."""
    sigs = load_baseline_sigs()
    done: List[Tuple[str, str, str]] = []
    if not sigs:
        return done
    fns: List[Tuple[str, ast.FunctionDef]] = []
    for m, tree in trees.items():
        for st in tree.body:
            if isinstance(st, ast.FunctionDef):
                fns.append((f"{m}.{st.name}", st))
            elif isinstance(st, ast.ClassDef):
                for x in st.body:
                    if isinstance(x, ast.FunctionDef) and not any(isinstance(d, ast.Attribute) and d.attr in ("setter", "deleter") for d in x.decorator_list):
                        fns.append((f"{m}.{st.name}.{x.name}", x))
    renames: Dict[str, Dict[str, str]] = {}          # function name -> {current: pinned}
    all_params: Dict[str, Set[str]] = {}
    for q, fn in fns:
        all_params.setdefault(fn.name, set()).update(a.arg for a in fn.args.posonlyargs + fn.args.args + fn.args.kwonlyargs)
    for q, fn in fns:
        old = sigs.get(q)
        if old is None:
            continue
        argnodes = fn.args.posonlyargs + fn.args.args + fn.args.kwonlyargs
        cur = [a.arg for a in argnodes]
        if cur == old or len(cur) != len(old) or sorted(cur) == sorted(old):
            continue
        gone = [o for o in old if o not in cur]
        came = [c for c in cur if c not in old]
        if len(gone) != len(came) or set(came) & set(sigs.get("locals:" + q, [])):
            continue        # a pinned local that became a parameter is a computation moved to the caller, not a renaming
        if len(gone) == 1:
            mp = {came[0]: gone[0]}
        elif all(cur.index(c) == old.index(o) for c, o in zip(came, gone)):
            mp = dict(zip(came, gone))
        else:
            continue
        # the pinned names must be free in the function
        used = {x.id for x in ast.walk(fn) if isinstance(x, ast.Name)}
        if used & set(mp.values()):
            continue
        if any(isinstance(x, (ast.FunctionDef, ast.Lambda, ast.ClassDef)) for b in fn.body for x in ast.walk(b)):
            continue        # nested scopes are left alone
        for a in argnodes:
            if a.arg in mp:
                a.arg = mp[a.arg]
        for x in ast.walk(fn):
            if isinstance(x, ast.Name) and x.id in mp:
                x.id = mp[x.id]
        for c, o in mp.items():
            done.append((q, c, o))
        if sum(1 for q2, f2 in fns if f2.name == fn.name) == 1:
            renames[fn.name] = mp
    if renames:
        for tree in trees.values():
            for c in ast.walk(tree):
                if isinstance(c, ast.Call):
                    nm = c.func.id if isinstance(c.func, ast.Name) else (c.func.attr if isinstance(c.func, ast.Attribute) else None)
                    mp = renames.get(nm)
                    if mp:
                        for k in c.keywords:
                            if k.arg in mp:
                                k.arg = mp[k.arg]
    return done


# ----------------------------------------------------------------------------- helper classification
class Helper:
    def __init__(self, qual: str, node: ast.FunctionDef, cls: Optional[str], kind: str, scope: Optional[str] = None):
        self.qual, self.node, self.cls, self.kind = qual, node, cls, kind
        self.scope = scope                      # qualified name of the enclosing function for closures
        self.reason: Optional[str] = None       # why it cannot be inlined
        self.kwargs_value = False               # the **kwargs parameter is read as a dict (kwargs.items(), kwargs.keys(), ...)


def _deco(d: ast.AST) -> str:
    if isinstance(d, ast.Call):
        d = d.func
    if isinstance(d, ast.Attribute):
        return d.attr
    return d.id if isinstance(d, ast.Name) else "?"


def _tail_ok(stmts: List[ast.stmt]) -> bool:
    """All returns are in tail position of if-ladders (no return inside loops/try/with)."""
    for i, st in enumerate(stmts):
        last = i == len(stmts) - 1
        if isinstance(st, ast.Return):
            if not last:
                return False
        elif isinstance(st, ast.If):
            has_ret = any(isinstance(n, ast.Return) for n in ast.walk(st))
            if not has_ret:
                continue
            if last:
                if not _tail_ok(st.body) or not _tail_ok(st.orelse):
                    return False
            else:
                # guard clause: `if c: ...; return X` followed by the rest
                if not _tail_ok(st.body) or not st.body or not _always_returns(st.body):
                    return False
                if any(isinstance(n, ast.Return) for x in st.orelse for n in ast.walk(x)):
                    return False
        else:
            if any(isinstance(n, ast.Return) for n in ast.walk(st)):
                return False
    return True


def _always_returns(stmts: List[ast.stmt]) -> bool:
    if not stmts:
        return False
    last = stmts[-1]
    if isinstance(last, (ast.Return, ast.Raise)):
        return True
    if isinstance(last, ast.If):
        return _always_returns(last.body) and _always_returns(last.orelse)
    return False


def _classify(h: Helper):
    n = h.node
    a = n.args
    if a.posonlyargs:
        h.reason = "star/positional-only parameters"
        return
    if a.kwarg:
        # **kwargs is supported when it is only ever passed on as `f(..., **kwargs)`
        kw = a.kwarg.arg
        inside = {id(k.value) for c in ast.walk(n) if isinstance(c, ast.Call) for k in c.keywords if k.arg is None and isinstance(k.value, ast.Name) and k.value.id == kw}
        others = [x for x in ast.walk(n) if isinstance(x, ast.Name) and x.id == kw and id(x) not in inside]
        if others:
            # read as a dict: it is bound to a dict display of the call's keywords where the helper is spelled out
            if any(not isinstance(x.ctx, ast.Load) for x in others):
                h.reason = "keyword-star parameter rebound in the helper"
                return
            h.kwargs_value = True
    if a.vararg:
        # *args is supported when it is only ever passed on as `f(..., *args)`
        va = a.vararg.arg
        inside = {id(x.value) for c in ast.walk(n) if isinstance(c, ast.Call) for x in c.args if isinstance(x, ast.Starred) and isinstance(x.value, ast.Name) and x.value.id == va}
        if any(isinstance(x, ast.Name) and x.id == va and id(x) not in inside for x in ast.walk(n)):
            h.reason = "star parameter used other than as f(*args)"
            return
    decos = {_deco(d) for d in n.decorator_list}
    if decos - {"staticmethod", "classmethod", "njit", "jit"}:
        h.reason = f"decorators {sorted(decos)}"
        return
    body = _strip_doc(n.body)
    if sum(1 for _ in ast.walk(n)) > 1500 or len(body) > MAX_HELPER_STMTS:
        h.reason = "too large"
        return
    for x in ast.walk(n):
        if isinstance(x, (ast.Yield, ast.YieldFrom, ast.Await, ast.Global, ast.Nonlocal)):
            h.reason = "generator/global"
            return
        if x is not n and isinstance(x, (ast.FunctionDef, ast.Lambda, ast.ClassDef)):
            h.reason = "nested definitions"
            return
        if isinstance(x, ast.Call) and isinstance(x.func, ast.Name) and x.func.id == n.name and h.cls is None:
            h.reason = "recursive"
            return
        if isinstance(x, ast.Call) and isinstance(x.func, ast.Attribute) and x.func.attr == n.name and h.cls is not None:
            h.reason = "recursive"
            return
    if not _tail_ok(body):
        h.reason = "returns outside tail position"
        return


def _strip_doc(body: List[ast.stmt]) -> List[ast.stmt]:
    if body and isinstance(body[0], ast.Expr) and isinstance(body[0].value, ast.Constant) and isinstance(body[0].value.value, str):
        return body[1:]
    return body


# ----------------------------------------------------------------------------- inlining one call
def _expr_form(h: "Helper") -> Optional[ast.AST]:
    """The helper as one expression of its parameters, or None: straight-line single-assignment temporaries, `if c: return a`
    clauses (-> conditional expressions) and a final return."""
    params = {a.arg for a in h.node.args.args} | {a.arg for a in h.node.args.kwonlyargs}

    def block(stmts: List[ast.stmt], temps: Dict[str, ast.AST]) -> Optional[ast.AST]:
        temps = dict(temps)
        for i, st in enumerate(stmts):
            if isinstance(st, ast.Assign) and len(st.targets) == 1 and isinstance(st.targets[0], ast.Name):
                nm = st.targets[0].id
                if nm in temps or nm in params:
                    return None
                temps[nm] = _Rename({}, dict(temps)).visit(copy.deepcopy(st.value))
            elif isinstance(st, ast.Return):
                if st.value is None:
                    return None
                return _Rename({}, dict(temps)).visit(copy.deepcopy(st.value))
            elif isinstance(st, ast.If):
                if not _always_returns(st.body) or any(isinstance(x, ast.Raise) for x in ast.walk(st)):
                    return None
                yes = block(st.body, temps)
                no = block(list(st.orelse) + list(stmts[i + 1:]), temps)
                if yes is None or no is None:
                    return None
                test = _Rename({}, dict(temps)).visit(copy.deepcopy(st.test))
                return ast.IfExp(test=test, body=yes, orelse=no)
            else:
                return None
        return None
    body = _strip_doc(h.node.body)
    if not body:
        return None
    return block(body, {})


class _Rename(ast.NodeTransformer):
    def __init__(self, names: Dict[str, str], subst: Dict[str, ast.AST]):
        self.names, self.subst = names, subst

    def visit_Name(self, node: ast.Name):
        if node.id in self.subst and isinstance(node.ctx, ast.Load):
            return ast.copy_location(copy.deepcopy(self.subst[node.id]), node)
        if node.id in self.names:
            return ast.copy_location(ast.Name(id=self.names[node.id], ctx=node.ctx), node)
        return node


def _simple(e: ast.AST) -> bool:
    if isinstance(e, (ast.Name, ast.Constant)):
        return True
    if isinstance(e, ast.Attribute):
        return _simple(e.value)
    if isinstance(e, ast.Subscript):
        return _simple(e.value) and _simple(e.slice)
    if isinstance(e, ast.UnaryOp) and isinstance(e.op, ast.USub):
        return _simple(e.operand)
    if isinstance(e, ast.Call) and isinstance(e.func, ast.Name) and e.func.id == "getattr" and len(e.args) == 2 and not e.keywords:
        return _simple(e.args[0]) and _simple(e.args[1])        # an attribute read under a computed name
    return False


def _stored_names(stmts: List[ast.stmt]) -> Set[str]:
    out = set()
    for st in stmts:
        for n in ast.walk(st):
            if isinstance(n, ast.Name) and isinstance(n.ctx, (ast.Store, ast.Del)):
                out.add(n.id)
    return out


def _names_in(node: ast.AST) -> Set[str]:
    return {n.id for n in ast.walk(node) if isinstance(n, ast.Name)}


def _returns_to(stmts: List[ast.stmt], make) -> List[ast.stmt]:
    """Replace tail-position returns by ``make(expr)`` statements (guard clauses become if/else)."""
    out: List[ast.stmt] = []
    for i, st in enumerate(stmts):
        last = i == len(stmts) - 1
        if isinstance(st, ast.Return):
            out += make(st.value, st)
        elif isinstance(st, ast.If) and any(isinstance(n, ast.Return) for n in ast.walk(st)):
            if last:
                new = ast.If(test=st.test, body=_returns_to(st.body, make) or [ast.Pass()], orelse=_returns_to(st.orelse, make))
            else:
                rest = _returns_to(stmts[i + 1:], make)
                new = ast.If(test=st.test, body=_returns_to(st.body, make) or [ast.Pass()], orelse=(list(st.orelse) + rest))
                out.append(ast.copy_location(new, st))
                return out
            out.append(ast.copy_location(new, st))
        else:
            out.append(st)
    return out


class _SplatArgs(ast.NodeTransformer):
    """`f(x, *args)` inside a helper whose *args were given as concrete expressions at the call: spell them out."""
    def __init__(self, name: str, exprs: List[ast.AST]):
        self.name, self.exprs = name, exprs

    def visit_Call(self, node: ast.Call):
        self.generic_visit(node)
        new = []
        for a in node.args:
            if isinstance(a, ast.Starred) and isinstance(a.value, ast.Name) and a.value.id == self.name:
                new += [copy.deepcopy(e) for e in self.exprs]
            else:
                new.append(a)
        node.args = new
        return node


class _SplatKwargs(ast.NodeTransformer):
    """`f(x, **kwargs)` inside a helper whose keywords were given explicitly at the call: spell them out."""
    def __init__(self, name: str, kws: List[ast.keyword]):
        self.name, self.kws = name, kws

    def visit_Call(self, node: ast.Call):
        self.generic_visit(node)
        new = []
        for k in node.keywords:
            if k.arg is None and isinstance(k.value, ast.Name) and k.value.id == self.name:
                new += [ast.keyword(arg=x.arg, value=copy.deepcopy(x.value)) for x in self.kws]
            else:
                new.append(k)
        node.keywords = new
        return node


class _GetattrLiteral(ast.NodeTransformer):
    """getattr(x, "name") with a literal identifier is the attribute x.name."""
    def visit_Call(self, node: ast.Call):
        self.generic_visit(node)
        if isinstance(node.func, ast.Name) and node.func.id == "getattr" and len(node.args) == 2 and not node.keywords \
                and isinstance(node.args[1], ast.Constant) and isinstance(node.args[1].value, str) and node.args[1].value.isidentifier():
            return ast.copy_location(ast.Attribute(value=node.args[0], attr=node.args[1].value, ctx=ast.Load()), node)
        return node


class Inliner:
    def __init__(self, helpers: Dict[str, Helper], by_name: Dict[str, List[Helper]]):
        self.helpers = helpers
        self.by_name = by_name
        self.counter = 0
        self.current = ""
        self.log: List[Tuple[str, str]] = []
        self.skipped: List[Tuple[str, str, str]] = []
        self.imports: Dict[str, Dict[str, Tuple[str, str]]] = {}      # module -> local name -> (source module, name)
        self.toplevel: Dict[str, Set[str]] = {}                        # module -> names bound at module level

    # -- resolution of a call to a helper
    def _callee(self, call: ast.Call, module: str, cls: Optional[str]) -> Tuple[Optional[Helper], Optional[ast.AST]]:
        f = call.func
        if isinstance(f, ast.Name):
            for h in self.by_name.get(f.id, []):
                if h.scope is not None and h.scope == self.current:
                    return h, None
            for h in self.by_name.get(f.id, []):
                if h.cls is None and h.scope is None and h.qual.split(".")[0] == module:
                    return h, None
            src = self.imports.get(module, {}).get(f.id)
            if src is not None:
                # `from .other import helper`: analysable here when every global the helper reads means the same thing in this module
                h = self.helpers.get(f"{src[0]}.{src[1]}")
                if h is not None and h.cls is None and h.scope is None and _free_globals(h.node) <= self.toplevel.get(module, set()):
                    return h, None
            return None, None
        if isinstance(f, ast.Attribute):
            cands = [h for h in self.by_name.get(f.attr, []) if h.cls is not None]
            if len(cands) != 1:
                return None, None
            h = cands[0]
            recv = f.value
            if isinstance(recv, ast.Name) and (recv.id in ("self", "cls") or recv.id == h.cls):
                return h, recv
            if h.kind == "method" and _simple(recv):
                return h, recv
        return None, None

    def inline_in_function(self, fn: ast.FunctionDef, module: str, cls: Optional[str], qual: str) -> int:
        n = 0
        self.current = qual
        n += self._block(fn.body, fn, module, cls, qual)
        n += self._expressions(fn, module, cls, qual)
        return n

    def _expressions(self, fn, module, cls, qual) -> int:
        """Calls left in positions where statements cannot be hoisted (comprehensions, conditional expressions):
        replace by the helper's expression form when it has one."""
        n = 0
        for _ in range(20):
            hit = None
            for node in ast.walk(fn):
                if node is fn or not isinstance(node, ast.Call):
                    continue
                h, recv = self._callee(node, module, cls)
                if h is None or h.reason is not None or h.node is fn:
                    continue
                ef = _expr_form(h)
                if ef is None:
                    continue
                bound = self._bind(node, h, recv)
                if bound is None:
                    continue
                uses = {}
                for x in ast.walk(ef):
                    if isinstance(x, ast.Name) and x.id in bound:
                        uses[x.id] = uses.get(x.id, 0) + 1
                if any(uses.get(p, 0) > 1 and not _simple(a) for p, a in bound.items()):
                    continue
                hit = (node, _Rename({}, bound).visit(ef))
                self.log.append((qual, h.qual))
                break
            if hit is None:
                break
            _replace_node(fn, hit[0], hit[1])
            ast.fix_missing_locations(fn)
            n += 1
        return n

    def _bind(self, call: ast.Call, h: "Helper", recv) -> Optional[Dict[str, ast.AST]]:
        hn = h.node
        params = [a.arg for a in hn.args.args] + [a.arg for a in hn.args.kwonlyargs]
        pos = [a.arg for a in hn.args.args]
        defaults: Dict[str, ast.AST] = {}
        for a, d in zip(reversed(hn.args.args), reversed(hn.args.defaults)):
            defaults[a.arg] = d
        for a, d in zip(hn.args.kwonlyargs, hn.args.kw_defaults):
            if d is not None:
                defaults[a.arg] = d
        bound: Dict[str, ast.AST] = {}
        if any(isinstance(a, ast.Starred) for a in call.args) or any(k.arg is None for k in call.keywords) or hn.args.vararg or hn.args.kwarg:
            return None
        if h.kind in ("method", "classmethod") and h.cls is not None:
            if recv is None:
                return None
            bound[pos[0]] = recv
            pos = pos[1:]
        if len(call.args) > len(pos):
            return None
        for p, a in zip(pos, call.args):
            bound[p] = a
        for k in call.keywords:
            if k.arg not in params or k.arg in bound:
                return None
            bound[k.arg] = k.value
        for p in params:
            if p not in bound:
                if p in defaults:
                    bound[p] = defaults[p]
                else:
                    return None
        return bound

    def _block(self, stmts: List[ast.stmt], fn, module, cls, qual) -> int:
        n = 0
        i = 0
        while i < len(stmts):
            st = stmts[i]
            # nested blocks first
            for fld in ("body", "orelse", "finalbody"):
                sub = getattr(st, fld, None)
                if isinstance(sub, list) and sub and isinstance(sub[0], ast.stmt) and not isinstance(st, (ast.FunctionDef, ast.ClassDef)):
                    n += self._block(sub, fn, module, cls, qual)
            if isinstance(st, ast.Try):
                for hd in st.handlers:
                    n += self._block(hd.body, fn, module, cls, qual)
            loopform = self._comp_to_loop(st, module, cls)
            if loopform is not None:
                stmts[i:i + 1] = loopform
                continue
            call = self._find_call(st, module, cls)
            if call is None:
                i += 1
                continue
            h, recv = self._callee(call, module, cls)
            new = self._expand(st, call, h, recv, fn, qual)
            if new is None:
                i += 1
                continue
            stmts[i:i + 1] = new
            n += 1
            self.log.append((qual, h.qual))
            # re-examine from the same index (the expansion may contain further helper calls)
        return n

    def _comp_to_loop(self, st: ast.stmt, module, cls) -> Optional[List[ast.stmt]]:
        """`X = [E(v) for v in S if C]` whose element calls an inlinable helper -> `X = []; for v in S: [if C:] X.append(E(v))`."""
        if not (isinstance(st, ast.Assign) and len(st.targets) == 1 and isinstance(st.targets[0], ast.Name) and isinstance(st.value, ast.ListComp)):
            return None
        c = st.value
        if len(c.generators) != 1 or c.generators[0].is_async:
            return None
        hit = False
        for e in ast.walk(c.elt):
            if isinstance(e, ast.Call):
                h, _r = self._callee(e, module, cls)
                if h is not None and h.reason is None:
                    hit = True
        if not hit:
            return None
        g = c.generators[0]
        x = st.targets[0].id
        if x in _names_in(c):
            return None
        app: ast.stmt = ast.Expr(value=ast.Call(func=ast.Attribute(value=ast.Name(id=x, ctx=ast.Load()), attr="append", ctx=ast.Load()), args=[c.elt], keywords=[]))
        for cond in reversed(g.ifs):
            app = ast.If(test=cond, body=[app], orelse=[])
        loop = ast.For(target=g.target, iter=g.iter, body=[app], orelse=[])
        init = ast.Assign(targets=[ast.Name(id=x, ctx=ast.Store())], value=ast.List(elts=[], ctx=ast.Load()))
        for n in (init, loop):
            ast.copy_location(n, st)
            ast.fix_missing_locations(n)
        for n in ast.walk(loop.target):
            if isinstance(n, ast.Name):
                n.ctx = ast.Store()
        return [init, loop]

    def _find_call(self, st: ast.stmt, module, cls) -> Optional[ast.Call]:
        """First helper call evaluated unconditionally by the statement's own expressions."""
        if isinstance(st, (ast.FunctionDef, ast.ClassDef, ast.While)):
            return None
        roots: List[ast.AST] = []
        if isinstance(st, ast.Assign):
            roots = [st.value]
        elif isinstance(st, (ast.AugAssign, ast.AnnAssign)):
            roots = [st.value] if st.value is not None else []
        elif isinstance(st, (ast.Expr, ast.Return)):
            roots = [st.value] if st.value is not None else []
        elif isinstance(st, ast.If):
            roots = [st.test]
        elif isinstance(st, ast.For):
            roots = [st.iter]
        found: List[ast.Call] = []

        def walk(e: ast.AST):
            if found:
                return
            if isinstance(e, (ast.Lambda, ast.ListComp, ast.SetComp, ast.DictComp, ast.GeneratorExp, ast.IfExp)):
                return
            if isinstance(e, ast.BoolOp):
                walk(e.values[0])
                return
            for c in ast.iter_child_nodes(e):
                walk(c)
                if found:
                    return
            if isinstance(e, ast.Call):
                h, _r = self._callee(e, module, cls)
                if h is not None and h.reason is None:
                    found.append(e)
        for r in roots:
            walk(r)
        return found[0] if found else None

    def _expand(self, st: ast.stmt, call: ast.Call, h: Helper, recv, fn, qual) -> Optional[List[ast.stmt]]:
        hn = h.node
        params = [a.arg for a in hn.args.args] + [a.arg for a in hn.args.kwonlyargs]
        pos = [a.arg for a in hn.args.args]
        defaults: Dict[str, ast.AST] = {}
        for a, d in zip(reversed(hn.args.args), reversed(hn.args.defaults)):
            defaults[a.arg] = d
        for a, d in zip(hn.args.kwonlyargs, hn.args.kw_defaults):
            if d is not None:
                defaults[a.arg] = d
        bound: Dict[str, ast.AST] = {}
        args = list(call.args)
        if h.kind in ("method", "classmethod") and h.cls is not None:
            if recv is None:
                return None
            bound[pos[0]] = recv
            pos = pos[1:]
        if args and isinstance(args[-1], ast.Starred) and not any(isinstance(a, ast.Starred) for a in args[:-1]) and hn.args.vararg is None \
                and _simple(args[-1].value) and not any(k.arg is None for k in call.keywords):
            # f(a, *t) for a helper without *args: t supplies exactly the remaining positional parameters (t[0], t[1], ...)
            named = {k.arg for k in call.keywords}
            rest = [p_ for p_ in pos[len(args) - 1:] if p_ not in named and p_ not in defaults]
            seq = args[-1].value
            args = args[:-1] + [ast.Subscript(value=copy.deepcopy(seq), slice=ast.Constant(value=i), ctx=ast.Load()) for i in range(len(rest))]
        if any(isinstance(a, ast.Starred) for a in args) or any(k.arg is None for k in call.keywords):
            self.skipped.append((qual, h.qual, "star arguments at the call"))
            return None
        va = hn.args.vararg.arg if hn.args.vararg else None
        extra: List[ast.AST] = []
        if len(args) > len(pos):
            if va is None:
                return None
            extra = args[len(pos):]
        for p, a in zip(pos, args):
            bound[p] = a
        kwa = hn.args.kwarg.arg if hn.args.kwarg else None
        extra_kw: List[ast.keyword] = []
        for k in call.keywords:
            if k.arg in bound:
                return None
            if k.arg not in params:
                if kwa is None:
                    return None
                extra_kw.append(k)
                continue
            bound[k.arg] = k.value
        for p in params:
            if p not in bound:
                if p in defaults:
                    bound[p] = defaults[p]
                else:
                    return None
        body = copy.deepcopy(_strip_doc(hn.body))
        kw_dict: Optional[ast.Dict] = None
        if kwa is not None and h.kwargs_value:
            kw_dict = ast.Dict(keys=[ast.Constant(value=k.arg) for k in extra_kw], values=[copy.deepcopy(k.value) for k in extra_kw])
        elif kwa is not None:
            if not all(_simple(k.value) for k in extra_kw):
                self.skipped.append((qual, h.qual, "non-trivial expressions passed through **kwargs"))
                return None
            if _names_in(ast.Tuple(elts=[k.value for k in extra_kw], ctx=ast.Load())) & _stored_names(body):
                return None
            body = [_SplatKwargs(kwa, extra_kw).visit(b) for b in body]
        if va is not None:
            if not all(_simple(x) for x in extra):
                self.skipped.append((qual, h.qual, "non-trivial expressions passed through *args"))
                return None
            if _names_in(ast.Tuple(elts=list(extra), ctx=ast.Load())) & _stored_names(body):
                return None
            body = [_SplatArgs(va, extra).visit(b) for b in body]
        stored = _stored_names(body)
        caller_names = _names_in(fn)
        self.counter += 1
        tag = f"__{hn.name.strip('_')}{self.counter}"
        pre: List[ast.stmt] = []
        subst: Dict[str, ast.AST] = {}
        rename: Dict[str, str] = {}
        target_names: Set[str] = set()
        if isinstance(st, ast.Assign) and st.value is call:
            for t in st.targets:
                target_names |= {n.id for n in ast.walk(t) if isinstance(n, ast.Name)}
        for p in params:
            a = bound[p]
            if p not in stored and _simple(a) and not (_names_in(a) & (stored - {p})):
                subst[p] = a
            elif isinstance(a, ast.Name) and a.id == p and ((isinstance(st, ast.Return) and st.value is call) or _dead_after(fn, st, p)):
                continue        # `return helper(x=x)` / x never read again: the caller's x is dead after the call, the helper may go on using the name
            else:
                fresh = p if (p not in caller_names) else p + tag
                rename[p] = fresh
                pre.append(ast.copy_location(ast.Assign(targets=[ast.Name(id=fresh, ctx=ast.Store())], value=copy.deepcopy(a)), st))
        if kw_dict is not None:
            rename[kwa] = kwa + tag
            pre.append(ast.copy_location(ast.Assign(targets=[ast.Name(id=kwa + tag, ctx=ast.Store())], value=kw_dict), st))
        for loc in sorted(stored - set(params)):
            if loc in caller_names and loc not in target_names:
                rename[loc] = loc + tag
        # names substituted for parameters must not be captured by the helper's (renamed) locals
        rn = _Rename(rename, subst)
        body = [rn.visit(b) for b in body]
        body = [_GetattrLiteral().visit(b) for b in body]
        # returns
        direct = isinstance(st, ast.Assign) and st.value is call
        n_ret = sum(1 for b in body for x in ast.walk(b) if isinstance(x, ast.Return))
        out: List[ast.stmt]
        if isinstance(st, ast.Return) and st.value is call:
            out = pre + body + ([] if _always_returns(body) else [ast.copy_location(ast.Return(value=None), st)])
        elif direct:
            def make(v, at, st=st):
                v = v if v is not None else ast.Constant(value=None)
                if len(st.targets) == 1 and isinstance(st.targets[0], ast.Name) and isinstance(v, ast.Name) and v.id == st.targets[0].id:
                    return []
                return [ast.copy_location(ast.Assign(targets=copy.deepcopy(st.targets), value=v), at)]
            out = pre + _returns_to(body, make)
            if n_ret == 0 or not _always_returns(body):
                # falls off the end -> None
                if n_ret == 0:
                    out.append(ast.copy_location(ast.Assign(targets=copy.deepcopy(st.targets), value=ast.Constant(value=None)), st))
        elif isinstance(st, ast.Expr) and st.value is call:
            def make(v, at):
                if v is None or isinstance(v, (ast.Name, ast.Constant)):
                    return []
                return [ast.copy_location(ast.Expr(value=v), at)]
            out = pre + _returns_to(body, make)
        else:
            if n_ret == 1 and body and isinstance(body[-1], ast.Return) and body[-1].value is not None:
                value = body[-1].value
                out = pre + body[:-1]
            else:
                rv = "_ret" + tag

                def make(v, at):
                    return [ast.copy_location(ast.Assign(targets=[ast.Name(id=rv, ctx=ast.Store())], value=v if v is not None else ast.Constant(value=None)), at)]
                out = pre + _returns_to(body, make)
                value = ast.Name(id=rv, ctx=ast.Load())
            _replace_node(st, call, value)
            out = out + [st]
        for o in out:
            ast.fix_missing_locations(o)
        return out


def _dead_after(fn: ast.AST, st: ast.stmt, name: str) -> bool:
    """`st` is a top-level statement of `fn` (so not inside a loop) and `name` is not read by any later statement."""
    body = getattr(fn, "body", None)
    if not isinstance(body, list) or st not in body:
        return False
    i = body.index(st)
    for later in body[i + 1:]:
        for x in ast.walk(later):
            if isinstance(x, ast.Name) and x.id == name and isinstance(x.ctx, ast.Load):
                return False
    return True


def _replace_node(root: ast.AST, old: ast.AST, new: ast.AST):
    for parent in ast.walk(root):
        for fld, val in ast.iter_fields(parent):
            if val is old:
                setattr(parent, fld, ast.copy_location(new, old))
                return
            if isinstance(val, list):
                for i, x in enumerate(val):
                    if x is old:
                        val[i] = ast.copy_location(new, old)
                        return


# ----------------------------------------------------------------------------- driver
def inline_new_helpers(trees: Dict[str, ast.Module], baseline: Optional[Set[str]] = None):
    """trees: module name -> parsed tree (modified in place).  Returns (log, skipped)."""
    baseline = load_baseline() if baseline is None else baseline
    if not baseline:
        return [], []
    helpers: Dict[str, Helper] = {}
    by_name: Dict[str, List[Helper]] = {}
    funcs: List[Tuple[str, Optional[str], ast.FunctionDef, str]] = []      # (module, class, node, qual)
    for mname, tree in trees.items():
        for st in tree.body:
            if isinstance(st, ast.FunctionDef):
                funcs.append((mname, None, st, f"{mname}.{st.name}"))
            elif isinstance(st, ast.ClassDef):
                for m in st.body:
                    if isinstance(m, ast.FunctionDef):
                        funcs.append((mname, st.name, m, f"{mname}.{st.name}.{m.name}"))
    # a function of the pinned tree that merely moved between a class and module level (staticmethod <-> function, same module,
    # same name) is still that function: an anchor, not a new helper
    base_by_mod_name = {(b.split(".")[0], b.split(".")[-1]) for b in baseline if not b.startswith("const:") and "<locals>" not in b}
    # a module function that a class binds under a pinned method name (`_check_input = staticmethod(_as_valid_double_array)`)
    # is that pinned method under another name, not a new helper
    aliased: Set[Tuple[str, str]] = set()
    for mname, tree in trees.items():
        for st in tree.body:
            if isinstance(st, ast.ClassDef):
                for x in st.body:
                    if isinstance(x, ast.Assign) and len(x.targets) == 1 and isinstance(x.targets[0], ast.Name):
                        v = x.value
                        if isinstance(v, ast.Call) and isinstance(v.func, ast.Name) and v.func.id in ("staticmethod", "classmethod") and len(v.args) == 1:
                            v = v.args[0]
                        if isinstance(v, ast.Name) and f"{mname}.{st.name}.{x.targets[0].id}" in baseline:
                            aliased.add((mname, v.id))
    for mname, cname, node, qual in funcs:
        if qual in baseline or ((mname, node.name) in base_by_mod_name and not node.name.startswith("__")) or (cname is None and (mname, node.name) in aliased):
            continue
        decos = {_deco(d) for d in node.decorator_list}
        kind = "staticmethod" if "staticmethod" in decos else "classmethod" if "classmethod" in decos else ("method" if cname else "function")
        if "property" in decos or node.name.startswith("__"):
            continue
        h = Helper(qual, node, cname, kind)
        _classify(h)
        helpers[qual] = h
        by_name.setdefault(node.name, []).append(h)
    for mname, cname, node, qual in funcs:
        for st in node.body:
            if isinstance(st, ast.FunctionDef):
                q2 = f"{qual}.<locals>.{st.name}"
                if q2 in baseline:
                    continue
                h = Helper(q2, st, None, "function", scope=qual)
                _classify(h)
                helpers[q2] = h
                by_name.setdefault(st.name, []).append(h)
    if not helpers:
        return [], []
    inl = Inliner(helpers, by_name)
    for mname, tree in trees.items():
        imp, top = {}, set()
        for st in tree.body:
            if isinstance(st, ast.ImportFrom) and st.level == 1 and st.module:
                for a in st.names:
                    imp[a.asname or a.name] = (st.module, a.name)
                    top.add(a.asname or a.name)
            elif isinstance(st, (ast.Import, ast.ImportFrom)):
                for a in st.names:
                    top.add((a.asname or a.name).split(".")[0])
            elif isinstance(st, (ast.FunctionDef, ast.ClassDef)):
                top.add(st.name)
            elif isinstance(st, ast.Assign):
                for t in st.targets:
                    if isinstance(t, ast.Name):
                        top.add(t.id)
        inl.imports[mname], inl.toplevel[mname] = imp, top
    for _round in range(MAX_ROUNDS):
        n = 0
        for mname, cname, node, qual in funcs:
            n += inl.inline_in_function(node, mname, cname, qual)
        if n == 0:
            break
    touched = {q for q, _h in inl.log}
    for mname, cname, node, qual in funcs:
        if qual in touched:
            renumber(node)
    skipped = inl.skipped + [("-", h.qual, h.reason) for h in helpers.values() if h.reason]
    return inl.log, skipped


def _free_globals(fn: ast.FunctionDef) -> Set[str]:
    """Names a function reads that are neither its parameters / locals nor builtins."""
    import builtins
    bound = {a.arg for a in fn.args.args + fn.args.kwonlyargs + fn.args.posonlyargs}
    if fn.args.vararg:
        bound.add(fn.args.vararg.arg)
    if fn.args.kwarg:
        bound.add(fn.args.kwarg.arg)
    loads = set()
    for n in ast.walk(fn):
        if isinstance(n, ast.Name):
            (loads if isinstance(n.ctx, ast.Load) else bound).add(n.id)
        elif isinstance(n, ast.ExceptHandler) and n.name:
            bound.add(n.name)
        elif isinstance(n, (ast.FunctionDef, ast.ClassDef)) and n is not fn:
            bound.add(n.name)
    return {x for x in loads - bound if not hasattr(builtins, x)}


def renumber(fn: ast.FunctionDef):
    """After inlining, statements carry the line numbers of where they were written.  Rules order statements by line:
    give every statement of the function a synthetic, strictly increasing line (document order) and keep the source
    line in `_src_lineno` for reports."""
    counter = [getattr(fn, "lineno", 1)]

    def visit_stmt(st: ast.stmt):
        counter[0] += 1
        mine = counter[0]
        for n in ast.walk(st):
            if isinstance(n, ast.stmt) and n is not st:
                continue
        # own expressions (header) get the statement's number
        def mark(n, num):
            if hasattr(n, "lineno"):
                if not hasattr(n, "_src_lineno"):
                    n._src_lineno = n.lineno
                n.lineno = num
                if hasattr(n, "end_lineno"):
                    n.end_lineno = num
        mark(st, mine)
        for fld, val in ast.iter_fields(st):
            if isinstance(val, list) and val and isinstance(val[0], ast.stmt):
                continue
            if isinstance(val, list) and val and isinstance(val[0], ast.excepthandler):
                continue
            vals = val if isinstance(val, list) else [val]
            for v in vals:
                if isinstance(v, ast.AST):
                    for n in ast.walk(v):
                        mark(n, mine)
        for fld in ("body", "orelse", "finalbody"):
            blk = getattr(st, fld, None)
            if isinstance(blk, list) and blk and isinstance(blk[0], ast.stmt):
                for b in blk:
                    visit_stmt(b)
        for hd in getattr(st, "handlers", []) or []:
            counter[0] += 1
            mark(hd, counter[0])
            for b in hd.body:
                visit_stmt(b)
        st.end_lineno = counter[0]
    for b in fn.body:
        visit_stmt(b)
    fn.end_lineno = counter[0]


# ----------------------------------------------------------------------------- match statements
class _MatchDesugar(ast.NodeTransformer):
    """`match subject: case <simple pattern> [if guard]: ...` is an if / elif ladder.  Supported patterns: literal values,
    None / True / False, alternatives, wildcard, captures, class patterns without sub-patterns, fixed-length sequences
    of those.  Anything else is left alone (the rules then report the statement as not analysable)."""
    counter = 0

    def _test(self, pat, subj: ast.AST, binds: List[ast.stmt]) -> Optional[ast.AST]:
        cp = lambda: copy.deepcopy(subj)    # noqa: E731
        if isinstance(pat, ast.MatchValue):
            return ast.Compare(left=cp(), ops=[ast.Eq()], comparators=[pat.value])
        if isinstance(pat, ast.MatchSingleton) and pat.value in (True, False) and isinstance(subj, ast.Compare) \
                and all(isinstance(o, (ast.Is, ast.IsNot)) for o in subj.ops):
            # an identity test is a bool: `(x is None) is True` is `x is None`, `... is False` its negation
            return cp() if pat.value is True else ast.UnaryOp(op=ast.Not(), operand=cp())
        if isinstance(pat, ast.MatchSingleton):
            return ast.Compare(left=cp(), ops=[ast.Is()], comparators=[ast.Constant(value=pat.value)])
        if isinstance(pat, ast.MatchOr):
            tests = [self._test(p, subj, binds) for p in pat.patterns]
            if any(t is None for t in tests):
                return None
            return ast.BoolOp(op=ast.Or(), values=tests)
        if isinstance(pat, ast.MatchAs):
            t = ast.Constant(value=True) if pat.pattern is None else self._test(pat.pattern, subj, binds)
            if t is None:
                return None
            if pat.name is not None:
                binds.append(ast.Assign(targets=[ast.Name(id=pat.name, ctx=ast.Store())], value=cp()))
            return t
        if isinstance(pat, ast.MatchClass) and not pat.patterns and not pat.kwd_patterns:
            return ast.Call(func=ast.Name(id="isinstance", ctx=ast.Load()), args=[cp(), pat.cls], keywords=[])
        if isinstance(pat, ast.MatchSequence) and not any(isinstance(p, ast.MatchStar) for p in pat.patterns):
            n = len(pat.patterns)
            if isinstance(subj, (ast.Tuple, ast.List)):
                if len(subj.elts) != n:
                    return ast.Constant(value=False)
                elems = list(subj.elts)
                tests = []
            else:
                elems = [ast.Subscript(value=cp(), slice=ast.Constant(value=i), ctx=ast.Load()) for i in range(n)]
                tests = [ast.Compare(left=ast.Call(func=ast.Name(id="len", ctx=ast.Load()), args=[cp()], keywords=[]), ops=[ast.Eq()], comparators=[ast.Constant(value=n)])]
            for p, e in zip(pat.patterns, elems):
                t = self._test(p, e, binds)
                if t is None:
                    return None
                if not (isinstance(t, ast.Constant) and t.value is True):
                    tests.append(t)
            if not tests:
                return ast.Constant(value=True)
            return tests[0] if len(tests) == 1 else ast.BoolOp(op=ast.And(), values=tests)
        return None

    def visit_Match(self, node: ast.Match):
        self.generic_visit(node)
        pre: List[ast.stmt] = []
        subj = node.subject
        simple = _simple(subj) or (isinstance(subj, (ast.Tuple, ast.List)) and all(_simple(e) or _is_pure_test(e) for e in subj.elts))
        if not simple:
            _MatchDesugar.counter += 1
            nm = f"__match_subject{_MatchDesugar.counter}"
            pre.append(ast.Assign(targets=[ast.Name(id=nm, ctx=ast.Store())], value=subj))
            subj = ast.Name(id=nm, ctx=ast.Load())
        arms = []
        for case in node.cases:
            binds: List[ast.stmt] = []
            t = self._test(case.pattern, subj, binds)
            if t is None:
                return node
            if case.guard is not None:
                if binds:
                    return node         # a guard that reads a capture: keep the statement as it is
                t = case.guard if (isinstance(t, ast.Constant) and t.value is True) else ast.BoolOp(op=ast.And(), values=[t, case.guard])
            arms.append((t, binds + list(case.body)))
        top: Optional[ast.If] = None
        cur: Optional[ast.If] = None
        tail: List[ast.stmt] = []
        for t, body in arms:
            if isinstance(t, ast.Constant) and t.value is True:
                tail = body
                break
            new = ast.If(test=t, body=body, orelse=[])
            if top is None:
                top = cur = new
            else:
                cur.orelse = [new]
                cur = new
        if top is None:
            out = pre + tail
        else:
            cur.orelse = tail
            out = pre + [top]
        for o in out:
            ast.copy_location(o, node)
            ast.fix_missing_locations(o)
        return out


class _SplitTupleAssign(ast.NodeTransformer):
    """`a[i], b[j] = x, y` is `a[i] = x; b[j] = y` when no right-hand side reads what an earlier target writes
    (the right-hand sides are evaluated first in the original)."""
    @staticmethod
    def _root(t):
        while isinstance(t, (ast.Subscript, ast.Attribute)):
            t = t.value
        return t.id if isinstance(t, ast.Name) else None

    def visit_Assign(self, node: ast.Assign):
        if len(node.targets) != 1 or not isinstance(node.targets[0], ast.Tuple) or not isinstance(node.value, ast.Tuple):
            return node
        ts, vs = node.targets[0].elts, node.value.elts
        if len(ts) != len(vs) or any(isinstance(x, ast.Starred) for x in list(ts) + list(vs)):
            return node
        if not any(isinstance(t, (ast.Subscript, ast.Attribute)) for t in ts):
            return node             # plain name unpacking is handled everywhere already
        roots = [self._root(t) for t in ts]
        if any(r is None for r in roots):
            return node
        for i in range(len(ts)):
            for j in range(i + 1, len(vs)):
                reads = {n.id for n in ast.walk(vs[j]) if isinstance(n, ast.Name)}
                if roots[i] in reads:
                    return node
            # index expressions of later targets must not read an earlier plain-name target either
            for j in range(i + 1, len(ts)):
                if isinstance(ts[i], ast.Name) and ts[i].id in {n.id for n in ast.walk(ts[j]) if isinstance(n, ast.Name)}:
                    return node
        out = []
        for t, v in zip(ts, vs):
            a = ast.Assign(targets=[t], value=v)
            ast.copy_location(a, node)
            ast.fix_missing_locations(a)
            out.append(a)
        return out


def split_tuple_assignments(trees: Dict[str, ast.Module]) -> None:
    for tree in trees.values():
        if any(isinstance(x, ast.Assign) and len(x.targets) == 1 and isinstance(x.targets[0], ast.Tuple) and isinstance(x.value, ast.Tuple) for x in ast.walk(tree)):
            _SplitTupleAssign().visit(tree)
            ast.fix_missing_locations(tree)


class _MapOverDisplay(ast.NodeTransformer):
    """`map(f, (a, b))` / `map(f, (a, b), (c, d))` unpacked at once is the display `(f(a), f(b))` / `(f(a, c), f(b, d))`."""
    def visit_Assign(self, node: ast.Assign):
        self.generic_visit(node)
        v = node.value
        if len(node.targets) == 1 and isinstance(node.targets[0], (ast.Tuple, ast.List)) and isinstance(v, ast.Call) and isinstance(v.func, ast.Name) \
                and v.func.id == "map" and len(v.args) >= 2 and not v.keywords and isinstance(v.args[0], ast.Name) \
                and all(isinstance(a, (ast.Tuple, ast.List)) and not any(isinstance(e, ast.Starred) for e in a.elts) for a in v.args[1:]) \
                and len({len(a.elts) for a in v.args[1:]}) == 1 and len(v.args[1].elts) == len(node.targets[0].elts):
            n = len(v.args[1].elts)
            calls = [ast.Call(func=copy.deepcopy(v.args[0]), args=[copy.deepcopy(a.elts[i]) for a in v.args[1:]], keywords=[]) for i in range(n)]
            node.value = ast.copy_location(ast.Tuple(elts=calls, ctx=ast.Load()), v)
            ast.fix_missing_locations(node)
        return node


class _ItertoolsForms(ast.NodeTransformer):
    """`itertools.chain(a, b)` consumed whole by max / min / sum / list / tuple / sorted / any / all / set is the display `[*a, *b]`
    (displays among the arguments are spliced in); `itertools.compress(data, selectors)` is `(d for d, s in zip(data, selectors) if s)`."""
    CONSUMERS = ("max", "min", "sum", "list", "tuple", "sorted", "any", "all", "set", "frozenset")
    counter = 0

    @staticmethod
    def _is(call, name):
        f = call.func
        return (isinstance(f, ast.Name) and f.id == name) or (isinstance(f, ast.Attribute) and f.attr == name and isinstance(f.value, ast.Name) and f.value.id == "itertools")

    def visit_Call(self, node):
        self.generic_visit(node)
        if isinstance(node.func, ast.Name) and node.func.id in self.CONSUMERS and len(node.args) >= 1 and isinstance(node.args[0], ast.Call) \
                and self._is(node.args[0], "chain") and node.args[0].args and not node.args[0].keywords \
                and not any(isinstance(a, ast.Starred) for a in node.args[0].args):
            elts = []
            for a in node.args[0].args:
                if isinstance(a, (ast.Tuple, ast.List)):
                    elts.extend(a.elts)
                else:
                    elts.append(ast.Starred(value=a, ctx=ast.Load()))
            node.args[0] = ast.copy_location(ast.List(elts=elts, ctx=ast.Load()), node.args[0])
            ast.fix_missing_locations(node)
            return node
        if self._is(node, "compress") and len(node.args) == 2 and not node.keywords:
            _ItertoolsForms.counter += 1
            d, s_ = f"_cd{_ItertoolsForms.counter}", f"_cs{_ItertoolsForms.counter}"
            g = ast.GeneratorExp(elt=ast.Name(id=d, ctx=ast.Load()), generators=[ast.comprehension(
                target=ast.Tuple(elts=[ast.Name(id=d, ctx=ast.Store()), ast.Name(id=s_, ctx=ast.Store())], ctx=ast.Store()),
                iter=ast.Call(func=ast.Name(id="zip", ctx=ast.Load()), args=list(node.args), keywords=[]), ifs=[ast.Name(id=s_, ctx=ast.Load())], is_async=0)])
            ast.copy_location(g, node)
            ast.fix_missing_locations(g)
            return g
        return node


def _desugar_count_iterators(fn: ast.AST) -> int:
    """`it = itertools.count(a)` whose only uses are statements `v = next(it)` is the counter `it = a` with `v = it; it += 1`
    (the same values in the same order; anything else - a step, `next` inside an expression, the iterator passed on - is left alone)."""
    n = 0
    defs = [st for st in ast.walk(fn) if isinstance(st, ast.Assign) and len(st.targets) == 1 and isinstance(st.targets[0], ast.Name)
            and isinstance(st.value, ast.Call) and not st.value.keywords and len(st.value.args) <= 1
            and ((isinstance(st.value.func, ast.Attribute) and st.value.func.attr == "count" and isinstance(st.value.func.value, ast.Name) and st.value.func.value.id == "itertools")
                 or (isinstance(st.value.func, ast.Name) and st.value.func.id == "count"))]
    for d in defs:
        name = d.targets[0].id
        if sum(1 for st in ast.walk(fn) if isinstance(st, (ast.Assign, ast.AugAssign, ast.For, ast.With, ast.NamedExpr))
               for t in ast.walk(st.targets[0] if isinstance(st, ast.Assign) else getattr(st, "target", st))
               if isinstance(t, ast.Name) and t.id == name and isinstance(t.ctx, ast.Store)) != 1:
            continue
        loads = [x for x in ast.walk(fn) if isinstance(x, ast.Name) and x.id == name and isinstance(x.ctx, ast.Load)]
        sites = []
        ok = True

        def find(block):
            nonlocal ok
            for i, st in enumerate(block):
                if isinstance(st, ast.Assign) and len(st.targets) == 1 and isinstance(st.targets[0], ast.Name) and isinstance(st.value, ast.Call) \
                        and isinstance(st.value.func, ast.Name) and st.value.func.id == "next" and len(st.value.args) == 1 and not st.value.keywords \
                        and isinstance(st.value.args[0], ast.Name) and st.value.args[0].id == name:
                    sites.append((block, i, st))
                for fld in ("body", "orelse", "finalbody"):
                    sub = getattr(st, fld, None)
                    if isinstance(sub, list) and sub and isinstance(sub[0], ast.stmt):
                        find(sub)
                for hd in getattr(st, "handlers", []) or []:
                    find(hd.body)
        find(fn.body)
        if len(sites) != len(loads) or not sites:
            continue
        for block, i, st in sorted(sites, key=lambda x: -x[1]):
            inc = ast.copy_location(ast.AugAssign(target=ast.Name(id=name, ctx=ast.Store()), op=ast.Add(), value=ast.Constant(value=1)), st)
            st.value = ast.copy_location(ast.Name(id=name, ctx=ast.Load()), st.value)
            block.insert(block.index(st) + 1, inc)
        d.value = ast.copy_location(d.value.args[0] if d.value.args else ast.Constant(value=0), d.value)
        n += 1
    return n


def _lit_const(e: ast.AST) -> bool:
    if isinstance(e, ast.Constant):
        return isinstance(e.value, (int, float, str)) and not isinstance(e.value, bool)
    if isinstance(e, (ast.Tuple, ast.List)):
        # (None / True / False may be members of a literal sequence: `(None, "none")`)
        return bool(e.elts) and all(_lit_const(x) or (isinstance(x, ast.Constant) and (x.value is None or isinstance(x.value, bool))) for x in e.elts)
    if isinstance(e, ast.UnaryOp) and isinstance(e.op, ast.USub):
        return _lit_const(e.operand)
    if isinstance(e, ast.BinOp) and isinstance(e.op, (ast.Add, ast.Sub, ast.Mult, ast.Div, ast.Pow, ast.FloorDiv)):
        # arithmetic of numeric literals (and pi): `2*np.pi`, `(np.pi*280) / (2*151)`, `2**15`
        num = lambda x: (isinstance(x, ast.Constant) and isinstance(x.value, (int, float)) and not isinstance(x.value, bool)) \
            or (isinstance(x, ast.Attribute) and x.attr == "pi" and isinstance(x.value, ast.Name) and x.value.id in ("np", "numpy", "math")) \
            or (isinstance(x, ast.BinOp) and _lit_const(x)) or (isinstance(x, ast.UnaryOp) and isinstance(x.op, ast.USub) and num(x.operand))   # noqa: E731
        return num(e.left) and num(e.right)
    return False


def propagate_new_constants(trees: Dict[str, ast.Module], baseline: Optional[Set[str]] = None) -> List[str]:
    """A literal constant (number, string, tuple / list of such) bound once at module or class level under a name the pinned tree
    does not have is a *new* constant: its uses (`NAME`, `self.NAME`, `cls.NAME`, `Class.NAME`) in that module are replaced by
    the literal before any rule runs - `for c in self._COMPONENTS` is `for c in ("ns", "ew", "vt")`."""
    baseline = load_baseline() if baseline is None else baseline
    if not baseline:
        return []
    done: List[str] = []
    attr_stores = {x.attr for t in trees.values() for x in ast.walk(t) if isinstance(x, ast.Attribute) and isinstance(x.ctx, (ast.Store, ast.Del))}
    for mname, tree in trees.items():
        mod_consts: Dict[str, ast.AST] = {}
        cls_consts: Dict[Tuple[str, str], ast.AST] = {}
        for st in tree.body:
            if isinstance(st, ast.Assign) and len(st.targets) == 1 and isinstance(st.targets[0], ast.Name) and _lit_const(st.value) \
                    and f"const:{mname}.{st.targets[0].id}" not in baseline and not st.targets[0].id.startswith("__"):
                mod_consts[st.targets[0].id] = st.value
            elif isinstance(st, ast.ClassDef):
                for x in st.body:
                    if isinstance(x, ast.Assign) and len(x.targets) == 1 and isinstance(x.targets[0], ast.Name) and _lit_const(x.value) \
                            and f"const:{mname}.{st.name}.{x.targets[0].id}" not in baseline and x.targets[0].id not in attr_stores:
                        cls_consts[(st.name, x.targets[0].id)] = x.value
        # a module constant must be bound exactly once in the module (no rebinding, no `global`)
        for nm in list(mod_consts):
            stores = [x for x in ast.walk(tree) if isinstance(x, ast.Name) and x.id == nm and isinstance(x.ctx, (ast.Store, ast.Del))]
            glob = [x for x in ast.walk(tree) if isinstance(x, (ast.Global, ast.Nonlocal)) and nm in x.names]
            params = [a for f in ast.walk(tree) if isinstance(f, (ast.FunctionDef, ast.Lambda)) for a in f.args.args + f.args.kwonlyargs if a.arg == nm]
            if len(stores) != 1 or glob or params:
                del mod_consts[nm]
        if not mod_consts and not cls_consts:
            continue
        cls_by_attr: Dict[str, List[Tuple[str, ast.AST]]] = {}
        for (cn, an), v in cls_consts.items():
            cls_by_attr.setdefault(an, []).append((cn, v))

        class Prop(ast.NodeTransformer):
            def __init__(self):
                self.cls: Optional[str] = None

            def visit_ClassDef(self, node):
                saved, self.cls = self.cls, node.name
                # in the class body itself (defaults of its methods, other class-level statements) the constant is a bare name
                here = {an: v for (cn, an), v in cls_consts.items() if cn == node.name}
                if here:
                    sub = _SubstNames(here)
                    for m in node.body:
                        if isinstance(m, (ast.FunctionDef, ast.AsyncFunctionDef)):
                            m.args.defaults = [sub.visit(d) for d in m.args.defaults]
                            m.args.kw_defaults = [sub.visit(d) if d is not None else None for d in m.args.kw_defaults]
                self.generic_visit(node)
                self.cls = saved
                return node

            def visit_Name(self, node):
                if isinstance(node.ctx, ast.Load) and node.id in mod_consts:
                    return ast.copy_location(copy.deepcopy(mod_consts[node.id]), node)
                return node

            def visit_Attribute(self, node):
                self.generic_visit(node)
                if isinstance(node.ctx, ast.Load) and node.attr in cls_by_attr and isinstance(node.value, ast.Name):
                    for cn, v in cls_by_attr[node.attr]:
                        if (node.value.id in ("self", "cls") and self.cls == cn) or node.value.id == cn:
                            return ast.copy_location(copy.deepcopy(v), node)
                return node
        Prop().visit(tree)
        ast.fix_missing_locations(tree)
        done += [f"{mname}.{n}" for n in mod_consts] + [f"{mname}.{c}.{a}" for (c, a) in cls_consts]
    return done


class _SubstNames(ast.NodeTransformer):
    def __init__(self, m: Dict[str, ast.AST]):
        self.m = m

    def visit_Name(self, node):
        if isinstance(node.ctx, ast.Load) and node.id in self.m:
            return ast.copy_location(copy.deepcopy(self.m[node.id]), node)
        return node


def _desugar_literal_dict_loops(fn: ast.AST) -> int:
    """`D = {"a": x, "b": y}` (a local bound once, never modified) used as `for k, v in D.items(): <body>` / `for k in D:` /
    `seq.extend(D)` / `list(D)`: the loop is its body once per entry, in order, and iterating the dict gives its keys.  The entry
    values are evaluated once, where the dict is built (temporaries), exactly as before.  `setattr(o, "name", v)` with a literal
    name is the store `o.name = v`."""
    n = 0
    cands = [st for st in ast.walk(fn) if isinstance(st, ast.Assign) and len(st.targets) == 1 and isinstance(st.targets[0], ast.Name)
             and isinstance(st.value, ast.Dict) and st.value.keys and all(isinstance(k, ast.Constant) and isinstance(k.value, str) for k in st.value.keys)]
    for d in cands:
        name = d.targets[0].id
        stores = [x for x in ast.walk(fn) if isinstance(x, ast.Name) and x.id == name and isinstance(x.ctx, (ast.Store, ast.Del))]
        if len(stores) != 1:
            continue
        loads = [x for x in ast.walk(fn) if isinstance(x, ast.Name) and x.id == name and isinstance(x.ctx, ast.Load)]
        # classify every use
        uses = []
        okay = True

        def scan(block):
            nonlocal okay
            for st in block:
                if isinstance(st, ast.For) and not st.orelse:
                    it = st.iter
                    if isinstance(it, ast.Call) and isinstance(it.func, ast.Attribute) and it.func.attr == "items" and not it.args \
                            and isinstance(it.func.value, ast.Name) and it.func.value.id == name and isinstance(st.target, ast.Tuple) \
                            and len(st.target.elts) == 2 and all(isinstance(e, ast.Name) for e in st.target.elts):
                        uses.append(("items", block, st, it.func.value))
                    elif isinstance(it, ast.Name) and it.id == name and isinstance(st.target, ast.Name):
                        uses.append(("keys", block, st, it))
                if isinstance(st, ast.Expr) and isinstance(st.value, ast.Call) and isinstance(st.value.func, ast.Attribute) \
                        and st.value.func.attr == "extend" and len(st.value.args) == 1:
                    a0 = st.value.args[0]
                    if isinstance(a0, ast.Call) and isinstance(a0.func, ast.Name) and a0.func.id in ("list", "tuple") and len(a0.args) == 1 and not a0.keywords:
                        a0 = a0.args[0]
                    if isinstance(a0, ast.Call) and isinstance(a0.func, ast.Attribute) and a0.func.attr == "keys" and not a0.args and not a0.keywords:
                        a0 = a0.func.value
                    if isinstance(a0, ast.Name) and a0.id == name:
                        uses.append(("extend", block, st, a0))
                for fld in ("body", "orelse", "finalbody"):
                    sub = getattr(st, fld, None)
                    if isinstance(sub, list) and sub and isinstance(sub[0], ast.stmt) and not isinstance(st, (ast.FunctionDef, ast.ClassDef)):
                        scan(sub)
        scan(fn.body)
        if len(uses) != len(loads) or not uses:
            continue
        for kind, block, st, _ in uses:
            if kind in ("items", "keys") and (any(isinstance(x, (ast.Break, ast.Continue, ast.Return, ast.Yield)) for x in ast.walk(st))
                                               or len(st.body) > 6):
                okay = False
        if not okay:
            continue
        keys = [k.value for k in d.value.keys]
        temps = {k: f"_{name}__{re.sub(r'[^0-9A-Za-z_]', '_', k)}" for k in keys}
        # temporaries where the dict is built
        parent_block = None

        def find_block(block):
            nonlocal parent_block
            for st in block:
                if st is d:
                    parent_block = block
                for fld in ("body", "orelse", "finalbody"):
                    sub = getattr(st, fld, None)
                    if isinstance(sub, list) and sub and isinstance(sub[0], ast.stmt) and not isinstance(st, (ast.FunctionDef, ast.ClassDef)):
                        find_block(sub)
        find_block(fn.body)
        if parent_block is None:
            continue
        pre = [ast.copy_location(ast.Assign(targets=[ast.Name(id=temps[k], ctx=ast.Store())], value=v), d) for k, v in zip(keys, d.value.values)]
        d.value = ast.copy_location(ast.Dict(keys=[ast.Constant(value=k) for k in keys], values=[ast.Name(id=temps[k], ctx=ast.Load()) for k in keys]), d.value)
        i = parent_block.index(d)
        parent_block[i:i] = pre
        for kind, block, st, node in uses:
            if kind == "extend":
                st.value.args[0] = ast.copy_location(ast.List(elts=[ast.Constant(value=k) for k in keys], ctx=ast.Load()), node)
                continue
            new = []
            for k in keys:
                m = {st.target.elts[0].id: ast.Constant(value=k), st.target.elts[1].id: ast.Name(id=temps[k], ctx=ast.Load())} if kind == "items" \
                    else {st.target.id: ast.Constant(value=k)}
                for b in st.body:
                    new.append(_SubstNames(m).visit(copy.deepcopy(b)))
            j = block.index(st)
            block[j:j + 1] = new
        n += 1
    # setattr(o, "name", v) as a statement
    for node in ast.walk(fn):
        for fld in ("body", "orelse", "finalbody"):
            sub = getattr(node, fld, None)
            if not (isinstance(sub, list) and sub and isinstance(sub[0], ast.stmt)):
                continue
            for i, st in enumerate(sub):
                if isinstance(st, ast.Expr) and isinstance(st.value, ast.Call) and isinstance(st.value.func, ast.Name) and st.value.func.id == "setattr" \
                        and len(st.value.args) == 3 and not st.value.keywords and isinstance(st.value.args[1], ast.Constant) \
                        and isinstance(st.value.args[1].value, str) and st.value.args[1].value.isidentifier():
                    o, k, v = st.value.args
                    sub[i] = ast.copy_location(ast.Assign(targets=[ast.Attribute(value=o, attr=k.value, ctx=ast.Store())], value=v), st)
                    n += 1
    return n


def _desugar_partial(fn: ast.AST) -> int:
    """`p = functools.partial(f, a, k=v)` bound once and only ever called: every `p(x, j=w)` is `f(a, x, k=v, j=w)` (keywords
    given at the call win).  Arguments that are not plain names / attributes / constants are first bound to temporaries where
    the partial is built, so they are still evaluated once."""
    n = 0
    defs = [st for st in ast.walk(fn) if isinstance(st, ast.Assign) and len(st.targets) == 1 and isinstance(st.targets[0], ast.Name)
            and isinstance(st.value, ast.Call) and st.value.args
            and ((isinstance(st.value.func, ast.Attribute) and st.value.func.attr == "partial" and isinstance(st.value.func.value, ast.Name) and st.value.func.value.id == "functools")
                 or (isinstance(st.value.func, ast.Name) and st.value.func.id == "partial"))
            and not any(isinstance(a, ast.Starred) for a in st.value.args) and not any(k.arg is None for k in st.value.keywords)]
    for d in defs:
        name = d.targets[0].id
        target = d.value.args[0]
        if not _simple(target):
            continue
        stores = [x for x in ast.walk(fn) if isinstance(x, ast.Name) and x.id == name and isinstance(x.ctx, (ast.Store, ast.Del))]
        loads = [x for x in ast.walk(fn) if isinstance(x, ast.Name) and x.id == name and isinstance(x.ctx, ast.Load)]
        calls = [c for c in ast.walk(fn) if isinstance(c, ast.Call) and isinstance(c.func, ast.Name) and c.func.id == name]
        if len(stores) != 1 or not loads or len(calls) != len(loads):
            continue
        block = None

        def find(b):
            nonlocal block
            for st in b:
                if st is d:
                    block = b
                for fld in ("body", "orelse", "finalbody"):
                    sub = getattr(st, fld, None)
                    if isinstance(sub, list) and sub and isinstance(sub[0], ast.stmt) and not isinstance(st, (ast.FunctionDef, ast.ClassDef)):
                        find(sub)
        find(fn.body)
        if block is None:
            continue
        pre = []

        def hold(e, tag):
            if _simple(e):
                return e
            tmp = f"_{name}__{tag}"
            pre.append(ast.copy_location(ast.Assign(targets=[ast.Name(id=tmp, ctx=ast.Store())], value=e), d))
            return ast.Name(id=tmp, ctx=ast.Load())
        pos = [hold(a, str(i)) for i, a in enumerate(d.value.args[1:])]
        kws = [(k.arg, hold(k.value, k.arg)) for k in d.value.keywords]
        for c in calls:
            given = {k.arg for k in c.keywords if k.arg}
            c.func = ast.copy_location(copy.deepcopy(target), c.func)
            c.args = [copy.deepcopy(a) for a in pos] + list(c.args)
            c.keywords = [ast.keyword(arg=a, value=copy.deepcopy(v)) for a, v in kws if a not in given] + list(c.keywords)
        i = block.index(d)
        block[i:i + 1] = pre or [ast.copy_location(ast.Pass(), d)]
        n += 1
    return n


def _desugar_bool_vector(fn: ast.AST) -> int:
    """`V = np.array([b0, b1, ...], dtype=float)` where every b_i is a local bound once to `bool(<condition>)` (or to a comparison)
    is the vector `V = np.zeros(k)` with `V[i] = 1` exactly when b_i holds."""
    n = 0

    def flags_of(call):
        if not (isinstance(call, ast.Call) and isinstance(call.func, ast.Attribute) and call.func.attr in ("array", "asarray") and len(call.args) == 1
                and isinstance(call.args[0], (ast.List, ast.Tuple)) and call.args[0].elts and all(isinstance(e, ast.Name) for e in call.args[0].elts)):
            return None
        dt = [k for k in call.keywords if k.arg == "dtype"]
        if len(call.keywords) != 1 or len(dt) != 1 or ast.unparse(dt[0].value) not in ("float", "np.float64", "np.double", "int"):
            return None
        return [e.id for e in call.args[0].elts]

    def visit(block):
        nonlocal n
        for i, st in enumerate(list(block)):
            for fld in ("body", "orelse", "finalbody"):
                sub = getattr(st, fld, None)
                if isinstance(sub, list) and sub and isinstance(sub[0], ast.stmt) and not isinstance(st, (ast.FunctionDef, ast.ClassDef)):
                    visit(sub)
            if not (isinstance(st, ast.Assign) and len(st.targets) == 1 and isinstance(st.targets[0], ast.Name)):
                continue
            names = flags_of(st.value)
            if names is None or len(set(names)) != len(names):
                continue
            ok = True
            for nm in names:
                defs = [d for d in ast.walk(fn) if isinstance(d, ast.Assign) and any(isinstance(t, ast.Name) and t.id == nm for t in d.targets)]
                others = [x for x in ast.walk(fn) if isinstance(x, ast.Name) and x.id == nm and isinstance(x.ctx, (ast.Store, ast.Del))]
                v = defs[0].value if len(defs) == 1 else None
                boolish = isinstance(v, (ast.Compare, ast.BoolOp)) or (isinstance(v, ast.Call) and isinstance(v.func, ast.Name) and v.func.id == "bool" and len(v.args) == 1) \
                    or (isinstance(v, ast.UnaryOp) and isinstance(v.op, ast.Not))
                if len(defs) != 1 or len(others) != 1 or not boolish:
                    ok = False
            if not ok:
                continue
            vec = st.targets[0].id
            new = [ast.copy_location(ast.Assign(targets=[ast.Name(id=vec, ctx=ast.Store())],
                                                value=ast.Call(func=ast.Attribute(value=ast.Name(id="np", ctx=ast.Load()), attr="zeros", ctx=ast.Load()),
                                                               args=[ast.Constant(value=len(names))], keywords=[])), st)]
            for k, nm in enumerate(names):
                new.append(ast.copy_location(ast.If(test=ast.Name(id=nm, ctx=ast.Load()),
                                                    body=[ast.Assign(targets=[ast.Subscript(value=ast.Name(id=vec, ctx=ast.Load()), slice=ast.Constant(value=k), ctx=ast.Store())],
                                                                     value=ast.Constant(value=1))], orelse=[]), st))
            j = block.index(st)
            block[j:j + 1] = new
            n += 1
    visit(fn.body)
    return n


def _pure_display(e: ast.AST, stable) -> bool:
    """A value that may be written out where it is used instead of where the table is built: literals, stable names, and
    displays / dict(...) of such."""
    if isinstance(e, ast.Constant):
        return True
    if isinstance(e, ast.Name):
        return stable(e.id)
    if isinstance(e, ast.UnaryOp) and isinstance(e.op, (ast.USub, ast.UAdd)):
        return _pure_display(e.operand, stable)
    if isinstance(e, (ast.Tuple, ast.List)):
        return all(not isinstance(x, ast.Starred) and _pure_display(x, stable) for x in e.elts)
    if isinstance(e, ast.Dict):
        return all(k is not None and _pure_display(k, stable) and _pure_display(v, stable) for k, v in zip(e.keys, e.values))
    if isinstance(e, ast.Call) and isinstance(e.func, ast.Name) and e.func.id == "dict" and not e.args:
        return all(k.arg is not None and _pure_display(k.value, stable) for k in e.keywords)
    return False


class _SplatLiteralDict(ast.NodeTransformer):
    """f(..., **dict(a=1)) / f(..., **{"a": 1}) is f(..., a=1)."""
    def visit_Call(self, node: ast.Call):
        self.generic_visit(node)
        new = []
        for k in node.keywords:
            v = k.value
            if k.arg is None and isinstance(v, ast.Call) and isinstance(v.func, ast.Name) and v.func.id == "dict" and not v.args \
                    and all(x.arg is not None for x in v.keywords):
                new += [ast.keyword(arg=x.arg, value=x.value) for x in v.keywords]
            elif k.arg is None and isinstance(v, ast.Dict) and all(isinstance(x, ast.Constant) and isinstance(x.value, str) and x.value.isidentifier() for x in v.keys):
                new += [ast.keyword(arg=x.value, value=y) for x, y in zip(v.keys, v.values)]
            else:
                new.append(k)
        node.keywords = new
        return node


def _desugar_literal_table_loops(fn: ast.AST) -> int:
    """`T = ((a, f, opts), (b, g, opts2), ...)` (a local bound once to a display of equally long rows of literals, stable names and
    displays of such) whose only uses are `for x, y, z in T: <body>`: the loop is its body once per row, in order."""
    if not isinstance(fn, (ast.FunctionDef, ast.AsyncFunctionDef)):
        return 0
    n = 0
    stores: Dict[str, int] = {}
    for x in ast.walk(fn):
        if isinstance(x, ast.Name) and isinstance(x.ctx, (ast.Store, ast.Del)):
            stores[x.id] = stores.get(x.id, 0) + 1
    params = {a.arg for a in fn.args.args + fn.args.kwonlyargs + fn.args.posonlyargs}
    local_defs = {x.name for x in ast.walk(fn) if isinstance(x, (ast.FunctionDef, ast.AsyncFunctionDef)) and x is not fn}

    def stable(name: str) -> bool:
        if name in local_defs:
            return False
        return not stores.get(name) if (name in params or name not in stores) else False
    cands = [st for st in ast.walk(fn) if isinstance(st, ast.Assign) and len(st.targets) == 1 and isinstance(st.targets[0], ast.Name)
             and isinstance(st.value, (ast.Tuple, ast.List)) and 2 <= len(st.value.elts) <= 16
             and all(isinstance(r, (ast.Tuple, ast.List)) and r.elts and not any(isinstance(x, ast.Starred) for x in r.elts) for r in st.value.elts)]
    for d in cands:
        name = d.targets[0].id
        rows = d.value.elts
        width = len(rows[0].elts)
        if stores.get(name) != 1 or name in params or any(len(r.elts) != width for r in rows):
            continue
        if not all(_pure_display(x, stable) for r in rows for x in r.elts):
            continue
        loads = [x for x in ast.walk(fn) if isinstance(x, ast.Name) and x.id == name and isinstance(x.ctx, ast.Load)]
        uses = []

        def scan(block):
            for st in block:
                if isinstance(st, ast.For) and not st.orelse and isinstance(st.iter, ast.Name) and st.iter.id == name \
                        and isinstance(st.target, (ast.Tuple, ast.List)) and len(st.target.elts) == width and all(isinstance(e, ast.Name) for e in st.target.elts):
                    uses.append((block, st))
                for fld in ("body", "orelse", "finalbody"):
                    sub = getattr(st, fld, None)
                    if isinstance(sub, list) and sub and isinstance(sub[0], ast.stmt) and not isinstance(st, (ast.FunctionDef, ast.AsyncFunctionDef, ast.ClassDef)):
                        scan(sub)
        scan(fn.body)
        if not uses or len(uses) != len(loads):
            continue
        okay = True
        for block, st in uses:
            tnames = {e.id for e in st.target.elts}
            if any(isinstance(x, (ast.Break, ast.Continue, ast.Return, ast.Yield, ast.YieldFrom, ast.Lambda, ast.FunctionDef)) for b in st.body for x in ast.walk(b)) \
                    or len(st.body) > 6:
                okay = False
            if any(isinstance(x, ast.Name) and x.id in tnames and isinstance(x.ctx, (ast.Store, ast.Del)) for b in st.body for x in ast.walk(b)):
                okay = False
            # the loop variables must be dead after the loop
            for tn in tnames:
                inside = {id(x) for b in st.body for x in ast.walk(b)} | {id(x) for x in ast.walk(st.target)}
                if any(isinstance(x, ast.Name) and x.id == tn and id(x) not in inside for x in ast.walk(fn)):
                    okay = False
            # names the rows mention must not be rebound by the loop body
            mentioned = {x.id for r in rows for x in ast.walk(r) if isinstance(x, ast.Name)}
            if any(isinstance(x, ast.Name) and x.id in mentioned and isinstance(x.ctx, (ast.Store, ast.Del)) for b in st.body for x in ast.walk(b)):
                okay = False
        if not okay:
            continue
        for block, st in uses:
            new = []
            for r in rows:
                m = {t.id: e for t, e in zip(st.target.elts, r.elts)}
                for b in st.body:
                    nb = _SubstNames(m).visit(copy.deepcopy(b))
                    nb = _SplatLiteralDict().visit(nb)
                    new.append(nb)
            j = block.index(st)
            block[j:j + 1] = new
        n += 1
    if n:
        _FoldTests().visit(fn)
    return n


def expand_table_spreads(trees: Dict[str, ast.Module]) -> int:
    """Module-level lookup tables written with `**other_table` / `**dict.fromkeys(other_table_or_list, value)` are written out
    entry by entry (same keys, same order) when the other table is a module-level display with literal keys."""
    n = 0
    for tree in trees.values():
        tables: Dict[str, ast.AST] = {}
        for st in tree.body:
            if not (isinstance(st, ast.Assign) and len(st.targets) == 1 and isinstance(st.targets[0], ast.Name)):
                continue
            v = st.value
            if isinstance(v, ast.Dict) and any(k is None for k in v.keys):
                keys, vals, ok = [], [], True
                for k, x in zip(v.keys, v.values):
                    if k is not None:
                        keys.append(k)
                        vals.append(x)
                        continue
                    src = None
                    each = None
                    if isinstance(x, ast.Name) and isinstance(tables.get(x.id), ast.Dict):
                        src = tables[x.id]
                        keys += [copy.deepcopy(kk) for kk in src.keys]
                        vals += [copy.deepcopy(vv) for vv in src.values]
                        continue
                    if isinstance(x, ast.Call) and isinstance(x.func, ast.Attribute) and x.func.attr == "fromkeys" and isinstance(x.func.value, ast.Name) \
                            and x.func.value.id == "dict" and len(x.args) == 2 and not x.keywords and isinstance(x.args[0], ast.Name) and x.args[0].id in tables \
                            and isinstance(x.args[1], (ast.Name, ast.Attribute, ast.Constant)):
                        src, each = tables[x.args[0].id], x.args[1]
                        ks = src.keys if isinstance(src, ast.Dict) else src.elts
                        keys += [copy.deepcopy(kk) for kk in ks]
                        vals += [copy.deepcopy(each) for _ in ks]
                        continue
                    if isinstance(x, ast.DictComp) and len(x.generators) == 1 and not x.generators[0].ifs and isinstance(x.generators[0].target, ast.Name) \
                            and isinstance(x.key, ast.Name) and x.key.id == x.generators[0].target.id and isinstance(x.generators[0].iter, ast.Name) \
                            and x.generators[0].iter.id in tables and isinstance(x.value, (ast.Name, ast.Attribute, ast.Constant)) \
                            and not (isinstance(x.value, ast.Name) and x.value.id == x.key.id):
                        # **{k: value for k in other_table}
                        src = tables[x.generators[0].iter.id]
                        ks = src.keys if isinstance(src, ast.Dict) else src.elts
                        keys += [copy.deepcopy(kk) for kk in ks]
                        vals += [copy.deepcopy(x.value) for _ in ks]
                        continue
                    ok = False
                    break
                lits = [kk.value for kk in keys if isinstance(kk, ast.Constant)]
                if ok and len(lits) == len(keys) and len(set(lits)) == len(lits):
                    st.value = ast.copy_location(ast.Dict(keys=keys, values=vals), v)
                    ast.fix_missing_locations(st)
                    n += 1
                    v = st.value
            if isinstance(v, ast.Dict) and v.keys and all(isinstance(k, ast.Constant) for k in v.keys):
                tables[st.targets[0].id] = v
            elif isinstance(v, (ast.List, ast.Tuple)) and v.elts and all(isinstance(e, ast.Constant) for e in v.elts):
                tables[st.targets[0].id] = v
    return n


def _is_pure_test(e: ast.AST) -> bool:
    if isinstance(e, ast.Compare):
        return True
    if isinstance(e, ast.BoolOp):
        return all(_is_pure_test(v) for v in e.values)
    if isinstance(e, ast.UnaryOp) and isinstance(e.op, ast.Not):
        return _is_pure_test(e.operand)
    if isinstance(e, ast.Call) and isinstance(e.func, ast.Name) and e.func.id == "bool" and len(e.args) == 1 and not e.keywords:
        return _is_pure_test(e.args[0])
    return False


def _desugar_bool_stores(fn: ast.AST) -> int:
    """`ok = bool(lo < x < hi); A[i] = ok; B[i] = ok` (ok used nowhere else) - or the same test written out in consecutive element
    stores - is `if lo < x < hi: A[i] = True; B[i] = True else: A[i] = False; B[i] = False`."""
    n = 0
    uses: Dict[str, int] = {}
    for x in ast.walk(fn):
        if isinstance(x, ast.Name):
            uses[x.id] = uses.get(x.id, 0) + 1

    def strip_bool(e):
        while isinstance(e, ast.Call) and isinstance(e.func, ast.Name) and e.func.id == "bool" and len(e.args) == 1 and not e.keywords:
            e = e.args[0]
        return e

    def elem_store(st, name=None, text=None):
        if not (isinstance(st, ast.Assign) and len(st.targets) == 1 and isinstance(st.targets[0], ast.Subscript)):
            return False
        if name is not None:
            return isinstance(st.value, ast.Name) and st.value.id == name
        return _is_pure_test(st.value) and ast.unparse(strip_bool(st.value)) == text
    for node in ast.walk(fn):
        for fld in ("body", "orelse", "finalbody"):
            block = getattr(node, fld, None)
            if not (isinstance(block, list) and block and isinstance(block[0], ast.stmt)):
                continue
            i = 0
            while i < len(block):
                st = block[i]
                test = None
                j = i
                if isinstance(st, ast.Assign) and len(st.targets) == 1 and isinstance(st.targets[0], ast.Name) and _is_pure_test(st.value):
                    x = st.targets[0].id
                    j = i + 1
                    while j < len(block) and elem_store(block[j], name=x):
                        j += 1
                    k = j - (i + 1)
                    if k >= 1 and uses.get(x, 0) == k + 1:
                        test, stores, first = strip_bool(st.value), block[i + 1:j], i
                elif elem_store(st, text=ast.unparse(strip_bool(st.value))) if isinstance(st, ast.Assign) and len(st.targets) == 1 and _is_pure_test(getattr(st, "value", None)) else False:
                    text = ast.unparse(strip_bool(st.value))
                    j = i
                    while j < len(block) and elem_store(block[j], text=text):
                        j += 1
                    if j - i >= 1:
                        test, stores, first = strip_bool(st.value), block[i:j], i
                if test is None:
                    i += 1
                    continue
                mk = lambda val: [ast.copy_location(ast.Assign(targets=[copy.deepcopy(s_.targets[0])], value=ast.Constant(value=val)), s_) for s_ in stores]     # noqa: E731
                new = ast.copy_location(ast.If(test=copy.deepcopy(test), body=mk(True), orelse=mk(False)), st)
                ast.fix_missing_locations(new)
                block[first:j] = [new]
                n += 1
                i = first + 1
    return n


def desugar_match(trees: Dict[str, ast.Module]) -> int:
    n = 0
    for tree in trees.values():
        for fn in [x for x in ast.walk(tree) if isinstance(x, (ast.FunctionDef, ast.AsyncFunctionDef))]:
            if any(isinstance(c, ast.Call) and isinstance(c.func, ast.Attribute) and c.func.attr in ("array", "asarray") and any(k.arg == "dtype" for k in c.keywords)
                   for c in ast.walk(fn)) and _desugar_bool_vector(fn):
                ast.fix_missing_locations(tree)
        if any(isinstance(x, (ast.Attribute, ast.Name)) and getattr(x, "attr", getattr(x, "id", "")) == "partial" for x in ast.walk(tree)):
            for fn in [x for x in ast.walk(tree) if isinstance(x, (ast.FunctionDef, ast.AsyncFunctionDef))]:
                if _desugar_partial(fn):
                    ast.fix_missing_locations(tree)
        if any(isinstance(x, ast.Dict) for x in ast.walk(tree)):
            for fn in [x for x in ast.walk(tree) if isinstance(x, (ast.FunctionDef, ast.AsyncFunctionDef))]:
                if any(isinstance(x, ast.Dict) and x.keys for x in ast.walk(fn)) and _desugar_literal_dict_loops(fn):
                    ast.fix_missing_locations(tree)
        for fn in [x for x in ast.walk(tree) if isinstance(x, (ast.FunctionDef, ast.AsyncFunctionDef))]:
            if _desugar_literal_table_loops(fn):
                ast.fix_missing_locations(tree)
            if _desugar_bool_stores(fn):
                ast.fix_missing_locations(tree)
        tables = {st.targets[0].id: st.value for st in tree.body if isinstance(st, ast.Assign) and len(st.targets) == 1 and isinstance(st.targets[0], ast.Name)
                  and isinstance(st.value, ast.Dict) and st.value.keys and all(k is not None and _bool_key(k) is not None for k in st.value.keys)}
        if tables or any(isinstance(x, ast.Dict) and x.keys and all(k is not None and _bool_key(k) is not None for k in x.keys) for x in ast.walk(tree)):
            for fn in [x for x in ast.walk(tree) if isinstance(x, (ast.FunctionDef, ast.AsyncFunctionDef))]:
                if _desugar_truth_tables(fn, tables):
                    ast.fix_missing_locations(tree)
        if any(isinstance(x, ast.Attribute) and x.attr == "count" and isinstance(x.value, ast.Name) and x.value.id == "itertools" for x in ast.walk(tree)):
            for fn in [x for x in ast.walk(tree) if isinstance(x, (ast.FunctionDef, ast.AsyncFunctionDef))]:
                if _desugar_count_iterators(fn):
                    ast.fix_missing_locations(tree)
        if any(isinstance(x, ast.Call) and isinstance(x.func, ast.Name) and x.func.id == "map" for x in ast.walk(tree)):
            _MapOverDisplay().visit(tree)
        if any(isinstance(x, (ast.Name, ast.Attribute)) and getattr(x, "id", getattr(x, "attr", "")) in ("chain", "compress") for x in ast.walk(tree)):
            _ItertoolsForms().visit(tree)
            ast.fix_missing_locations(tree)
        if any(isinstance(x, ast.Match) for x in ast.walk(tree)):
            _MatchDesugar().visit(tree)
            ast.fix_missing_locations(tree)
            n += 1
    return n


# ----------------------------------------------------------------------------- NamedTuple records
def desugar_namedtuples(trees: Dict[str, ast.Module], baseline: Optional[Set[str]] = None) -> List[str]:
    """A *new* record type that only names the positions of a tuple (`class _X(NamedTuple): a: T; b: T`, no methods) is that tuple:
    `_X(p, q)` / `_X(b=q, a=p)` is `(p, q)`; for a local bound once to such a constructor call (after the helpers that return one
    have been inlined) `v.a` is `v[0]`.  Field reads on values whose construction is not visible in the function are left alone."""
    baseline = load_baseline() if baseline is None else baseline
    if not baseline:
        return []
    records: Dict[str, Tuple[List[str], Dict[str, ast.AST]]] = {}
    for mname, tree in trees.items():
        for st in tree.body:
            if not isinstance(st, ast.ClassDef) or f"const:{mname}.{st.name}" in baseline:
                continue
            if any(b for b in baseline if b.startswith(f"{mname}.{st.name}.")):
                continue            # a class of the pinned tree
            if not any((isinstance(b, ast.Name) and b.id == "NamedTuple") or (isinstance(b, ast.Attribute) and b.attr == "NamedTuple") for b in st.bases):
                continue
            fields, defaults, plain = [], {}, True
            for x in st.body:
                if isinstance(x, ast.AnnAssign) and isinstance(x.target, ast.Name):
                    fields.append(x.target.id)
                    if x.value is not None:
                        defaults[x.target.id] = x.value
                elif isinstance(x, ast.Expr) and isinstance(x.value, ast.Constant):
                    continue
                else:
                    plain = False
            if plain and fields:
                records[st.name] = (fields, defaults)
    if not records:
        return []

    def as_tuple(call: ast.Call) -> Optional[ast.Tuple]:
        name = call.func.id if isinstance(call.func, ast.Name) else None
        if name not in records or any(isinstance(a, ast.Starred) for a in call.args) or any(k.arg is None for k in call.keywords):
            return None
        fields, defaults = records[name]
        vals: Dict[str, ast.AST] = {}
        for f_, a in zip(fields, call.args):
            vals[f_] = a
        for k in call.keywords:
            if k.arg not in fields or k.arg in vals:
                return None
            vals[k.arg] = k.value
        for f_ in fields:
            if f_ not in vals:
                if f_ in defaults:
                    vals[f_] = copy.deepcopy(defaults[f_])
                else:
                    return None
        return ast.copy_location(ast.Tuple(elts=[vals[f_] for f_ in fields], ctx=ast.Load()), call)

    # functions every return of which builds one record type: their results are records of that type wherever they are called
    returns_record: Dict[str, Optional[str]] = {}
    for tree in trees.values():
        for fn in [x for x in ast.walk(tree) if isinstance(x, (ast.FunctionDef, ast.AsyncFunctionDef))]:
            rets = [r for r in ast.walk(fn) if isinstance(r, ast.Return)]
            kinds = {r.value.func.id if (r.value is not None and isinstance(r.value, ast.Call) and isinstance(r.value.func, ast.Name) and r.value.func.id in records) else None
                     for r in rets}
            if rets and len(kinds) == 1 and None not in kinds:
                returns_record[fn.name] = None if fn.name in returns_record else next(iter(kinds))
    returns_record = {k: v for k, v in returns_record.items() if v is not None}
    for tree in trees.values():
        for fn in [x for x in ast.walk(tree) if isinstance(x, (ast.FunctionDef, ast.AsyncFunctionDef))]:
            # locals bound exactly once, to a record constructor
            typed: Dict[str, str] = {}
            stores: Dict[str, int] = {}
            for x in ast.walk(fn):
                if isinstance(x, ast.Name) and isinstance(x.ctx, (ast.Store, ast.Del)):
                    stores[x.id] = stores.get(x.id, 0) + 1
            for st in ast.walk(fn):
                if isinstance(st, ast.Assign) and len(st.targets) == 1 and isinstance(st.targets[0], ast.Name) and isinstance(st.value, ast.Call) \
                        and isinstance(st.value.func, ast.Name) and st.value.func.id in records and stores.get(st.targets[0].id) == 1 \
                        and st.targets[0].id not in {a.arg for a in fn.args.args + fn.args.kwonlyargs}:
                    typed[st.targets[0].id] = st.value.func.id
                elif isinstance(st, ast.Assign) and len(st.targets) == 1 and isinstance(st.targets[0], ast.Name) and isinstance(st.value, ast.Call) \
                        and stores.get(st.targets[0].id) == 1 and st.targets[0].id not in {a.arg for a in fn.args.args + fn.args.kwonlyargs}:
                    cn_ = st.value.func.id if isinstance(st.value.func, ast.Name) else st.value.func.attr if isinstance(st.value.func, ast.Attribute) else None
                    if cn_ in returns_record:
                        typed[st.targets[0].id] = returns_record[cn_]       # the result of a function that always returns this record type
            grew = True
            while grew:
                grew = False
                for st in ast.walk(fn):
                    # v2 = v._replace(field=...): a record of the same type
                    if isinstance(st, ast.Assign) and len(st.targets) == 1 and isinstance(st.targets[0], ast.Name) and isinstance(st.value, ast.Call) \
                            and isinstance(st.value.func, ast.Attribute) and st.value.func.attr == "_replace" and isinstance(st.value.func.value, ast.Name) \
                            and st.value.func.value.id in typed and stores.get(st.targets[0].id) == 1 and st.targets[0].id not in typed \
                            and st.targets[0].id not in {a.arg for a in fn.args.args + fn.args.kwonlyargs}:
                        typed[st.targets[0].id] = typed[st.value.func.value.id]
                        grew = True
                # a local bound several times, every time to a record of one type (constructor, `_replace` of one, another such local)
                params_ = {a.arg for a in fn.args.args + fn.args.kwonlyargs + fn.args.posonlyargs}
                by_name: Dict[str, List[Optional[str]]] = {}
                for st in ast.walk(fn):
                    if isinstance(st, ast.Assign) and len(st.targets) == 1 and isinstance(st.targets[0], ast.Name):
                        v_ = st.value
                        kind_ = None
                        if isinstance(v_, ast.Call) and isinstance(v_.func, ast.Name) and v_.func.id in records:
                            kind_ = v_.func.id
                        elif isinstance(v_, ast.Call) and isinstance(v_.func, ast.Attribute) and v_.func.attr == "_replace" and isinstance(v_.func.value, ast.Name) \
                                and v_.func.value.id in typed:
                            kind_ = typed[v_.func.value.id]
                        elif isinstance(v_, ast.Name) and v_.id in typed:
                            kind_ = typed[v_.id]
                        by_name.setdefault(st.targets[0].id, []).append(kind_)
                for nm_, kinds_ in by_name.items():
                    if nm_ not in typed and nm_ not in params_ and len(kinds_) == stores.get(nm_) and None not in kinds_ and len(set(kinds_)) == 1:
                        typed[nm_] = kinds_[0]
                        grew = True

            class Fix(ast.NodeTransformer):
                def visit_Attribute(self, node):
                    self.generic_visit(node)
                    if isinstance(node.ctx, ast.Load):
                        rec = None
                        if isinstance(node.value, ast.Name) and node.value.id in typed:
                            rec = typed[node.value.id]
                        elif isinstance(node.value, ast.Tuple) and getattr(node.value, "_record", None):
                            rec = node.value._record
                        if rec is not None and node.attr in records[rec][0]:
                            return ast.copy_location(ast.Subscript(value=node.value, slice=ast.Constant(value=records[rec][0].index(node.attr)), ctx=ast.Load()), node)
                    return node

                def visit_Call(self, node):
                    self.generic_visit(node)
                    if isinstance(node.func, ast.Name) and node.func.id in records:
                        t = as_tuple(node)
                        if t is not None:
                            t._record = node.func.id
                            return t
                    if isinstance(node.func, ast.Attribute) and node.func.attr == "_replace" and isinstance(node.func.value, ast.Name) \
                            and node.func.value.id in typed and not node.args and all(k.arg is not None for k in node.keywords):
                        flds = records[typed[node.func.value.id]][0]
                        new = {k.arg: k.value for k in node.keywords}
                        if set(new) <= set(flds):
                            t = ast.Tuple(elts=[new[f_] if f_ in new else ast.Subscript(value=ast.Name(id=node.func.value.id, ctx=ast.Load()),
                                                                                       slice=ast.Constant(value=i), ctx=ast.Load())
                                                for i, f_ in enumerate(flds)], ctx=ast.Load())
                            t._record = typed[node.func.value.id]
                            return ast.copy_location(t, node)
                    return node
            Fix().visit(fn)
            _propagate_record_elements(fn)
        ast.fix_missing_locations(tree)
    return sorted(records)


def _propagate_record_elements(fn: ast.AST) -> int:
    """`v = (a, e2, c)` built from a record constructor, v bound once: `v[i]` with a literal index is the i-th element.  An element
    that is not a name bound once is first given a name of its own where the record is built (evaluated once, there, as before)."""
    n = 0
    stores: Dict[str, int] = {}
    for x in ast.walk(fn):
        if isinstance(x, ast.Name) and isinstance(x.ctx, (ast.Store, ast.Del)):
            stores[x.id] = stores.get(x.id, 0) + 1
    params = {a.arg for a in fn.args.args + fn.args.kwonlyargs + fn.args.posonlyargs}

    def blocks(node):
        for fld in ("body", "orelse", "finalbody"):
            sub = getattr(node, fld, None)
            if isinstance(sub, list) and sub and isinstance(sub[0], ast.stmt):
                yield sub
                for st in sub:
                    if not isinstance(st, (ast.FunctionDef, ast.AsyncFunctionDef, ast.ClassDef)):
                        yield from blocks(st)
    for block in list(blocks(fn)):
        i = 0
        while i < len(block):
            st = block[i]
            i += 1
            if not (isinstance(st, ast.Assign) and len(st.targets) == 1 and isinstance(st.targets[0], ast.Name) and isinstance(st.value, ast.Tuple)
                    and getattr(st.value, "_record", None) and stores.get(st.targets[0].id) == 1 and st.targets[0].id not in params):
                continue
            v = st.targets[0].id
            # every use of v must be v[<literal index>] or v[:k] handled elsewhere; only literal indices are rewritten
            pre = []
            for k, e in enumerate(st.value.elts):
                stable = isinstance(e, ast.Constant) or (isinstance(e, ast.Name) and ((e.id in params and not stores.get(e.id)) or (e.id not in params and stores.get(e.id) == 1)))
                if not stable:
                    tmp = f"_{v}__{k}"
                    pre.append(ast.copy_location(ast.Assign(targets=[ast.Name(id=tmp, ctx=ast.Store())], value=e), st))
                    stores[tmp] = 1
                    st.value.elts[k] = ast.copy_location(ast.Name(id=tmp, ctx=ast.Load()), e)
            if pre:
                j = block.index(st)
                block[j:j] = pre
                i += len(pre)
            elts = list(st.value.elts)

            class Sub(ast.NodeTransformer):
                def visit_Subscript(self, node):
                    self.generic_visit(node)
                    if isinstance(node.ctx, ast.Load) and isinstance(node.value, ast.Name) and node.value.id == v and isinstance(node.slice, ast.Constant) \
                            and isinstance(node.slice.value, int) and not isinstance(node.slice.value, bool) and -len(elts) <= node.slice.value < len(elts):
                        return ast.copy_location(copy.deepcopy(elts[node.slice.value]), node)
                    return node
            for b in ast.walk(fn):
                for fld in ("body", "orelse", "finalbody"):
                    sub = getattr(b, fld, None)
                    if isinstance(sub, list) and sub and isinstance(sub[0], ast.stmt):
                        for k2, s2 in enumerate(sub):
                            if s2 is not st and not isinstance(s2, (ast.FunctionDef, ast.AsyncFunctionDef, ast.ClassDef, ast.If, ast.For, ast.While, ast.With, ast.Try)):
                                sub[k2] = Sub().visit(s2)
                            elif isinstance(s2, (ast.If, ast.While)):
                                s2.test = Sub().visit(s2.test)
                            elif isinstance(s2, ast.For):
                                s2.iter = Sub().visit(s2.iter)
            n += 1
    return n


def _desugar_methodcaller(fn: ast.AST) -> int:
    """`m = operator.methodcaller("name", *a, **k)` bound once and only ever called as `m(obj)` is `obj.name(*a, **k)`."""
    n = 0
    defs = [st for st in ast.walk(fn) if isinstance(st, ast.Assign) and len(st.targets) == 1 and isinstance(st.targets[0], ast.Name)
            and isinstance(st.value, ast.Call) and st.value.args and isinstance(st.value.args[0], ast.Constant) and isinstance(st.value.args[0].value, str)
            and st.value.args[0].value.isidentifier()
            and ((isinstance(st.value.func, ast.Name) and st.value.func.id == "methodcaller")
                 or (isinstance(st.value.func, ast.Attribute) and st.value.func.attr == "methodcaller"))]
    for d in defs:
        name = d.targets[0].id
        stores = [x for x in ast.walk(fn) if isinstance(x, ast.Name) and x.id == name and isinstance(x.ctx, (ast.Store, ast.Del))]
        loads = [x for x in ast.walk(fn) if isinstance(x, ast.Name) and x.id == name and isinstance(x.ctx, ast.Load)]
        calls = [c for c in ast.walk(fn) if isinstance(c, ast.Call) and isinstance(c.func, ast.Name) and c.func.id == name and len(c.args) == 1 and not c.keywords]
        if len(stores) != 1 or not loads or len(calls) != len(loads):
            continue
        if not all(_simple(a) for a in d.value.args[1:]) or not all(_simple(k.value) for k in d.value.keywords):
            continue
        meth = d.value.args[0].value
        for c in calls:
            obj = c.args[0]
            c.func = ast.copy_location(ast.Attribute(value=obj, attr=meth, ctx=ast.Load()), c.func)
            c.args = [copy.deepcopy(a) for a in d.value.args[1:]]
            c.keywords = [ast.keyword(arg=k.arg, value=copy.deepcopy(k.value)) for k in d.value.keywords]
        d.value = ast.copy_location(ast.Constant(value=None), d.value)
        n += 1
    return n


def _attr_chain_root(e: ast.AST) -> Optional[str]:
    n = 0
    while isinstance(e, ast.Attribute):
        e = e.value
        n += 1
    return e.id if (n and isinstance(e, ast.Name)) else None


def _propagate_attr_aliases(fn: ast.AST) -> int:
    """`x = self.a` (x bound once; `a` stored nowhere in the function; no method of `self` called and `self` not passed on
    between the binding and the last use, all in one block): every use of x is a use of `self.a`."""
    if not isinstance(fn, (ast.FunctionDef, ast.AsyncFunctionDef)):
        return 0
    n = 0
    params = {a.arg for a in fn.args.args + fn.args.kwonlyargs + fn.args.posonlyargs}
    stored_attrs = {x.attr for x in ast.walk(fn) if isinstance(x, ast.Attribute) and isinstance(x.ctx, (ast.Store, ast.Del))}
    stored_attrs |= {st.target.attr for st in ast.walk(fn) if isinstance(st, ast.AugAssign) and isinstance(st.target, ast.Attribute)}
    store_count: Dict[str, int] = {}
    for x in ast.walk(fn):
        if isinstance(x, ast.Name) and isinstance(x.ctx, (ast.Store, ast.Del)):
            store_count[x.id] = store_count.get(x.id, 0) + 1
    scoped = {nm for x in ast.walk(fn) if isinstance(x, (ast.Global, ast.Nonlocal)) for nm in x.names}

    def blocks(node):
        for fld in ("body", "orelse", "finalbody"):
            sub = getattr(node, fld, None)
            if isinstance(sub, list) and sub and isinstance(sub[0], ast.stmt):
                yield sub
                for st in sub:
                    if not isinstance(st, (ast.FunctionDef, ast.AsyncFunctionDef, ast.ClassDef)):
                        yield from blocks(st)
        for h in getattr(node, "handlers", []) or []:
            yield from blocks(h)
    changed = True
    while changed:
        changed = False
        for block in list(blocks(fn)):
            for i, st in enumerate(block):
                if not (isinstance(st, ast.Assign) and len(st.targets) == 1 and isinstance(st.targets[0], ast.Name)):
                    continue
                x = st.targets[0].id
                root = _attr_chain_root(st.value)
                if root is None or x in params or x in scoped or store_count.get(x) != 1 or root == x:
                    continue
                if root != "self" or root not in params or store_count.get(root):
                    continue
                chain_attrs = {a.attr for a in ast.walk(st.value) if isinstance(a, ast.Attribute)}
                if chain_attrs & stored_attrs:
                    continue
                total = [y for y in ast.walk(fn) if isinstance(y, ast.Name) and y.id == x and isinstance(y.ctx, ast.Load)]
                after = [(j, y) for j, s2 in enumerate(block[i + 1:], i + 1) for y in ast.walk(s2) if isinstance(y, ast.Name) and y.id == x and isinstance(y.ctx, ast.Load)]
                if not total or len(total) != len(after):
                    continue
                if any(isinstance(y, (ast.Lambda, ast.FunctionDef)) and any(isinstance(z, ast.Name) and z.id == x for z in ast.walk(y)) for s2 in block[i + 1:] for y in ast.walk(s2)):
                    continue
                last = max(j for j, _ in after)
                risky = False
                for s2 in block[i + 1:last + 1]:
                    for c in ast.walk(s2):
                        if isinstance(c, ast.Call):
                            if isinstance(c.func, ast.Attribute) and _attr_chain_root(c.func) == root:
                                risky = True
                            if any(isinstance(a, ast.Name) and a.id == root for a in list(c.args) + [k.value for k in c.keywords]):
                                risky = True
                        if isinstance(c, (ast.Yield, ast.YieldFrom, ast.Await)):
                            risky = True
                if risky:
                    continue
                m = {x: st.value}
                for j in range(i + 1, last + 1):
                    block[j] = _SubstNames(m).visit(block[j])
                del block[i]
                n += 1
                changed = True
                break
            if changed:
                break
    return n


def _return_temporaries(fn: ast.AST) -> int:
    """`x = <expr>; return x` (x bound once and read only by that return) is `return <expr>`."""
    if not isinstance(fn, (ast.FunctionDef, ast.AsyncFunctionDef)):
        return 0
    n = 0
    stores: Dict[str, int] = {}
    loads: Dict[str, int] = {}
    for x in ast.walk(fn):
        if isinstance(x, ast.Name):
            d = stores if isinstance(x.ctx, (ast.Store, ast.Del)) else loads
            d[x.id] = d.get(x.id, 0) + 1
    params = {a.arg for a in fn.args.args + fn.args.kwonlyargs + fn.args.posonlyargs}
    pairs = []
    for node in ast.walk(fn):
        for fld in ("body", "orelse", "finalbody"):
            block = getattr(node, fld, None)
            if not (isinstance(block, list) and len(block) >= 2 and isinstance(block[0], ast.stmt)):
                continue
            a, r = block[-2], block[-1]
            if isinstance(r, ast.Return) and isinstance(r.value, ast.Name) and isinstance(a, ast.Assign) and len(a.targets) == 1 \
                    and isinstance(a.targets[0], ast.Name) and a.targets[0].id == r.value.id and r.value.id not in params:
                pairs.append((block, a, r))
    by_name: Dict[str, int] = {}
    for _b, _a, r in pairs:
        by_name[r.value.id] = by_name.get(r.value.id, 0) + 1
    for block, a, r in pairs:
        nm = r.value.id
        # every binding of the name is one of these pairs and every read is the return that follows it
        if stores.get(nm) == by_name[nm] and loads.get(nm) == by_name[nm]:
            block[-2:] = [ast.copy_location(ast.Return(value=a.value), a)]
            n += 1
    return n


_CMP = {ast.Eq: lambda a, b: a == b, ast.NotEq: lambda a, b: a != b, ast.Lt: lambda a, b: a < b, ast.LtE: lambda a, b: a <= b,
        ast.Gt: lambda a, b: a > b, ast.GtE: lambda a, b: a >= b}


def _const_truth(e: ast.AST) -> Optional[bool]:
    """Truth of a test made of literals only (what is left of `if kind == "a":` once a helper was spelled out for kind="a")."""
    if isinstance(e, ast.Constant) and (e.value is None or isinstance(e.value, (bool, int, float, str))):
        return bool(e.value)
    if isinstance(e, ast.UnaryOp) and isinstance(e.op, ast.Not):
        t = _const_truth(e.operand)
        return None if t is None else not t
    if isinstance(e, ast.BoolOp):
        ts = [_const_truth(v) for v in e.values]
        if isinstance(e.op, ast.And):
            return False if any(t is False for t in ts) else (True if all(t is True for t in ts) else None)
        return True if any(t is True for t in ts) else (False if all(t is False for t in ts) else None)
    if isinstance(e, ast.Compare) and len(e.ops) == 1 and isinstance(e.left, ast.Constant):
        op, r, a = e.ops[0], e.comparators[0], e.left.value
        if isinstance(r, ast.Constant):
            b = r.value
            if isinstance(op, (ast.Is, ast.IsNot)):
                if a is None or b is None or isinstance(a, bool) or isinstance(b, bool):
                    same = (a is b) if (a is None or b is None or (isinstance(a, bool) and isinstance(b, bool))) else False
                    return same if isinstance(op, ast.Is) else not same
                return None
            f = _CMP.get(type(op))
            if f is None:
                return None
            if isinstance(op, (ast.Eq, ast.NotEq)) or (isinstance(a, (int, float)) and isinstance(b, (int, float)) and not isinstance(a, bool) and not isinstance(b, bool)) \
                    or (isinstance(a, str) and isinstance(b, str)):
                return bool(f(a, b))
            return None
        if isinstance(op, (ast.In, ast.NotIn)) and isinstance(r, (ast.Tuple, ast.List, ast.Set)) and all(isinstance(x, ast.Constant) for x in r.elts):
            inside = any(type(x.value) is type(a) and x.value == a for x in r.elts) or any(x.value == a for x in r.elts)
            return inside if isinstance(op, ast.In) else not inside
    return None


class _FoldTests(ast.NodeTransformer):
    def __init__(self):
        self.n = 0

    def visit_If(self, node: ast.If):
        self.generic_visit(node)
        t = _const_truth(node.test)
        if t is None:
            return node
        self.n += 1
        keep = node.body if t else node.orelse
        return keep or [ast.copy_location(ast.Pass(), node)]

    def visit_IfExp(self, node: ast.IfExp):
        self.generic_visit(node)
        t = _const_truth(node.test)
        if t is None:
            return node
        self.n += 1
        return node.body if t else node.orelse


def fold_constant_tests(fn: ast.AST) -> int:
    """Branches whose test is made of literals only are decided where they stand (dead arms dropped)."""
    f = _FoldTests()
    f.visit(fn)
    return f.n


def desugar_after_inlining(trees: Dict[str, ast.Module]) -> int:
    """Rewrites that become possible once helper calls have been spelled out (literal method / attribute names)."""
    n = 0
    for tree in trees.values():
        fns = [x for x in ast.walk(tree) if isinstance(x, (ast.FunctionDef, ast.AsyncFunctionDef))]
        for fn in fns:
            n += _desugar_literal_dict_loops(fn)
        ft = _FoldTests()
        ft.visit(tree)
        n += ft.n
        for fn in fns:
            n += _propagate_attr_aliases(fn)
        for fn in fns:
            n += _return_temporaries(fn)
        for fn in fns:
            n += _fuse_comprehension_loops(fn)
        src_has = any(isinstance(x, (ast.Name, ast.Attribute)) and getattr(x, "id", getattr(x, "attr", "")) in ("methodcaller", "getattr") for x in ast.walk(tree))
        if not src_has:
            continue
        for fn in fns:
            n += _desugar_methodcaller(fn)
        _GetattrLiteral().visit(tree)
        ast.fix_missing_locations(tree)
    return n


# --------------------------------------------------------------------------------------------------------------- copies
def _stmt_preorder(stmts: List[ast.stmt], out: List[ast.stmt], loops: Dict[int, bool], in_loop: bool = False):
    for st in stmts:
        out.append(st)
        loops[id(st)] = in_loop
        if isinstance(st, (ast.FunctionDef, ast.AsyncFunctionDef, ast.ClassDef)):
            continue
        inner = in_loop or isinstance(st, (ast.For, ast.While, ast.AsyncFor))
        guarded = inner or isinstance(st, ast.Try)
        for fld in ("body", "orelse", "finalbody"):
            sub = getattr(st, fld, None)
            if isinstance(sub, list) and sub and isinstance(sub[0], ast.stmt):
                _stmt_preorder(sub, out, loops, guarded)
        for h in getattr(st, "handlers", []) or []:
            _stmt_preorder(h.body, out, loops, guarded)
        for c in getattr(st, "cases", []) or []:
            _stmt_preorder(c.body, out, loops, guarded)


def _owner_index(fn: ast.AST):
    """Name node -> preorder index of the innermost statement holding it; plus the statement list and the loop/try flags."""
    order: List[ast.stmt] = []
    loops: Dict[int, bool] = {}
    _stmt_preorder(fn.body, order, loops)
    pos = {id(s): i for i, s in enumerate(order)}
    names: List[Tuple[ast.Name, int]] = []

    def visit(node, cur):
        if isinstance(node, ast.stmt) and id(node) in pos:
            cur = pos[id(node)]
        if isinstance(node, ast.Name):
            names.append((node, cur))
        for ch in ast.iter_child_nodes(node):
            visit(ch, cur)
    for st in fn.body:
        visit(st, -1)
    return order, loops, names


def _blocks_of(fn: ast.AST):
    for node in ast.walk(fn):
        for fld in ("body", "orelse", "finalbody"):
            sub = getattr(node, fld, None)
            if isinstance(sub, list) and sub and isinstance(sub[0], ast.stmt):
                yield sub


def _copy_once(fn: ast.AST, pinned: Set[str]) -> bool:
    order, guarded, names = _owner_index(fn)
    pos = {id(s): i for i, s in enumerate(order)}
    stores: Dict[str, List[int]] = {}
    for n, i in names:
        if isinstance(n.ctx, (ast.Store, ast.Del)):
            stores.setdefault(n.id, []).append(i)
    args = {a.arg for x in ast.walk(fn) if isinstance(x, ast.arguments) for a in x.args + x.kwonlyargs + x.posonlyargs + ([x.vararg] if x.vararg else []) + ([x.kwarg] if x.kwarg else [])}
    scoped = {nm for x in ast.walk(fn) if isinstance(x, (ast.Global, ast.Nonlocal)) for nm in x.names}
    for block in _blocks_of(fn):
        for bi, st in enumerate(block):
            if not (isinstance(st, ast.Assign) and len(st.targets) == 1 and isinstance(st.targets[0], ast.Name) and isinstance(st.value, ast.Name)):
                continue
            x, y = st.targets[0].id, st.value.id
            if x == y or x in scoped or y in scoped or id(st) not in pos:
                continue
            i1 = pos[id(st)]
            # (1) x is bound once, never read before, y is not bound afterwards: x is y (also inside a loop body or a try block: every
            #     pass binds y before it reaches this statement)
            if x not in pinned and x not in args and stores.get(x) == [i1] and not any(i > i1 for i in stores.get(y, [])) \
                    and not any(n.id == x and i < i1 for n, i in names):
                for n, _i in names:
                    if n.id == x and isinstance(n.ctx, ast.Load):
                        n.id = y
                block.pop(bi)
                return True
            if guarded.get(id(st), True):
                continue
            # (4) a new local y that ends its life being handed to x, with x unknown before: y was x all along
            if y not in pinned and y not in args and x not in args and stores.get(y) and all(i < i1 for i in stores[y]) \
                    and not any(n.id == y and i > i1 for n, i in names) \
                    and not any(n.id == x and i < i1 for n, i in names) and sum(1 for n, i in names if n.id == y and i == i1) == 1:
                for n, _i in names:
                    if n.id == y:
                        n.id = x
                block.pop(bi)
                return True
            if x in pinned or x in args:
                continue
            # (1) x is bound once, y is not bound afterwards: x is y
            if stores.get(x) == [i1] and not any(i > i1 for i in stores.get(y, [])):
                for n, _i in names:
                    if n.id == x and isinstance(n.ctx, ast.Load):
                        n.id = y
                block.pop(bi)
                return True
            # (3) handled in _takeover_once
            # (2) x = y ... y = x with y untouched in between and x unknown elsewhere: x is y all along
            if min(stores.get(x, [i1])) != i1:
                continue
            for bj in range(bi + 1, len(block)):
                s2 = block[bj]
                if isinstance(s2, ast.Assign) and len(s2.targets) == 1 and isinstance(s2.targets[0], ast.Name) and s2.targets[0].id == y \
                        and isinstance(s2.value, ast.Name) and s2.value.id == x:
                    i2 = pos[id(s2)]
                    between_y = any(n.id == y and i1 < i < i2 for n, i in names)
                    outside_x = any(n.id == x and not (i1 <= i <= i2) for n, i in names)
                    if between_y or outside_x:
                        break
                    for n, _i in names:
                        if n.id == x:
                            n.id = y
                    block.pop(bj)
                    block.pop(bi)
                    return True
    return False


def _takeover_once(fn: ast.AST, pinned: Set[str]) -> bool:
    """`x = y` where y is never read again before it is bound anew: the new local x takes over y's name (what inlining a helper that
    rebinds its parameter leaves behind).  Inside a loop body the statement must be a direct statement of the body and y must be bound
    afresh, unconditionally, before its first read in the body."""
    order, guarded, names = _owner_index(fn)
    pos = {id(s): i for i, s in enumerate(order)}
    args = {a.arg for x in ast.walk(fn) if isinstance(x, ast.arguments) for a in x.args + x.kwonlyargs + x.posonlyargs + ([x.vararg] if x.vararg else []) + ([x.kwarg] if x.kwarg else [])}
    scoped = {nm for x in ast.walk(fn) if isinstance(x, (ast.Global, ast.Nonlocal)) for nm in x.names}
    sites: List[Tuple[List[ast.stmt], Optional[ast.AST]]] = [(fn.body, None)]
    for node in ast.walk(fn):
        if isinstance(node, (ast.For, ast.While)) and id(node) in pos and not guarded.get(id(node), True):
            sites.append((node.body, node))
    for block, loop in sites:
        for bi, st in enumerate(block):
            if not (isinstance(st, ast.Assign) and len(st.targets) == 1 and isinstance(st.targets[0], ast.Name) and isinstance(st.value, ast.Name)):
                continue
            x, y = st.targets[0].id, st.value.id
            if x == y or x in pinned or x in args or x in scoped or y in scoped:
                continue
            i1 = pos[id(st)]
            if any(n.id == x and i < i1 for n, i in names):
                continue
            if any(n.id == y and i > i1 for n, i in names):
                continue
            if loop is not None:
                lo = pos[id(loop)]
                inside = [(n, i) for n, i in names if n.id == y and lo < i < i1]
                if not inside:
                    continue
                first = min(i for _n, i in inside)
                if order[first] not in block or any(not isinstance(n.ctx, ast.Store) for n, i in inside if i == first):
                    continue
                if isinstance(loop, ast.For) and any(isinstance(n, ast.Name) and n.id == y for n in ast.walk(loop.iter)):
                    continue
            for n, _i in names:
                if n.id == x:
                    n.id = y
            block.pop(bi)
            return True
    return False


def _inline_single_use_once(fn: ast.AST, pinned: Set[str]) -> bool:
    """`t = E` under a *new* name that is read exactly once, by the very next statement (its header when that is a loop / if / with), is
    E written in place (a temporary introduced to shorten a line)."""
    order, _g, names = _owner_index(fn)
    pos = {id(s): i for i, s in enumerate(order)}
    args = {a.arg for x in ast.walk(fn) if isinstance(x, ast.arguments) for a in x.args + x.kwonlyargs + x.posonlyargs + ([x.vararg] if x.vararg else []) + ([x.kwarg] if x.kwarg else [])}
    for block in _blocks_of(fn):
        for bi, st in enumerate(block[:-1]):
            if not (isinstance(st, ast.Assign) and len(st.targets) == 1 and isinstance(st.targets[0], ast.Name) and id(st) in pos):
                continue
            x = st.targets[0].id
            if x in pinned or x in args or isinstance(st.value, (ast.Name, ast.Constant, ast.Lambda, ast.Yield, ast.YieldFrom, ast.Await,
                                                                  ast.ListComp, ast.GeneratorExp, ast.SetComp, ast.DictComp)):
                continue            # (a named comprehension is a sequence the rules look at under its name)
            refs = [(n, i) for n, i in names if n.id == x]
            if len(refs) != 2:
                continue
            loads = [(n, i) for n, i in refs if isinstance(n.ctx, ast.Load)]
            nxt = block[bi + 1]
            if len(loads) != 1 or loads[0][1] != pos.get(id(nxt)):
                continue
            if isinstance(nxt, (ast.FunctionDef, ast.AsyncFunctionDef, ast.ClassDef)):
                continue
            if any(isinstance(y, (ast.Lambda, ast.ListComp, ast.GeneratorExp, ast.SetComp, ast.DictComp)) and any(z is loads[0][0] for z in ast.walk(y)) for y in ast.walk(nxt)):
                continue        # inside a comprehension / lambda the expression would be evaluated per element
            _replace_node(nxt, loads[0][0], copy.deepcopy(st.value))
            block.pop(bi)
            ast.fix_missing_locations(fn)
            return True
    return False


def coalesce_copies(trees: Dict[str, ast.Module]) -> int:
    """Copies of a value under a *new* local name are removed from pinned functions: `x = y` where x is bound once and y keeps
    its value is y itself; `x = y; ...; y = x` with y untouched in between (what inlining a helper that updates its parameter
    leaves behind) is y all along.  Pinned names are never replaced."""
    sigs = load_baseline_sigs()
    if not sigs:
        return 0
    n = 0
    writers = attribute_writers(trees)
    for m, tree in trees.items():
        fns: List[Tuple[str, ast.FunctionDef]] = []
        for st in tree.body:
            if isinstance(st, ast.FunctionDef):
                fns.append((f"{m}.{st.name}", st))
            elif isinstance(st, ast.ClassDef):
                for x in st.body:
                    if isinstance(x, ast.FunctionDef) and not any(isinstance(d, ast.Attribute) and d.attr in ("setter", "deleter") for d in x.decorator_list):
                        fns.append((f"{m}.{st.name}.{x.name}", x))
        for q, fn in fns:
            if q not in sigs:
                continue
            pinned = set(sigs[q]) | set(sigs.get("locals:" + q, []))
            for block in list(_blocks_of(fn)):
                for bi in range(len(block) - 1, -1, -1):
                    st = block[bi]
                    if isinstance(st, ast.Assign) and len(st.targets) == 1 and isinstance(st.targets[0], ast.Tuple) and isinstance(st.value, ast.Tuple) \
                            and len(st.targets[0].elts) == len(st.value.elts) and all(isinstance(e, ast.Name) for e in st.targets[0].elts) \
                            and all(isinstance(e, ast.Name) or _chain(e) is not None for e in st.value.elts):
                        ts = [e.id for e in st.targets[0].elts]
                        reads = [{n.id for n in ast.walk(e) if isinstance(n, ast.Name)} for e in st.value.elts]
                        if any(ts[i] in r for i in range(len(ts)) for r in reads[i + 1:]) or not any(t not in pinned for t in ts) or len(set(ts)) != len(ts):
                            continue
                        # `a, b = (a, obj.v)`: plain copies / look-ups, no target is read by a later right-hand side
                        block[bi:bi + 1] = [ast.copy_location(ast.Assign(targets=[ast.Name(id=t, ctx=ast.Store())], value=v), st)
                                            for t, v in zip(ts, st.value.elts) if not (isinstance(v, ast.Name) and v.id == t)]
                        ast.fix_missing_locations(fn)
            for _ in range(30):
                if not _unhoist_once(fn, pinned, writers):
                    break
                n += 1
            for _ in range(40):
                if not (_copy_once(fn, pinned) or _takeover_once(fn, pinned) or _inline_single_use_once(fn, pinned)):
                    break
                n += 1
            if n and any(isinstance(x, (ast.Attribute, ast.Name)) and getattr(x, "attr", getattr(x, "id", "")) == "partial" for x in ast.walk(fn)):
                if _desugar_partial(fn):
                    ast.fix_missing_locations(fn)
    return n


# ------------------------------------------------------------------------------------------------ positional call form
def positionalise_calls(trees: Dict[str, ast.Module]) -> int:
    """A call of a (uniquely named) package function that passes by keyword a parameter which every call site of the pinned tree
    passes by position is put in the pinned form: `f(records=r, settings=s)` is `f(r, s)`.  Only leading parameters, only when the
    callee's parameter list is the pinned one; argument evaluation order is immaterial to the analysis."""
    base = load_baseline()
    want: Dict[str, Tuple[str, int]] = {}
    for b in base:
        if b.startswith("pos:") and "=" in b:
            q, k = b[4:].rsplit("=", 1)
            want[q.split(".")[-1]] = (q, int(k))
    if not want:
        return 0
    sigs = load_baseline_sigs()
    params: Dict[str, List[str]] = {}
    for m, tree in trees.items():
        for st in tree.body:
            cands = []
            if isinstance(st, ast.FunctionDef):
                cands.append((f"{m}.{st.name}", st, False))
            elif isinstance(st, ast.ClassDef):
                for x in st.body:
                    if isinstance(x, ast.FunctionDef):
                        static = any(isinstance(d, ast.Name) and d.id == "staticmethod" for d in x.decorator_list)
                        cands.append((f"{m}.{st.name}.{x.name}", x, not static))
            for q, fn, bound in cands:
                if fn.name in want and want[fn.name][0] == q and not fn.args.posonlyargs:
                    ps = [a.arg for a in fn.args.args]
                    if sigs.get(q) is not None and sigs[q][:len(ps)] != ps:
                        continue
                    params[fn.name] = ps[1:] if bound else ps
    n = 0
    for tree in trees.values():
        for c in ast.walk(tree):
            if not isinstance(c, ast.Call):
                continue
            nm = c.func.id if isinstance(c.func, ast.Name) else c.func.attr if isinstance(c.func, ast.Attribute) else None
            if nm not in params:
                continue
            k = want[nm][1]
            ps = params[nm]
            have = len(c.args)
            if have >= k or k > len(ps) or any(isinstance(a, ast.Starred) for a in c.args) or any(kw.arg is None for kw in c.keywords):
                continue
            kws = {kw.arg: kw for kw in c.keywords}
            need = ps[have:k]
            if not all(p in kws for p in need) or any(p in kws for p in ps[:have]):
                continue
            c.args = list(c.args) + [kws[p].value for p in need]
            c.keywords = [kw for kw in c.keywords if kw.arg not in need]
            n += 1
    return n


# ------------------------------------------------------------------------------------------- truth tables as dictionaries
def _bool_key(k: ast.AST) -> Optional[Tuple[bool, ...]]:
    if isinstance(k, ast.Constant) and isinstance(k.value, bool):
        return (k.value,)
    if isinstance(k, ast.Tuple) and k.elts and all(isinstance(e, ast.Constant) and isinstance(e.value, bool) for e in k.elts):
        return tuple(e.value for e in k.elts)
    return None


def _desugar_truth_tables(fn: ast.AST, tables: Dict[str, ast.Dict]) -> int:
    """`t = TABLE.get((p, q))` / `TABLE[(p, q)]` where TABLE is a new dictionary display keyed by tuples of True / False and p, q are
    side-effect-free tests is an if / elif ladder over the rows (the rows exclude one another).  While t and the names the tests
    read keep their values, `t is None`, `t == <row value>` and `{<row value>: e, ...}[t]` are decided by the same tests."""
    n = 0
    for block in list(_blocks_of(fn)):
        i = 0
        while i < len(block):
            st = block[i]
            i += 1
            if not (isinstance(st, ast.Assign) and len(st.targets) == 1 and isinstance(st.targets[0], ast.Name)):
                continue
            t, v = st.targets[0].id, st.value
            d = key = None
            dflt: Optional[ast.AST] = None
            strict = False
            if isinstance(v, ast.Call) and isinstance(v.func, ast.Attribute) and v.func.attr == "get" and 1 <= len(v.args) <= 2 and not v.keywords:
                d, key = v.func.value, v.args[0]
                dflt = v.args[1] if len(v.args) == 2 else ast.Constant(value=None)
            elif isinstance(v, ast.Subscript):
                d, key, strict = v.value, v.slice, True
            if isinstance(d, ast.Name):
                d = tables.get(d.id)
            if not isinstance(d, ast.Dict) or not d.keys or any(k is None for k in d.keys):
                continue
            rows = [(_bool_key(k), val) for k, val in zip(d.keys, d.values)]
            if any(k is None for k, _ in rows) or len({len(k) for k, _ in rows}) != 1 or len({k for k, _ in rows}) != len(rows):
                continue
            width = len(rows[0][0])
            tests = list(key.elts) if isinstance(key, ast.Tuple) else [key]
            if len(tests) != width or not all(_is_pure_test(e) for e in tests):
                continue
            if strict and len(rows) != 2 ** width:
                continue
            if dflt is not None and not isinstance(dflt, ast.Constant):
                continue

            def cond(k):
                parts = [copy.deepcopy(e) if b else ast.UnaryOp(op=ast.Not(), operand=copy.deepcopy(e)) for e, b in zip(tests, k)]
                return parts[0] if len(parts) == 1 else ast.BoolOp(op=ast.And(), values=parts)
            conds = [(cond(k), val) for k, val in rows]

            def ladder(target: str, pairs, final: List[ast.stmt]) -> ast.stmt:
                top = cur = None
                for c, val in pairs:
                    new = ast.If(test=copy.deepcopy(c), body=[ast.Assign(targets=[ast.Name(id=target, ctx=ast.Store())], value=copy.deepcopy(val))], orelse=[])
                    if top is None:
                        top = cur = new
                    else:
                        cur.orelse = [new]
                        cur = new
                cur.orelse = final
                return top
            final = [] if strict else [ast.Assign(targets=[ast.Name(id=t, ctx=ast.Store())], value=dflt)]
            if strict:
                last_c, last_v = conds[-1]
                new_st = ladder(t, conds[:-1], [ast.Assign(targets=[ast.Name(id=t, ctx=ast.Store())], value=copy.deepcopy(last_v))])
            else:
                new_st = ladder(t, conds, final)
            ast.copy_location(new_st, st)
            block[i - 1] = new_st
            n += 1
            # ---- later reads of t in this block, while nothing the tests read is rebound
            consts = all(isinstance(val, ast.Constant) for _c, val in conds) and len({repr(val.value) for _c, val in conds}) == len(conds)
            if not consts:
                continue
            frozen = {x.id for e in tests for x in ast.walk(e) if isinstance(x, ast.Name)} | {t}
            none_rows = [c for c, val in conds if val.value is None]
            dflt_none = (not strict) and dflt.value is None
            nothing = ast.UnaryOp(op=ast.Not(), operand=ast.BoolOp(op=ast.Or(), values=[copy.deepcopy(c) for c, _v in conds])) if len(conds) > 1 else \
                ast.UnaryOp(op=ast.Not(), operand=copy.deepcopy(conds[0][0]))

            def is_none_test() -> Optional[ast.AST]:
                parts = [copy.deepcopy(c) for c in none_rows] + ([nothing] if dflt_none else [])
                if not parts:
                    return ast.Constant(value=False)
                return parts[0] if len(parts) == 1 else ast.BoolOp(op=ast.Or(), values=parts)

            class _Reads(ast.NodeTransformer):
                def visit_Compare(self, node):
                    self.generic_visit(node)
                    if len(node.ops) == 1 and isinstance(node.left, ast.Name) and node.left.id == t and isinstance(node.comparators[0], ast.Constant):
                        c0, op = node.comparators[0], node.ops[0]
                        if c0.value is None and isinstance(op, (ast.Is, ast.IsNot, ast.Eq, ast.NotEq)):
                            r = is_none_test()
                            return r if isinstance(op, (ast.Is, ast.Eq)) else ast.UnaryOp(op=ast.Not(), operand=r)
                        if isinstance(op, (ast.Eq, ast.NotEq)) and isinstance(c0.value, (str, int)) and not isinstance(c0.value, bool):
                            hit = [c for c, val in conds if type(val.value) is type(c0.value) and val.value == c0.value]
                            if len(hit) == 1 and not (not strict and dflt.value == c0.value):
                                r = copy.deepcopy(hit[0])
                                return r if isinstance(op, ast.Eq) else ast.UnaryOp(op=ast.Not(), operand=r)
                    return node
            for j in range(i, len(block)):
                s2 = block[j]
                if isinstance(s2, ast.Assign) and len(s2.targets) == 1 and isinstance(s2.targets[0], ast.Name) and isinstance(s2.value, ast.Subscript) \
                        and isinstance(s2.value.slice, ast.Name) and s2.value.slice.id == t and isinstance(s2.value.value, ast.Dict) \
                        and all(isinstance(k, ast.Constant) for k in s2.value.value.keys) and s2.targets[0].id not in frozen:
                    byval = {repr(k.value): val for k, val in zip(s2.value.value.keys, s2.value.value.values)}
                    pairs = [(c, byval[repr(val.value)]) for c, val in conds if repr(val.value) in byval]
                    if pairs:
                        miss = ast.Raise(exc=ast.Call(func=ast.Name(id="KeyError", ctx=ast.Load()), args=[ast.Name(id=t, ctx=ast.Load())], keywords=[]), cause=None)
                        block[j] = ast.copy_location(ladder(s2.targets[0].id, pairs, [miss]), s2)
                        n += 1
                        continue
                _Reads().visit(s2)
                stored = {x.id for x in ast.walk(s2) if isinstance(x, ast.Name) and isinstance(x.ctx, (ast.Store, ast.Del))}
                if stored & frozen:
                    break
            ast.fix_missing_locations(fn)
    return n


# ----------------------------------------------------------------------------------- loops over a comprehension's values
def _fuse_comprehension_loops(fn: ast.AST) -> int:
    """`for x in [E(y) for y in S]: body` is `for y in S: x = E(y); body` when the body only works on local names (it cannot change
    what E reads, so computing the E(y) one by one instead of all at once gives the same values in the same order)."""
    n = 0
    for block in list(_blocks_of(fn)):
        for i, st in enumerate(block):
            if not (isinstance(st, ast.For) and not st.orelse and isinstance(st.target, ast.Name)):
                continue
            drop = None
            if isinstance(st.iter, ast.Name):
                # a local bound once, in this block, to a comprehension and read only here
                nm = st.iter.id
                stores = [x for x in ast.walk(fn) if isinstance(x, ast.Name) and x.id == nm and isinstance(x.ctx, (ast.Store, ast.Del))]
                loads = [x for x in ast.walk(fn) if isinstance(x, ast.Name) and x.id == nm and isinstance(x.ctx, ast.Load)]
                defs = [(j, d) for j, d in enumerate(block[:i]) if isinstance(d, ast.Assign) and len(d.targets) == 1 and isinstance(d.targets[0], ast.Name)
                        and d.targets[0].id == nm and isinstance(d.value, (ast.ListComp, ast.GeneratorExp))]
                if len(stores) != 1 or len(loads) != 1 or len(defs) != 1:
                    continue
                j, d = defs[0]
                creads = {x.id for x in ast.walk(d.value) if isinstance(x, ast.Name) and isinstance(x.ctx, ast.Load)}
                between = {x.id for b in block[j + 1:i] for x in ast.walk(b) if isinstance(x, ast.Name) and isinstance(x.ctx, (ast.Store, ast.Del))}
                if creads & between or any(isinstance(x, (ast.Attribute, ast.Subscript)) and isinstance(x.ctx, (ast.Store, ast.Del)) for b in block[j + 1:i] for x in ast.walk(b)):
                    continue
                drop = d
                comp = d.value
            elif isinstance(st.iter, (ast.ListComp, ast.GeneratorExp)):
                comp = st.iter
            else:
                continue
            if len(comp.generators) != 1 or comp.generators[0].is_async:
                continue
            g = comp.generators[0]
            if any(isinstance(x, (ast.Attribute, ast.Subscript)) and isinstance(x.ctx, (ast.Store, ast.Del)) for b in st.body for x in ast.walk(b)):
                continue
            if any(isinstance(x, (ast.Break, ast.Return, ast.Yield, ast.YieldFrom, ast.Global, ast.Nonlocal)) for b in st.body for x in ast.walk(b)):
                continue
            stored = {x.id for b in st.body for x in ast.walk(b) if isinstance(x, ast.Name) and isinstance(x.ctx, (ast.Store, ast.Del))} | {st.target.id}
            reads = {x.id for x in ast.walk(comp) if isinstance(x, ast.Name) and isinstance(x.ctx, ast.Load)}
            inner = {x.id for x in ast.walk(g.target) if isinstance(x, ast.Name)}
            if stored & (reads | inner):
                continue
            used_after = any(isinstance(x, ast.Name) and x.id in inner for later in block[i + 1:] for x in ast.walk(later))
            used_in_body = any(isinstance(x, ast.Name) and x.id in inner for b in st.body for x in ast.walk(b))
            if used_after or used_in_body:
                continue
            bind = ast.copy_location(ast.Assign(targets=[ast.Name(id=st.target.id, ctx=ast.Store())], value=comp.elt), st)
            body = [bind] + list(st.body)
            for c in reversed(g.ifs):
                body = [ast.copy_location(ast.If(test=c, body=body, orelse=[]), st)]
            st.target, st.iter, st.body = g.target, g.iter, body
            ast.fix_missing_locations(st)
            n += 1
            if drop is not None:
                block.remove(drop)
                return n + _fuse_comprehension_loops(fn)
    return n


# ------------------------------------------------------------------------------------------- first matching row of a table
def desugar_first_match(trees: Dict[str, ast.Module]) -> int:
    """`t = next((row for row in TABLE if test(row)), DEFAULT)` over a *new* literal table (a module-level tuple / list of rows that the
    pinned tree does not have; rows are tuples or records) is the if / elif ladder that tries the rows in order: `if test(row0): t = row0
    elif test(row1): t = row1 ... else: t = DEFAULT`."""
    baseline = load_baseline()
    if not baseline:
        return 0
    # record types (NamedTuple classes that only name positions) and new module-level constants, by bare name
    fields: Dict[str, List[str]] = {}
    consts: Dict[str, ast.AST] = {}
    for m, tree in trees.items():
        for st in tree.body:
            if isinstance(st, ast.ClassDef) and any((isinstance(b, ast.Name) and b.id == "NamedTuple") or (isinstance(b, ast.Attribute) and b.attr == "NamedTuple") for b in st.bases) \
                    and not any(b.startswith(f"{m}.{st.name}.") for b in baseline):
                fl = [x.target.id for x in st.body if isinstance(x, ast.AnnAssign) and isinstance(x.target, ast.Name)]
                if fl and all(isinstance(x, ast.AnnAssign) or (isinstance(x, ast.Expr) and isinstance(x.value, ast.Constant)) for x in st.body) \
                        and not any(isinstance(x, ast.AnnAssign) and x.value is not None for x in st.body):
                    fields[st.name] = fl
            elif isinstance(st, ast.Assign) and len(st.targets) == 1 and isinstance(st.targets[0], ast.Name) and f"const:{m}.{st.targets[0].id}" not in baseline:
                consts.setdefault(st.targets[0].id, st.value)

    def row_of(e: ast.AST) -> Optional[Tuple[List[ast.AST], Optional[str]]]:
        if isinstance(e, ast.Name) and e.id in consts:
            e = consts[e.id]
        if isinstance(e, (ast.Tuple, ast.List)) and not any(isinstance(x, ast.Starred) for x in e.elts):
            return list(e.elts), None
        if isinstance(e, ast.Call) and isinstance(e.func, ast.Name) and e.func.id in fields and not any(isinstance(a, ast.Starred) for a in e.args) \
                and all(k.arg is not None for k in e.keywords):
            fl = fields[e.func.id]
            vals = dict(zip(fl, e.args))
            for k in e.keywords:
                if k.arg not in fl or k.arg in vals:
                    return None
                vals[k.arg] = k.value
            if set(vals) != set(fl):
                return None
            return [vals[f_] for f_ in fl], e.func.id
        return None
    n = 0
    for tree in trees.values():
        if not any(isinstance(x, ast.Call) and isinstance(x.func, ast.Name) and x.func.id == "next" for x in ast.walk(tree)):
            continue
        for fn in [x for x in ast.walk(tree) if isinstance(x, (ast.FunctionDef, ast.AsyncFunctionDef))]:
            for block in list(_blocks_of(fn)):
                for i, st in enumerate(block):
                    if not (isinstance(st, ast.Assign) and len(st.targets) == 1 and isinstance(st.value, ast.Call) and isinstance(st.value.func, ast.Name)
                            and st.value.func.id == "next" and len(st.value.args) == 2 and not st.value.keywords and isinstance(st.value.args[0], ast.GeneratorExp)):
                        continue
                    g = st.value.args[0]
                    if len(g.generators) != 1 or not isinstance(g.generators[0].target, ast.Name) or not (isinstance(g.elt, ast.Name) and g.elt.id == g.generators[0].target.id):
                        continue
                    var = g.generators[0].target.id
                    table = g.generators[0].iter
                    if isinstance(table, ast.Name) and table.id in consts:
                        table = consts[table.id]
                    if not isinstance(table, (ast.Tuple, ast.List)) or not table.elts or len(table.elts) > 24:
                        continue
                    rows = [row_of(e) for e in table.elts]
                    dflt = row_of(st.value.args[1])
                    if any(r is None for r in rows) or dflt is None or len({len(r[0]) for r in rows + [dflt]}) != 1:
                        continue
                    if not all(all(_lit_const(x) or (isinstance(x, ast.Call) and isinstance(x.func, ast.Name) and x.func.id == "float") for x in r[0]) for r in rows + [dflt]):
                        continue
                    tests = g.generators[0].ifs

                    def bind(e: ast.AST, row) -> ast.AST:
                        vals, rec = row

                        class _B(ast.NodeTransformer):
                            def visit_Attribute(self, node):
                                if isinstance(node.value, ast.Name) and node.value.id == var and rec is not None and node.attr in fields[rec]:
                                    return ast.copy_location(copy.deepcopy(vals[fields[rec].index(node.attr)]), node)
                                return self.generic_visit(node)

                            def visit_Subscript(self, node):
                                if isinstance(node.value, ast.Name) and node.value.id == var and isinstance(node.slice, ast.Constant) and isinstance(node.slice.value, int) \
                                        and -len(vals) <= node.slice.value < len(vals):
                                    return ast.copy_location(copy.deepcopy(vals[node.slice.value]), node)
                                return self.generic_visit(node)

                            def visit_Name(self, node):
                                if node.id == var:
                                    return ast.copy_location(ast.Tuple(elts=[copy.deepcopy(v) for v in vals], ctx=ast.Load()), node)
                                return node
                        return _B().visit(copy.deepcopy(e))

                    def assign(row) -> ast.stmt:
                        return ast.Assign(targets=[copy.deepcopy(st.targets[0])], value=ast.Tuple(elts=[copy.deepcopy(v) for v in row[0]], ctx=ast.Load()))
                    top = cur = None
                    for r in rows:
                        ts = [bind(t_, r) for t_ in tests]
                        test = ast.Constant(value=True) if not ts else ts[0] if len(ts) == 1 else ast.BoolOp(op=ast.And(), values=ts)
                        new = ast.If(test=test, body=[assign(r)], orelse=[])
                        if top is None:
                            top = cur = new
                        else:
                            cur.orelse = [new]
                            cur = new
                    cur.orelse = [assign(dflt)]
                    ast.copy_location(top, st)
                    ast.fix_missing_locations(top)
                    block[i] = top
                    n += 1
    return n


# ------------------------------------------------------------------------------------------ cached attribute look-ups
def attribute_writers(trees: Dict[str, ast.Module]) -> Dict[str, Set[str]]:
    """attribute name -> simple names of the package functions (other than constructors) that store to an attribute of that name"""
    out: Dict[str, Set[str]] = {}
    for tree in trees.values():
        for fn in [x for x in ast.walk(tree) if isinstance(x, (ast.FunctionDef, ast.AsyncFunctionDef))]:
            if fn.name == "__init__":
                continue
            for x in ast.walk(fn):
                t = None
                if isinstance(x, ast.Attribute) and isinstance(x.ctx, (ast.Store, ast.Del)):
                    t = x
                elif isinstance(x, ast.Subscript) and isinstance(x.ctx, (ast.Store, ast.Del)) and isinstance(x.value, ast.Attribute):
                    t = x.value
                if t is not None:
                    out.setdefault(t.attr, set()).add(fn.name)
    return out


def _chain(e: ast.AST) -> Optional[Tuple[str, List[str]]]:
    attrs: List[str] = []
    while isinstance(e, ast.Attribute):
        attrs.append(e.attr)
        e = e.value
    if isinstance(e, ast.Name) and attrs:
        return e.id, attrs[::-1]
    return None


def _unhoist_once(fn: ast.AST, pinned: Set[str], writers: Dict[str, Set[str]]) -> bool:
    """`x = obj.a.b` under a *new* local name x (bound once) that only saves repeated look-ups is the look-up itself: every read of x is
    `obj.a.b` again, provided that between the binding and the reads obj is not rebound, no attribute named a or b is stored to in this
    function, and no call that involves obj goes to a package function that stores to an attribute of that name."""
    order, _guarded, names = _owner_index(fn)
    pos = {id(s): i for i, s in enumerate(order)}
    args = {a.arg for x in ast.walk(fn) if isinstance(x, ast.arguments) for a in x.args + x.kwonlyargs + x.posonlyargs + ([x.vararg] if x.vararg else []) + ([x.kwarg] if x.kwarg else [])}
    stores: Dict[str, List[int]] = {}
    for n, i in names:
        if isinstance(n.ctx, (ast.Store, ast.Del)):
            stores.setdefault(n.id, []).append(i)
    for block in _blocks_of(fn):
        for bi, st in enumerate(block):
            if not (isinstance(st, ast.Assign) and len(st.targets) == 1 and isinstance(st.targets[0], ast.Name) and id(st) in pos):
                continue
            x = st.targets[0].id
            ch = _chain(st.value)
            if ch is None or x in pinned or x in args or stores.get(x) != [pos[id(st)]]:
                continue
            root, attrs = ch
            if root == x:
                continue
            i1 = pos[id(st)]
            reads = [i for n, i in names if n.id == x and isinstance(n.ctx, ast.Load)]
            if not reads or min(reads) <= i1 - 0 and any(i < i1 for i in reads):
                continue
            last = max(reads)
            if any(i1 < i <= last for i in stores.get(root, [])):
                continue
            span = [s for s in order[i1 + 1:last + 1]]
            bad = False
            for s in span:
                own = [s] if not isinstance(s, (ast.If, ast.For, ast.While, ast.With, ast.Try)) else \
                    [getattr(s, "test", None), getattr(s, "iter", None)] + [w.context_expr for w in getattr(s, "items", [])]
                for part in own:
                    if part is None:
                        continue
                    for y in ast.walk(part):
                        if isinstance(y, ast.Attribute) and isinstance(y.ctx, (ast.Store, ast.Del)) and y.attr in attrs:
                            bad = True
                        if isinstance(y, ast.Call):
                            nm = y.func.id if isinstance(y.func, ast.Name) else y.func.attr if isinstance(y.func, ast.Attribute) else None
                            if nm is not None and any(nm in writers.get(a, ()) for a in attrs) \
                                    and any(isinstance(z, ast.Name) and z.id == root for z in ast.walk(y)):
                                bad = True
            if bad:
                continue
            for n, _i in list(names):
                if n.id == x and isinstance(n.ctx, ast.Load):
                    new = copy.deepcopy(st.value)
                    _replace_node(fn, n, ast.copy_location(new, n))
            block.pop(bi)
            ast.fix_missing_locations(fn)
            return True
    return False


# ------------------------------------------------------------------------------------------------- numpy spellings
_NP = ("np", "numpy")


def _np_call(name: str, *args, keywords=None) -> ast.Call:
    return ast.Call(func=ast.Attribute(value=ast.Name(id="np", ctx=ast.Load()), attr=name, ctx=ast.Load()), args=list(args), keywords=list(keywords or []))


def _is_np(e: ast.AST, *names: str) -> bool:
    return isinstance(e, ast.Call) and isinstance(e.func, ast.Attribute) and isinstance(e.func.value, ast.Name) and e.func.value.id in _NP and e.func.attr in names


def _boolish(e: ast.AST) -> bool:
    if isinstance(e, ast.Compare) or (isinstance(e, ast.UnaryOp) and isinstance(e.op, (ast.Invert, ast.Not))):
        return True
    if _is_np(e, "isnan", "isfinite", "isinf", "logical_not", "logical_and", "logical_or"):
        return True
    nm = e.attr if isinstance(e, ast.Attribute) else e.id if isinstance(e, ast.Name) else ""
    return "mask" in nm


class _NumpySpellings(ast.NodeTransformer):
    """One spelling for numpy idioms that mean the same thing (the spelling the pinned tree uses): method forms of conjugate / argmin /
    argmax / sum become the function forms, `(e).real` is `np.real(e)`, reductions called as methods of a numpy expression become
    functions, the arithmetic ufuncs called with two arguments are the operators, `x.shape[0]` (and, outside the smoothing module,
    `x.size` of a name) is `len(x)`, `np.count_nonzero(<mask>)` is `np.sum(<mask>)`, `x.ravel()` is `x.flatten()`, `np.take(a, i,
    axis=0)` is `a[i]`."""
    BINOPS = {"multiply": ast.Mult, "add": ast.Add, "subtract": ast.Sub, "divide": ast.Div, "true_divide": ast.Div}

    def __init__(self, module: str):
        self.module = module
        self.n = 0

    def visit_Call(self, node: ast.Call):
        self.generic_visit(node)
        f = node.func
        if isinstance(f, ast.Attribute) and not (isinstance(f.value, ast.Name) and f.value.id in _NP):
            recv = f.value
            if f.attr in ("conj", "conjugate") and not node.args and not node.keywords:
                self.n += 1
                return ast.copy_location(_np_call("conjugate", recv), node)
            if f.attr in ("argmin", "argmax", "sum") and not isinstance(recv, ast.Name) or \
                    (f.attr in ("argmin", "argmax") and isinstance(recv, ast.Name)):
                if not (isinstance(recv, ast.Name) and recv.id in ("self", "cls")):
                    self.n += 1
                    return ast.copy_location(_np_call(f.attr, recv, *node.args, keywords=node.keywords), node)
            if f.attr in ("mean", "max", "min", "any", "all") and (_is_np(recv, "square", "abs", "absolute", "isnan", "logical_not", "conjugate", "real")
                                                                     or isinstance(recv, ast.BinOp)):
                self.n += 1
                return ast.copy_location(_np_call(f.attr, recv, *node.args, keywords=node.keywords), node)
            if f.attr == "ravel" and not node.args and not node.keywords:
                f.attr = "flatten"
                self.n += 1
                return node
        if _is_np(node, "conj") and len(node.args) == 1:
            node.func.attr = "conjugate"
            self.n += 1
        if _is_np(node, *self.BINOPS) and len(node.args) == 2 and not node.keywords:
            self.n += 1
            return ast.copy_location(ast.BinOp(left=node.args[0], op=self.BINOPS[node.func.attr](), right=node.args[1]), node)
        if _is_np(node, "logical_not") and len(node.args) == 1 and not node.keywords:
            self.n += 1
            return ast.copy_location(ast.UnaryOp(op=ast.Invert(), operand=node.args[0]), node)
        if _is_np(node, "count_nonzero") and len(node.args) == 1 and _boolish(node.args[0]):
            node.func.attr = "sum"
            self.n += 1
        if _is_np(node, "take") and len(node.args) == 2 and all(k.arg == "axis" and isinstance(k.value, ast.Constant) and k.value.value == 0 for k in node.keywords):
            self.n += 1
            return ast.copy_location(ast.Subscript(value=node.args[0], slice=node.args[1], ctx=ast.Load()), node)
        if self.module == "processing" and _is_np(node, "vstack", "row_stack", "stack") and len(node.args) == 1 and isinstance(node.args[0], (ast.Tuple, ast.List)) \
                and not node.keywords:
            self.n += 1
            return ast.copy_location(_np_call("array", ast.List(elts=list(node.args[0].elts), ctx=ast.Load())), node)
        if self.module == "hvsr_spatial" and _is_np(node, "concatenate") and len(node.args) == 1 and isinstance(node.args[0], (ast.Tuple, ast.List)) \
                and len(node.args[0].elts) == 2 and isinstance(node.args[0].elts[1], ast.List) and len(node.args[0].elts[1].elts) == 1 \
                and all(k.arg == "axis" and isinstance(k.value, ast.Constant) and k.value.value == 0 for k in node.keywords):
            self.n += 1
            return ast.copy_location(_np_call("vstack", ast.Tuple(elts=[node.args[0].elts[0], node.args[0].elts[1].elts[0]], ctx=ast.Load())), node)
        return node

    def visit_Attribute(self, node: ast.Attribute):
        self.generic_visit(node)
        if isinstance(node.ctx, ast.Load) and node.attr == "real" and isinstance(node.value, (ast.BinOp, ast.Call)):
            self.n += 1
            return ast.copy_location(_np_call("real", node.value), node)
        # only for plain local names: `settings.azimuths_in_degrees.size` fails for a list-valued field where len() works (C15.R4 looks for it)
        if isinstance(node.ctx, ast.Load) and node.attr == "size" and self.module != "smoothing" and isinstance(node.value, ast.Name) and node.value.id not in _NP \
                and node.value.id not in ("self", "settings"):
            self.n += 1
            return ast.copy_location(ast.Call(func=ast.Name(id="len", ctx=ast.Load()), args=[node.value], keywords=[]), node)
        return node

    def visit_Subscript(self, node: ast.Subscript):
        self.generic_visit(node)
        if self.module != "smoothing" and isinstance(node.ctx, ast.Load) and isinstance(node.value, ast.Attribute) and node.value.attr == "shape" \
                and isinstance(node.slice, ast.Constant) and node.slice.value == 0:
            self.n += 1
            return ast.copy_location(ast.Call(func=ast.Name(id="len", ctx=ast.Load()), args=[node.value.value], keywords=[]), node)
        return node


def canonical_numpy_spellings(trees: Dict[str, ast.Module]) -> int:
    n = 0
    for m, tree in trees.items():
        # `np.f(args, out=target)` as a statement is `target = np.f(args)` (target a subscript: the same cells are written)
        for block in [b for x in ast.walk(tree) for b in ([getattr(x, f_) for f_ in ("body", "orelse", "finalbody") if isinstance(getattr(x, f_, None), list)])]:
            for i, st in enumerate(block):
                if isinstance(st, ast.Expr) and isinstance(st.value, ast.Call) and isinstance(st.value.func, ast.Attribute) and isinstance(st.value.func.value, ast.Name) \
                        and st.value.func.value.id in _NP:
                    outs = [k for k in st.value.keywords if k.arg == "out"]
                    if len(outs) == 1 and isinstance(outs[0].value, ast.Subscript):
                        tgt = copy.deepcopy(outs[0].value)
                        tgt.ctx = ast.Store()
                        st.value.keywords = [k for k in st.value.keywords if k.arg != "out"]
                        block[i] = ast.copy_location(ast.Assign(targets=[tgt], value=st.value), st)
                        n += 1
        t = _NumpySpellings(m)
        t.visit(tree)
        n += t.n
        ast.fix_missing_locations(tree)
    return n


# -------------------------------------------------------------------------------------------- observability clutter
_LOG_LEVELS = ("debug", "info", "warning", "warn", "error", "exception", "critical", "log")


def drop_observability(trees: Dict[str, ast.Module]) -> int:
    """Statements that only observe are not part of what is analysed: calls of the logging methods of a module-level logger
    (`logger.debug(...)`, also under `if logger.isEnabledFor(...)`), `assert` statements (absent from the pinned package; removed by
    `python -O`), and the index of `for i, x in enumerate(seq)` when nothing but such statements read it."""
    n = 0

    def is_log(st) -> bool:
        return isinstance(st, ast.Expr) and isinstance(st.value, ast.Call) and isinstance(st.value.func, ast.Attribute) and st.value.func.attr in _LOG_LEVELS \
            and isinstance(st.value.func.value, ast.Name) and st.value.func.value.id in ("logger", "_logger", "log", "logging", "LOGGER")
    for tree in trees.values():
        for node in ast.walk(tree):
            for fld in ("body", "orelse", "finalbody"):
                block = getattr(node, fld, None)
                if not (isinstance(block, list) and block and isinstance(block[0], ast.stmt)):
                    continue
                keep = []
                for st in block:
                    if is_log(st) or isinstance(st, ast.Assert):
                        n += 1
                        continue
                    if isinstance(st, ast.If) and not st.orelse and isinstance(st.test, ast.Call) and isinstance(st.test.func, ast.Attribute) \
                            and st.test.func.attr == "isEnabledFor" and all(is_log(b) or isinstance(b, ast.Pass) for b in st.body):
                        n += 1
                        continue
                    keep.append(st)
                if not keep and fld == "body":
                    keep = [ast.copy_location(ast.Pass(), block[0])]
                block[:] = keep
        # `try: body except E: raise` (handlers that only re-raise, e.g. after a log call) is the body
        for node in ast.walk(tree):
            for fld in ("body", "orelse", "finalbody"):
                block = getattr(node, fld, None)
                if not (isinstance(block, list) and block and isinstance(block[0], ast.stmt)):
                    continue
                out = []
                for st in block:
                    if isinstance(st, ast.Try) and not st.orelse and not st.finalbody and st.handlers \
                            and all(len(h.body) == 1 and isinstance(h.body[0], ast.Raise) and h.body[0].exc is None for h in st.handlers):
                        out.extend(st.body)
                        n += 1
                    else:
                        out.append(st)
                block[:] = out
        for fn in [x for x in ast.walk(tree) if isinstance(x, (ast.FunctionDef, ast.AsyncFunctionDef))]:
            for lp in [x for x in ast.walk(fn) if isinstance(x, ast.For)]:
                if isinstance(lp.target, ast.Tuple) and len(lp.target.elts) == 2 and all(isinstance(e, ast.Name) for e in lp.target.elts) \
                        and isinstance(lp.iter, ast.Call) and isinstance(lp.iter.func, ast.Name) and lp.iter.func.id == "enumerate" and len(lp.iter.args) == 1 \
                        and all(k.arg == "start" for k in lp.iter.keywords):
                    idx = lp.target.elts[0].id
                    if idx != "_" and sum(1 for x in ast.walk(fn) if isinstance(x, ast.Name) and x.id == idx) == 1:
                        lp.target, lp.iter = lp.target.elts[1], lp.iter.args[0]
                        n += 1
        ast.fix_missing_locations(tree)
    return n


# ------------------------------------------------------------------------------------------------- early returns
def merge_early_returns(trees: Dict[str, ast.Module]) -> int:
    """`if c: return v` ... `return v` (the same plain name, at the top level of a function) is `if not c: ...` followed by the one
    `return v`: a guard clause is the nested form written flat."""
    n = 0
    for tree in trees.values():
        for fn in [x for x in ast.walk(tree) if isinstance(x, (ast.FunctionDef, ast.AsyncFunctionDef))]:
            body = fn.body
            if len(body) < 3 or not isinstance(body[-1], ast.Return) or not isinstance(body[-1].value, ast.Name):
                continue
            v = body[-1].value.id
            for i in range(len(body) - 2, -1, -1):
                st = body[i]
                if isinstance(st, ast.If) and not st.orelse and len(st.body) == 1 and isinstance(st.body[0], ast.Return) and isinstance(st.body[0].value, ast.Name) \
                        and st.body[0].value.id == v and i < len(body) - 2:
                    rest = body[i + 1:-1]
                    if any(isinstance(x, ast.Name) and x.id == v and isinstance(x.ctx, (ast.Store, ast.Del)) for r in rest for x in ast.walk(r)):
                        continue
                    neg = st.test.operand if isinstance(st.test, ast.UnaryOp) and isinstance(st.test.op, ast.Not) else None
                    if neg is None and isinstance(st.test, ast.Compare) and len(st.test.ops) == 1 and isinstance(st.test.ops[0], (ast.Is, ast.IsNot, ast.Eq, ast.NotEq)):
                        flip = {ast.Is: ast.IsNot, ast.IsNot: ast.Is, ast.Eq: ast.NotEq, ast.NotEq: ast.Eq}[type(st.test.ops[0])]
                        neg = ast.Compare(left=st.test.left, ops=[flip()], comparators=st.test.comparators)
                    if neg is None:
                        neg = ast.UnaryOp(op=ast.Not(), operand=st.test)
                    new = ast.copy_location(ast.If(test=neg, body=rest, orelse=[]), st)
                    body[i:-1] = [new]
                    ast.fix_missing_locations(fn)
                    n += 1
                    break
    return n


# ------------------------------------------------------------------------------------------------- plain assignments
def simplify_assignments(trees: Dict[str, ast.Module]) -> int:
    """Inside functions (and at module level) `x: T = v` is `x = v` (an annotation changes nothing at run time), a bare `x: T` is dropped,
    and `a = b = v` with v a constant, a name or an empty display is `a = v; b = v`."""
    n = 0
    for tree in trees.values():
        holders = [tree] + [x for x in ast.walk(tree) if isinstance(x, (ast.FunctionDef, ast.AsyncFunctionDef))]
        for h in holders:
            for node in ([h] if h is tree else ast.walk(h)):
                if isinstance(node, ast.ClassDef):
                    continue
                for fld in ("body", "orelse", "finalbody"):
                    block = getattr(node, fld, None)
                    if not (isinstance(block, list) and block and isinstance(block[0], ast.stmt)):
                        continue
                    out = []
                    for st in block:
                        if isinstance(st, ast.AnnAssign) and (h is not tree or isinstance(st.target, ast.Name)):
                            n += 1
                            if st.value is None:
                                continue
                            out.append(ast.copy_location(ast.Assign(targets=[st.target], value=st.value), st))
                        elif isinstance(st, ast.Assign) and len(st.targets) > 1 and all(isinstance(t, ast.Name) for t in st.targets) \
                                and (isinstance(st.value, (ast.Constant, ast.Name)) or (isinstance(st.value, (ast.List, ast.Tuple, ast.Dict)) and not getattr(st.value, "elts", getattr(st.value, "keys", None)))):
                            n += 1
                            for t in st.targets:
                                out.append(ast.copy_location(ast.Assign(targets=[t], value=copy.deepcopy(st.value)), st))
                        else:
                            out.append(st)
                    if not out:
                        out = [ast.copy_location(ast.Pass(), block[0])]
                    block[:] = out
        ast.fix_missing_locations(tree)
    return n


# --------------------------------------------------------------------------------------------- defaults spelled in the body
def fold_none_defaults(trees: Dict[str, ast.Module]) -> int:
    """`def f(p=None): [docstring]; if p is None: p = <immutable literal>` is `def f(p=<literal>)`: the default is spelled in the body
    instead of the signature (the leading statements of the function only; literals of numbers, strings, None, booleans and tuples of them)."""
    def lit(e) -> bool:
        if isinstance(e, ast.Constant):
            return True
        if isinstance(e, ast.Tuple):
            return all(lit(x) for x in e.elts)
        if isinstance(e, ast.UnaryOp) and isinstance(e.op, ast.USub):
            return lit(e.operand)
        return False
    n = 0
    for tree in trees.values():
        for fn in [x for x in ast.walk(tree) if isinstance(x, (ast.FunctionDef, ast.AsyncFunctionDef))]:
            a = fn.args
            pos = a.posonlyargs + a.args
            dflt = {p.arg: (a.defaults, i - (len(pos) - len(a.defaults))) for i, p in enumerate(pos) if i >= len(pos) - len(a.defaults)}
            dflt.update({p.arg: (a.kw_defaults, i) for i, p in enumerate(a.kwonlyargs) if a.kw_defaults[i] is not None})
            i0 = 1 if fn.body and isinstance(fn.body[0], ast.Expr) and isinstance(fn.body[0].value, ast.Constant) and isinstance(fn.body[0].value.value, str) else 0
            i = i0
            while i < len(fn.body):
                st = fn.body[i]
                if not (isinstance(st, ast.If) and not st.orelse and len(st.body) == 1 and isinstance(st.test, ast.Compare) and len(st.test.ops) == 1
                        and isinstance(st.test.ops[0], ast.Is) and isinstance(st.test.left, ast.Name) and isinstance(st.test.comparators[0], ast.Constant)
                        and st.test.comparators[0].value is None):
                    break
                p = st.test.left.id
                b = st.body[0]
                if not (p in dflt and isinstance(b, ast.Assign) and len(b.targets) == 1 and isinstance(b.targets[0], ast.Name) and b.targets[0].id == p and lit(b.value)
                        and not (isinstance(b.value, ast.Constant) and b.value.value is None)):
                    break
                lst, k = dflt[p]
                if not (isinstance(lst[k], ast.Constant) and lst[k].value is None):
                    break
                lst[k] = b.value
                fn.body.pop(i)
                n += 1
            if not fn.body:
                fn.body.append(ast.Pass())
            ast.fix_missing_locations(fn)
    return n
