"""E5 interprocedural effect / freshness analysis (abstract origins, flow-sensitive).

Abstract origin of a reference:
  ("P", i, path)   object reached from parameter i of the analysed function by ``path``
  ("F", site)      object allocated inside the analysed function (or a callee) at ``site``
  ("G", name, path) module-level object (also: default-argument objects, evaluated once)
  ("U",)           unknown

``path`` is a tuple of steps: attribute names, "[]" (container element / array view), "*".
A per-function summary records (a) effects = (origin, kind, field) for every possible
mutation of a non-local object, with a witness chain down to the mutating statement,
(b) the abstract return value, (c) the final abstract heap (field/element contents of
objects written), all in terms of the callee's parameters; call sites substitute the
actual arguments.  Structured abstract interpretation (join at branches, fixpoint at
loops); implicit exceptions are not paths.
"""
from __future__ import annotations

import ast
from dataclasses import dataclass, field
from typing import Dict, FrozenSet, List, Optional, Set, Tuple

from . import externals as X
from .model import AnalysisError, Class, Func, Module, Program, norm_key

MAXPATH = 5
ELEM = "[]"
SHALLOW_OF = "<shallow-copy-of>"


# ----------------------------------------------------------------------------- values
class AV:
    """Abstract value."""
    __slots__ = ("origins", "items", "funcs", "types", "scalar", "ext", "lits", "dictlit")

    def __init__(self, origins=(), items=None, funcs=(), types=(), scalar=False, ext=False,
                 lits=(), dictlit=None):
        self.origins: FrozenSet[tuple] = frozenset(origins)
        self.items: Optional[Tuple["AV", ...]] = items
        self.funcs: FrozenSet[object] = frozenset(funcs)
        self.types: FrozenSet[str] = frozenset(types)
        self.scalar: bool = scalar
        self.ext: bool = ext
        self.lits: FrozenSet[object] = frozenset(lits)
        self.dictlit = dictlit       # (ast.Dict node, Module) for module-level dict literals

    def key(self):
        return (self.origins, tuple(i.key() for i in self.items) if self.items is not None else None,
                frozenset(id(f) if not isinstance(f, tuple) else f for f in self.funcs),
                self.types, self.scalar, self.ext, self.lits,
                id(self.dictlit[0]) if self.dictlit else None)

    def __eq__(self, other):
        return isinstance(other, AV) and self.key() == other.key()

    def __hash__(self):
        return hash(self.key())

    def with_(self, **kw) -> "AV":
        d = dict(origins=self.origins, items=self.items, funcs=self.funcs, types=self.types,
                 scalar=self.scalar, ext=self.ext, lits=self.lits, dictlit=self.dictlit)
        d.update(kw)
        return AV(**d)

    def is_bottom(self):
        return not (self.origins or self.items is not None or self.funcs or self.scalar or self.ext
                    or self.dictlit or self.types or self.lits)

    def __repr__(self):
        bits = []
        if self.origins:
            bits.append("{" + ",".join(fmt_origin(o) for o in sorted(self.origins, key=str)) + "}")
        if self.items is not None:
            bits.append("(" + ", ".join(map(repr, self.items)) + ")")
        if self.funcs:
            bits.append("funcs=" + ",".join(sorted(getattr(f, "qualname", str(f)) for f in self.funcs)))
        if self.types:
            bits.append("types=" + ",".join(sorted(self.types)))
        if self.scalar:
            bits.append("scalar")
        if self.ext:
            bits.append("ext")
        if self.lits:
            bits.append("lits=" + ",".join(map(repr, sorted(self.lits, key=repr))))
        return "AV[" + " ".join(bits) + "]"


BOTTOM = AV()
SCALAR = AV(scalar=True)
UNKNOWN = AV(origins=[("U",)])


def fmt_origin(o) -> str:
    if o[0] == "P":
        return f"param#{o[1]}" + "".join("." + s if s not in (ELEM,) else "[]" for s in o[2])
    if o[0] == "G":
        return f"global:{o[1]}" + "".join("." + s if s not in (ELEM,) else "[]" for s in o[2])
    if o[0] == "F":
        return f"fresh@{o[1]}"
    return "unknown"


def join(a: AV, b: AV) -> AV:
    if a is b:
        return a
    if a.is_bottom():
        return b
    if b.is_bottom():
        return a
    items = None
    origins = a.origins | b.origins
    if a.items is not None and b.items is not None and len(a.items) == len(b.items):
        items = tuple(join(x, y) for x, y in zip(a.items, b.items))
    elif (a.items is not None and _pure_scalar(b)) or (b.items is not None and _pure_scalar(a)):
        items = a.items if a.items is not None else b.items
    elif a.items is not None or b.items is not None:
        # arity disagreement: collapse tuple items into an anonymous container
        items = None
        coll = BOTTOM
        for t in (a.items or ()) + (b.items or ()):
            coll = join(coll, t)
        origins = origins | coll.origins
        return AV(origins, None, a.funcs | b.funcs | coll.funcs, a.types | b.types | coll.types,
                  a.scalar or b.scalar or coll.scalar, a.ext or b.ext or coll.ext,
                  a.lits | b.lits | coll.lits, a.dictlit or b.dictlit)
    return AV(origins, items, a.funcs | b.funcs, a.types | b.types, a.scalar or b.scalar,
              a.ext or b.ext, a.lits | b.lits, a.dictlit or b.dictlit)


def _pure_scalar(v: AV) -> bool:
    return v.items is None and not v.origins and not v.funcs and not v.ext and not v.dictlit and not v.types


def join_all(vals) -> AV:
    out = BOTTOM
    for v in vals:
        out = join(out, v)
    return out


def extend_origin(o: tuple, step: str) -> tuple:
    if o[0] == "P":
        p = o[2]
        if len(p) >= MAXPATH:
            return ("P", o[1], p[:MAXPATH - 1] + ("*",))
        return ("P", o[1], p + (step,))
    if o[0] == "G":
        p = o[2]
        if len(p) >= MAXPATH:
            return ("G", o[1], p[:MAXPATH - 1] + ("*",))
        return ("G", o[1], p + (step,))
    if o[0] == "F":
        return ("F", f"{o[1]}.{step}")
    return o


def is_local(o: tuple) -> bool:
    return o[0] == "F"


# ----------------------------------------------------------------------------- state
class State:
    """env: name -> AV ; heap: (origin, step) -> (AV, strong)"""
    __slots__ = ("env", "heap")

    def __init__(self, env=None, heap=None):
        self.env: Dict[str, AV] = env if env is not None else {}
        self.heap: Dict[Tuple[tuple, str], Tuple[AV, bool]] = heap if heap is not None else {}

    def copy(self) -> "State":
        return State(dict(self.env), dict(self.heap))

    def key(self):
        return (tuple(sorted((k, v.key()) for k, v in self.env.items())),
                tuple(sorted(((str(k), (v[0].key(), v[1])) for k, v in self.heap.items()))))


def join_state(a: Optional[State], b: Optional[State]) -> Optional[State]:
    if a is None:
        return b
    if b is None:
        return a
    env = {}
    for k in set(a.env) | set(b.env):
        if k in a.env and k in b.env:
            env[k] = join(a.env[k], b.env[k])
        else:
            env[k] = a.env.get(k) or b.env.get(k)
    heap = {}
    for k in set(a.heap) | set(b.heap):
        if k in a.heap and k in b.heap:
            heap[k] = (join(a.heap[k][0], b.heap[k][0]), a.heap[k][1] and b.heap[k][1])
        else:
            v = a.heap.get(k) or b.heap.get(k)
            heap[k] = (v[0], False)       # written on one path only: initial value may survive
    return State(env, heap)


# ----------------------------------------------------------------------------- effects
@dataclass(frozen=True)
class Step:
    func: str
    loc: str
    text: str

    def __str__(self):
        return f"{self.loc} [{self.func}] {self.text}"


@dataclass
class Effect:
    origin: tuple
    kind: str          # attr-store | elem-store | inplace | call-mutator | del
    fld: Optional[str]
    chain: Tuple[Step, ...]

    def ident(self):
        return (self.origin, self.kind, self.fld)

    @property
    def site(self) -> Step:
        return self.chain[-1]


@dataclass
class Summary:
    func: Func
    effects: List[Effect] = field(default_factory=list)
    ret: AV = BOTTOM
    heap: Dict[Tuple[tuple, str], Tuple[AV, bool]] = field(default_factory=dict)
    may_fall_through: bool = False


# ----------------------------------------------------------------------------- engine
class Effects:
    def __init__(self, prog: Program):
        self.prog = prog
        self.summaries: Dict[str, Summary] = {}
        self._active: Set[str] = set()
        self.assumed_pure: Dict[str, int] = {}      # external callable -> count of calls with tracked args
        self.unresolved: List[str] = []
        self.cha_calls: Dict[str, List[str]] = {}   # call text -> resolved methods (CHA by name)
        self.calls_resolved = 0
        self.call_edges: Set[Tuple[str, str]] = set()
        self._global_cache: Dict[Tuple[str, str], AV] = {}
        self._default_cache: Dict[Tuple[str, str], AV] = {}

    # ------------------------------------------------------------- summaries
    def summary(self, f: Func) -> Summary:
        s = self.summaries.get(f.qualname)
        if s is not None:
            return s
        if f.qualname in self._active:       # recursion (none in this package): conservative
            return Summary(f, [], UNKNOWN, {})
        self._active.add(f.qualname)
        try:
            interp = _Interp(self, f)
            s = interp.run()
        finally:
            self._active.discard(f.qualname)
        self.summaries[f.qualname] = s
        return s

    def default_value(self, f: Func, pname: str, node: ast.AST) -> AV:
        """Default arguments are evaluated once at definition time: module-level objects."""
        k = (f.qualname, pname)
        if k in self._default_cache:
            return self._default_cache[k]
        if isinstance(node, ast.Constant):
            v = AV(scalar=True, lits=[node.value] if isinstance(node.value, (str, int, float, bool, type(None))) else ())
        elif isinstance(node, ast.Tuple) and all(isinstance(e, ast.Constant) for e in node.elts):
            v = AV(items=tuple(SCALAR for _ in node.elts), scalar=False)
        elif isinstance(node, (ast.Name, ast.Attribute)) and not _is_mutable_display(node):
            # e.g. __version__ : immutable string constant
            v = SCALAR
        elif all(isinstance(n, (ast.Constant, ast.BinOp, ast.UnaryOp, ast.operator, ast.unaryop))
                 for n in ast.walk(node)):
            v = SCALAR
        else:
            v = AV(origins=[("G", f"<default {f.qualname}({pname})>", ())])
        self._default_cache[k] = v
        return v


def _is_mutable_display(node) -> bool:
    return isinstance(node, (ast.List, ast.Dict, ast.Set, ast.Call, ast.ListComp, ast.DictComp))


class _LoopCtx:
    def __init__(self):
        self.breaks: Optional[State] = None
        self.continues: Optional[State] = None


class _Interp:
    def __init__(self, eng: Effects, f: Func, closure: Optional[State] = None,
                 outer: Optional["_Interp"] = None):
        self.eng = eng
        self.prog = eng.prog
        self.f = f
        self.mod: Module = f.module
        self.closure = closure
        self.outer = outer
        self.effects: Dict[tuple, Effect] = {}
        self.returns: List[Tuple[AV, State]] = []
        self.yields: List[AV] = []          # values handed out by `yield` (a generator function returns a sequence of them)
        self.loops: List[_LoopCtx] = []
        self.site_counter = 0
        self.fell_through = False

    # ------------------------------------------------------------------ run
    def run(self, bound: Optional[Dict[str, AV]] = None) -> Summary:
        st = State()
        f = self.f
        params = f.params
        for i, p in enumerate(params):
            v = AV(origins=[("P", i, ())])
            if i == 0 and f.cls is not None and f.kind in ("method", "property"):
                v = v.with_(types=[c.name for c in self.prog.subclasses(f.cls)])
            if i == 0 and f.cls is not None and f.kind == "classmethod":
                v = AV(funcs=[("class", c) for c in self.prog.subclasses(f.cls)])
            st.env[p] = v
        n = len(params)
        for j, p in enumerate(f.kwonly):
            st.env[p] = AV(origins=[("P", n + j, ())])
        if f.vararg:
            st.env[f.vararg] = AV(origins=[("P", n + len(f.kwonly), ())])
        if f.kwarg:
            st.env[f.kwarg] = AV(origins=[("P", n + len(f.kwonly) + 1, ())])
        if bound:
            st.env.update(bound)
        out = self.block(f.body, st)
        final = out
        if out is not None:
            self.fell_through = True
            self.returns.append((AV(scalar=True, lits=[None]), out))
        ret = BOTTOM
        heap_state = None
        for (v, s) in self.returns:
            ret = join(ret, v)
            heap_state = join_state(heap_state, s)
        heap = heap_state.heap if heap_state else {}
        if self.yields:
            # a generator: what the caller iterates over is a fresh sequence of the yielded values (the body is summarised as if it
            # ran to completion when the generator is created - effects are attributed to the call, which over-approximates laziness)
            gen_origin = ("F", self.site(f.node, "gen"))
            ev = BOTTOM
            for v in self.yields:
                ev = join(ev, v)
            heap = dict(heap)
            heap[(gen_origin, ELEM)] = (ev, False)
            ret = AV(origins=[gen_origin])
        return Summary(f, list(self.effects.values()), ret, heap, self.fell_through)

    # ------------------------------------------------------------- utilities
    def site(self, node: ast.AST, tag: str = "") -> str:
        return f"{self.f.qualname}:{getattr(node, 'lineno', 0)}:{getattr(node, 'col_offset', 0)}{tag}"

    def step(self, node: ast.AST) -> Step:
        from .model import enclosing_stmt
        st = enclosing_stmt(node) or node
        return Step(self.f.qualname, self.f.loc(node), norm_key(st, 110))

    def record(self, origin: tuple, kind: str, fld: Optional[str], node: ast.AST,
               chain: Optional[Tuple[Step, ...]] = None):
        if origin[0] == "F":
            return
        e = Effect(origin, kind, fld, chain if chain is not None else (self.step(node),))
        self.effects.setdefault(e.ident(), e)

    # ---- heap access
    def load_step(self, st: State, v: AV, step: str) -> AV:
        out = BOTTOM
        for o in v.origins:
            hv = st.heap.get((o, step))
            if hv is None and step != "*":
                hv_star = st.heap.get((o, "*"))
            else:
                hv_star = None
            if hv is not None:
                out = join(out, hv[0])
                if not hv[1] and not is_local(o):
                    out = join(out, AV(origins=[extend_origin(o, step)]))
                elif not hv[1] and is_local(o):
                    pass
            else:
                sh = st.heap.get((o, SHALLOW_OF)) if step != SHALLOW_OF else None
                if sh is not None:
                    # attribute of a shallow copy never written since: same object as in the source
                    out = join(out, self.load_step(st, sh[0], step))
                elif o[0] == "U":
                    out = join(out, UNKNOWN)
                elif is_local(o):
                    # field of a local object never written here: opaque sub-object, still local
                    out = join(out, AV(origins=[extend_origin(o, step)], ext=v.ext))
                else:
                    out = join(out, AV(origins=[extend_origin(o, step)]))
            if hv_star is not None:
                out = join(out, hv_star[0])
        return out

    def load_path(self, st: State, v: AV, path: Tuple[str, ...]) -> AV:
        cur = v
        for s in path:
            if s == ELEM:
                cur = self.elements(st, cur)
            else:
                # raw structural step: property dispatch already happened where the path was built
                nxt = BOTTOM
                if cur.origins:
                    nxt = self.load_step(st, AV(origins=cur.origins, ext=cur.ext), s)
                if cur.ext and not cur.origins:
                    nxt = join(nxt, AV(ext=True, scalar=True))
                cur = nxt
        return cur

    def store_step(self, st: State, target: AV, step: str, value: AV, node: ast.AST, kind: str):
        origins = [o for o in target.origins]
        strong = len(origins) == 1 and step not in ("*", ELEM)
        for o in origins:
            if o[0] == "U":
                continue
            key = (o, step)
            if strong:
                st.heap[key] = (value, True)
            else:
                old = st.heap.get(key)
                if old is None:
                    st.heap[key] = (value, False)
                else:
                    st.heap[key] = (join(old[0], value), old[1] and False)
            self.record(o, kind, None if step == ELEM else step, node)

    def elements(self, st: State, v: AV) -> AV:
        out = BOTTOM
        if v.items is not None:
            out = join_all(v.items)
        if v.dictlit is not None:
            out = join(out, self.dictlit_values(v))
        if v.origins:
            out = join(out, self.load_step(st, v, ELEM))
        if v.scalar and not v.origins and v.items is None:
            out = join(out, SCALAR)       # iterating a string / range
        if v.ext:
            out = join(out, AV(ext=True, scalar=True))
        return out

    def dictlit_values(self, v: AV) -> AV:
        node, mod = v.dictlit
        out = BOTTOM
        sub = _Interp(self.eng, Func(f"{mod.name}.<module>", "<module>", mod, ast.Lambda(
            args=ast.arguments(posonlyargs=[], args=[], kwonlyargs=[], kw_defaults=[], defaults=[]),
            body=ast.Constant(value=None)), kind="lambda"))
        st = State()
        for val in node.values:
            out = join(out, sub.expr(val, st))
        return out

    # ---- attribute load (with property dispatch)
    def _class_level_mutable(self, v: AV, attr: str) -> Optional[str]:
        memo = self.eng.__dict__.setdefault("_clm_attrs", None)
        if memo is None:
            # names bound at class level to a mutable display anywhere in the package (usually none)
            memo = set()
            for c_ in self.prog.classes.values():
                for x_ in c_.node.body:
                    if isinstance(x_, (ast.Assign, ast.AnnAssign)):
                        for t_ in (x_.targets if isinstance(x_, ast.Assign) else [x_.target]):
                            if isinstance(t_, ast.Name):
                                memo.add(t_.id)
            self.eng._clm_attrs = memo
        if attr not in memo:
            return None
        names = list(v.types)
        if not names and v.origins and any(o[0] in ("P", "G", "U") for o in v.origins) and not v.ext:
            names = [c.name for c in self.prog.classes.values()]
        hit = None
        for t in names:
            c = self.prog.classes.get(t)
            seen = set()
            while c is not None and c.name not in seen:
                seen.add(c.name)
                for x in c.node.body:
                    if isinstance(x, (ast.Assign, ast.AnnAssign)):
                        tg = x.targets if isinstance(x, ast.Assign) else [x.target]
                        val = x.value
                        if any(isinstance(t_, ast.Name) and t_.id == attr for t_ in tg) and val is not None and (
                                isinstance(val, (ast.Dict, ast.List, ast.Set, ast.ListComp, ast.DictComp))
                                or (isinstance(val, ast.Call) and isinstance(val.func, ast.Name) and val.func.id in ("dict", "list", "set", "defaultdict", "OrderedDict"))):
                            # assigned on instances somewhere?  then it is an ordinary field with a class-level default
                            inst = any(isinstance(y, ast.Attribute) and y.attr == attr and isinstance(y.ctx, ast.Store) and isinstance(y.value, ast.Name) and y.value.id == "self"
                                       for m_ in c.methods.values() for y in ast.walk(m_.node))
                            if not inst:
                                hit = f"{c.module.name}.{c.name}.{attr}"
                c = self.prog.classes.get(c.bases[0]) if c.bases else None
        return hit

    def load_attr(self, st: State, v: AV, attr: str, node: Optional[ast.AST]) -> AV:
        out = BOTTOM
        if v.items is not None or v.scalar and not v.origins and not v.ext and not v.funcs:
            pass
        # class / module attribute access through funcs (e.g. HvsrCurve._find_peak_bounded)
        for fn in v.funcs:
            if isinstance(fn, tuple) and fn[0] == "class":
                m = fn[1].find_method(attr)
                if m is not None:
                    out = join(out, AV(funcs=[("bound", m, None)] if m.kind in ("staticmethod",) else
                                       [("clsbound", m, fn[1])] if m.kind == "classmethod" else [m]))
        props: List[Func] = []
        if v.types:
            for t in v.types:
                c = self.prog.classes.get(t)
                if c is not None:
                    m = c.find_method(attr)
                    if m is not None and m.kind == "property" and m not in props:
                        props.append(m)
        elif v.origins and not v.ext and any(o[0] in ("P", "G", "U") for o in v.origins):
            for m in self.prog.methods_named(attr):
                if m.kind == "property" and m not in props:
                    props.append(m)
        plain_needed = True
        if v.types and props:
            # every typed class resolves this name to a property?
            plain_needed = False
            for t in v.types:
                c = self.prog.classes.get(t)
                m = c.find_method(attr) if c else None
                if m is None or m.kind != "property":
                    plain_needed = True
        for p in props:
            out = join(out, self.apply_summary(st, p, [v], {}, node or p.node, self_types=v.types))
        # a class-level attribute bound to a mutable display (`_cache = {}` in the class body) and never assigned on the instance is
        # one object shared by every instance: module-level state reached through `self`
        shared_cls = self._class_level_mutable(v, attr)
        if shared_cls is not None:
            return join(out, AV(origins=[("G", shared_cls, ())]))
        if v.origins and plain_needed:
            if attr in X.ALIAS_ATTRS and not v.types:
                out = join(out, v.with_(items=None, funcs=(), lits=()))
            out = join(out, self.load_step(st, AV(origins=v.origins, ext=v.ext), attr))
        if v.ext and not v.origins:
            out = join(out, AV(ext=True, scalar=True))
        return out

    # ------------------------------------------------------------ statements
    def block(self, stmts, st: Optional[State]) -> Optional[State]:
        for s in stmts:
            if st is None:
                return None
            st = self.stmt(s, st)
        return st

    def stmt(self, s: ast.stmt, st: State) -> Optional[State]:
        if isinstance(s, ast.Expr):
            self.expr(s.value, st)
            return st
        if isinstance(s, ast.Assign):
            v = self.expr(s.value, st)
            for t in s.targets:
                self.assign(t, v, st, s)
            return st
        if isinstance(s, ast.AnnAssign):
            if s.value is not None:
                self.assign(s.target, self.expr(s.value, st), st, s)
            return st
        if isinstance(s, ast.AugAssign):
            return self.augassign(s, st)
        if isinstance(s, ast.Return):
            v = self.expr(s.value, st) if s.value is not None else AV(scalar=True, lits=[None])
            self.returns.append((v, st))
            return None
        if isinstance(s, ast.Raise):
            if s.exc is not None:
                self.expr(s.exc, st)
            return None
        if isinstance(s, ast.If):
            self.expr(s.test, st)
            st_t, st_f = self.narrow(s.test, st)
            a = self.block(s.body, st_t)
            b = self.block(s.orelse, st_f) if s.orelse else st_f
            return join_state(a, b)
        if isinstance(s, (ast.For, ast.AsyncFor)):
            return self.for_(s, st)
        if isinstance(s, ast.While):
            return self.while_(s, st)
        if isinstance(s, (ast.With, ast.AsyncWith)):
            for item in s.items:
                v = self.expr(item.context_expr, st)
                if item.optional_vars is not None:
                    self.assign(item.optional_vars, v, st, s)
            return self.block(s.body, st)
        if isinstance(s, ast.Try):
            before = st.copy()
            body_out = self.block(s.body, st)
            else_out = self.block(s.orelse, body_out) if (s.orelse and body_out is not None) else body_out
            hin = join_state(before, body_out)
            outs = else_out
            for h in s.handlers:
                hst = hin.copy() if hin is not None else None
                if hst is not None and h.name:
                    hst.env[h.name] = AV(ext=True)
                outs = join_state(outs, self.block(h.body, hst))
            if s.finalbody:
                outs = self.block(s.finalbody, outs if outs is not None else hin)
            return outs
        if isinstance(s, ast.Break):
            if self.loops:
                self.loops[-1].breaks = join_state(self.loops[-1].breaks, st)
            return None
        if isinstance(s, ast.Continue):
            if self.loops:
                self.loops[-1].continues = join_state(self.loops[-1].continues, st)
            return None
        if isinstance(s, ast.Delete):
            for t in s.targets:
                if isinstance(t, ast.Name):
                    st.env.pop(t.id, None)
                elif isinstance(t, ast.Subscript):
                    base = self.expr(t.value, st)
                    for o in base.origins:
                        self.record(o, "del", None, s)
                elif isinstance(t, ast.Attribute):
                    base = self.expr(t.value, st)
                    for o in base.origins:
                        self.record(o, "del", t.attr, s)
            return st
        if isinstance(s, (ast.FunctionDef, ast.AsyncFunctionDef)):
            nf = self.prog.nested.get(id(s))
            if nf is not None:
                st.env[s.name] = AV(funcs=[nf])
            return st
        if isinstance(s, (ast.Pass, ast.Import, ast.ImportFrom, ast.Global, ast.Nonlocal, ast.Assert,
                          ast.ClassDef)):
            if isinstance(s, ast.Assert):
                self.expr(s.test, st)
            return st
        if isinstance(s, ast.Match):   # pragma: no cover - not used by the package
            out = None
            for c in s.cases:
                out = join_state(out, self.block(c.body, st.copy()))
            return out
        raise AnalysisError(f"effects: unsupported statement {type(s).__name__} at {self.f.loc(s)}")

    def for_(self, s: ast.For, st: State) -> Optional[State]:
        it = self.expr(s.iter, st)
        elem = self.iter_elements(st, it, s.iter)
        ctx = _LoopCtx()
        self.loops.append(ctx)
        cur = st
        exit_state = st.copy()       # zero iterations
        for _round in range(6):
            body_in = cur.copy()
            self.assign(s.target, elem, body_in, s)
            ctx.continues = None
            out = self.block(s.body, body_in)
            out = join_state(out, ctx.continues)
            nxt = join_state(cur, out)
            if nxt is None:
                break
            if nxt.key() == cur.key():
                cur = nxt
                break
            cur = nxt
        self.loops.pop()
        after = join_state(exit_state, cur)
        self._overwrite_all(s, st, cur, after, elem)
        if s.orelse:
            after = self.block(s.orelse, after)
        return join_state(after, ctx.breaks)

    def _overwrite_all(self, s: ast.For, before: State, cur: Optional[State], after: Optional[State], elem: AV):
        """`for k, v in D.items(): ...; D[k] = X` over a container created in this function, without break/continue and with
        the store at the top level of the body: every element of D is replaced, so afterwards D holds only X-values
        (a strong update; the element-wise weak update would keep the original values as well)."""
        if after is None or cur is None or s.orelse:
            return
        it = s.iter
        dname = kname = None
        if isinstance(it, ast.Call) and isinstance(it.func, ast.Attribute) and isinstance(it.func.value, ast.Name) and not it.args:
            if it.func.attr == "items" and isinstance(s.target, ast.Tuple) and len(s.target.elts) == 2 and isinstance(s.target.elts[0], ast.Name):
                dname, kname = it.func.value.id, s.target.elts[0].id
            elif it.func.attr == "keys" and isinstance(s.target, ast.Name):
                dname, kname = it.func.value.id, s.target.id
        elif isinstance(it, ast.Name) and isinstance(s.target, ast.Name):
            dname, kname = it.id, s.target.id
        if dname is None or any(isinstance(x, (ast.Break, ast.Continue)) for b in s.body for x in ast.walk(b)):
            return
        stores = [b for b in s.body if isinstance(b, ast.Assign) and len(b.targets) == 1 and isinstance(b.targets[0], ast.Subscript)
                  and isinstance(b.targets[0].value, ast.Name) and b.targets[0].value.id == dname
                  and isinstance(b.targets[0].slice, ast.Name) and b.targets[0].slice.id == kname]
        if len(stores) != 1:
            return
        # the key variable must not be rebound before the store
        upto = s.body[:s.body.index(stores[0])]
        if any(isinstance(n, ast.Name) and n.id in (kname, dname) and isinstance(n.ctx, ast.Store) for b in upto for n in ast.walk(b)):
            return
        dav = before.env.get(dname)
        if dav is None or len(dav.origins) != 1 or next(iter(dav.origins))[0] != "F":
            return
        o = next(iter(dav.origins))
        probe = cur.copy()
        self.assign(s.target, elem, probe, s)
        out = self.block(upto, probe)
        if out is None:
            return
        xv = self.expr(stores[0].value, out)
        after.heap[(o, ELEM)] = (xv, False)

    def while_(self, s: ast.While, st: State) -> Optional[State]:
        ctx = _LoopCtx()
        self.loops.append(ctx)
        cur = st
        for _round in range(6):
            self.expr(s.test, cur)
            body_in = cur.copy()
            ctx.continues = None
            out = self.block(s.body, body_in)
            out = join_state(out, ctx.continues)
            nxt = join_state(cur, out)
            if nxt.key() == cur.key():
                cur = nxt
                break
            cur = nxt
        self.loops.pop()
        is_true = isinstance(s.test, ast.Constant) and bool(s.test.value)
        after = None if is_true else cur
        if s.orelse and after is not None:
            after = self.block(s.orelse, after)
        return join_state(after, ctx.breaks)

    def iter_elements(self, st: State, it: AV, node: ast.AST) -> AV:
        return self.elements(st, it)

    def narrow(self, test: ast.AST, st: State) -> Tuple[State, State]:
        """isinstance(name, C) / name is None narrowing for package classes."""
        t, f = st, st.copy()
        neg = False
        node = test
        if isinstance(node, ast.UnaryOp) and isinstance(node.op, ast.Not):
            neg, node = True, node.operand
        if (isinstance(node, ast.Call) and isinstance(node.func, ast.Name) and node.func.id == "isinstance"
                and len(node.args) == 2 and isinstance(node.args[0], ast.Name)):
            name = node.args[0].id
            classes = []
            cands = node.args[1].elts if isinstance(node.args[1], ast.Tuple) else [node.args[1]]
            all_pkg = True
            for c in cands:
                r = self.prog.resolve_name(self.mod, c.id) if isinstance(c, ast.Name) else None
                if r and r[0] == "class":
                    classes += [x.name for x in self.prog.subclasses(r[1])]
                else:
                    all_pkg = False
            if classes and all_pkg and name in st.env:
                target = f if neg else t
                target.env[name] = target.env[name].with_(types=classes)
        return t, f

    # ----------------------------------------------------------- assignment
    def assign(self, target: ast.AST, v: AV, st: State, node: ast.AST):
        if isinstance(target, ast.Name):
            st.env[target.id] = v
            gl = getattr(self, "_global_names", None)
            if gl is None:
                gl = self._global_names = {nm for x in ast.walk(self.f.node) if isinstance(x, ast.Global) for nm in x.names}
            if target.id in gl:
                # `global X; X = ...` rebinds module-level state
                self.record(("G", f"{self.f.module.name}.{target.id}", ()), "rebind", None, node)
        elif isinstance(target, (ast.Tuple, ast.List)):
            n = len(target.elts)
            if v.items is not None and len(v.items) == n and not any(isinstance(e, ast.Starred) for e in target.elts):
                for e, iv in zip(target.elts, v.items):
                    self.assign(e, iv, st, node)
            else:
                ev = self.elements(st, v)
                for e in target.elts:
                    if isinstance(e, ast.Starred):
                        self.assign(e.value, AV(origins=[("F", self.site(e, "*"))]), st, node)
                        st.heap[(("F", self.site(e, "*")), ELEM)] = (ev, False)
                    else:
                        self.assign(e, ev, st, node)
        elif isinstance(target, ast.Attribute):
            base = self.expr(target.value, st)
            self.store_step(st, base, target.attr, v, node, "attr-store")
        elif isinstance(target, ast.Subscript):
            base = self.expr(target.value, st)
            self.expr(target.slice, st)
            self.store_elem(st, base, v, node)
        elif isinstance(target, ast.Starred):
            self.assign(target.value, v, st, node)
        else:
            raise AnalysisError(f"effects: unsupported assignment target at {self.f.loc(node)}")

    def store_elem(self, st: State, base: AV, v: AV, node: ast.AST):
        for o in base.origins:
            if o[0] == "U":
                continue
            key = (o, ELEM)
            old = st.heap.get(key)
            st.heap[key] = (join(old[0], v), False) if old else (v, False)
            self.record(o, "elem-store", None, node)

    def augassign(self, s: ast.AugAssign, st: State) -> State:
        rhs = self.expr(s.value, st)
        t = s.target
        if isinstance(t, ast.Name):
            cur = st.env.get(t.id, BOTTOM)
            for o in cur.origins:
                self.record(o, "inplace", None, s)
            if not cur.origins:
                st.env[t.id] = join(cur, SCALAR)
        elif isinstance(t, ast.Attribute):
            base = self.expr(t.value, st)
            cur = self.load_attr(st, base, t.attr, t)
            for o in cur.origins:
                self.record(o, "inplace", None, s)
            for o in base.origins:
                self.record(o, "attr-store", t.attr, s)
        elif isinstance(t, ast.Subscript):
            base = self.expr(t.value, st)
            self.expr(t.slice, st)
            for o in base.origins:
                self.record(o, "elem-store", None, s)
        return st

    # ----------------------------------------------------------- expressions
    def expr(self, e: ast.AST, st: State) -> AV:
        m = getattr(self, "e_" + type(e).__name__, None)
        if m is None:
            raise AnalysisError(f"effects: unsupported expression {type(e).__name__} at {self.f.loc(e)}")
        return m(e, st)

    def e_Constant(self, e, st):
        if isinstance(e.value, (str, int, float, bool, type(None))):
            return AV(scalar=True, lits=[e.value])
        return SCALAR

    def e_JoinedStr(self, e, st):
        for v in e.values:
            if isinstance(v, ast.FormattedValue):
                self.expr(v.value, st)
        return SCALAR

    def e_FormattedValue(self, e, st):
        self.expr(e.value, st)
        return SCALAR

    def e_Name(self, e, st):
        return self.lookup(e.id, st, e)

    def lookup(self, name: str, st: State, node) -> AV:
        if name in st.env:
            return st.env[name]
        it = self
        while it.closure is not None:
            if name in it.closure.env:
                return it.closure.env[name]
            it = it.outer
            if it is None:
                break
        r = self.prog.resolve_name(self.mod, name)
        if r is not None:
            return self.global_value(r, name)
        if name in ("True", "False", "None"):
            return SCALAR
        return AV(funcs=[("builtin", name)])

    def global_value(self, r, name: str) -> AV:
        kind, payload = r
        if kind == "func":
            return AV(funcs=[payload])
        if kind == "class":
            return AV(funcs=[("class", payload)])
        if kind == "ext":
            return AV(funcs=[("ext", payload)])
        if kind == "module_ext":
            return AV(funcs=[("extmod", payload)])
        if kind == "module_pkg":
            return AV(funcs=[("pkgmod", payload)])
        if kind == "const":
            node, mod = payload
            ck = (mod.name, name)
            if ck in self.eng._global_cache:
                return self.eng._global_cache[ck]
            if isinstance(node, ast.Constant):
                v = self.e_Constant(node, None)
            elif isinstance(node, ast.Dict):
                v = AV(origins=[("G", f"{mod.name}.{name}", ())], dictlit=(node, mod))
            elif isinstance(node, (ast.List, ast.Set, ast.ListComp, ast.DictComp)):
                v = AV(origins=[("G", f"{mod.name}.{name}", ())])
            elif isinstance(node, ast.Tuple):
                v = AV(origins=[("G", f"{mod.name}.{name}", ())])
            elif isinstance(node, ast.Call):
                # e.g. logger = logging.getLogger(__name__); compiled regexes
                v = AV(ext=True, origins=[("G", f"{mod.name}.{name}", ())])
            else:
                v = AV(scalar=True, ext=True)
            self.eng._global_cache[ck] = v
            return v
        return UNKNOWN

    def e_Attribute(self, e, st):
        base = self.expr(e.value, st)
        # module attribute
        for fn in base.funcs:
            if isinstance(fn, tuple) and fn[0] == "extmod":
                return AV(funcs=[("ext", f"{fn[1]}.{e.attr}")])
            if isinstance(fn, tuple) and fn[0] == "ext":
                # attribute of an external object (np.fft.rfft, np.random.default_rng ...)
                return AV(funcs=[("ext", f"{fn[1]}.{e.attr}")])
            if isinstance(fn, tuple) and fn[0] == "pkgmod":
                r = self.prog.resolve_pkg_attr(fn[1], e.attr)
                if r is not None:
                    return self.global_value(r, e.attr)
                return UNKNOWN
        return self.load_attr(st, base, e.attr, e)

    def e_Subscript(self, e, st):
        base = self.expr(e.value, st)
        idx = self.expr(e.slice, st)
        out = BOTTOM
        if base.items is not None:
            if isinstance(e.slice, ast.Constant) and isinstance(e.slice.value, int) \
                    and -len(base.items) <= e.slice.value < len(base.items):
                out = join(out, base.items[e.slice.value])
            else:
                out = join(out, join_all(base.items))
        if base.dictlit is not None:
            node, mod = base.dictlit
            vals = None
            if idx.lits and not idx.origins:
                vals = [v for k, v in zip(node.keys, node.values)
                        if isinstance(k, ast.Constant) and k.value in idx.lits]
            if not vals:
                vals = list(node.values)
            sub = _Interp(self.eng, Func(f"{mod.name}.<module>", "<module>", mod, ast.Lambda(
                args=ast.arguments(posonlyargs=[], args=[], kwonlyargs=[], kw_defaults=[], defaults=[]),
                body=ast.Constant(value=None)), kind="lambda"))
            gname = next(iter(base.origins))[1] if base.origins else "?"
            for v in vals:
                if isinstance(v, ast.Dict):
                    out = join(out, AV(origins=[("G", gname, (ELEM,))], dictlit=(v, mod)))
                else:
                    vv = sub.expr(v, State())
                    if vv.funcs and not vv.origins:
                        out = join(out, vv)
                    else:
                        out = join(out, join(vv.with_(origins=()), AV(origins=[("G", gname, (ELEM,))])))
            return out
        if base.origins:
            el = self.load_step(st, AV(origins=base.origins, ext=base.ext), ELEM)
            out = join(out, el)
            if isinstance(e.slice, ast.Slice) or (isinstance(e.slice, ast.Tuple) and any(
                    isinstance(x, ast.Slice) for x in e.slice.elts)):
                # a slice of a list is a new list with the same elements; of an ndarray, a view
                out = join(out, AV(origins=base.origins, ext=base.ext, types=()))
        if base.ext and not base.origins:
            out = join(out, AV(ext=True, scalar=True))
        if base.scalar and out.is_bottom():
            out = SCALAR
        return out

    def e_Slice(self, e, st):
        for x in (e.lower, e.upper, e.step):
            if x is not None:
                self.expr(x, st)
        return SCALAR

    def e_Starred(self, e, st):
        return self.expr(e.value, st)

    def e_Yield(self, e, st):
        self.yields.append(self.expr(e.value, st) if e.value is not None else AV(scalar=True, lits=[None]))
        return AV(scalar=True, lits=[None])

    def e_YieldFrom(self, e, st):
        self.yields.append(self.elements(st, self.expr(e.value, st)))
        return AV(scalar=True, lits=[None])

    def fresh_container(self, st: State, node, elems: AV, tag="") -> AV:
        s = ("F", self.site(node, tag))
        if not elems.is_bottom():
            st.heap[(s, ELEM)] = (elems, False)
        return AV(origins=[s])

    def e_List(self, e, st):
        ev = BOTTOM
        for x in e.elts:
            if isinstance(x, ast.Starred):
                ev = join(ev, self.elements(st, self.expr(x.value, st)))
            else:
                ev = join(ev, self.expr(x, st))
        return self.fresh_container(st, e, ev)

    e_Set = e_List

    def e_Tuple(self, e, st):
        if any(isinstance(x, ast.Starred) for x in e.elts):
            return self.e_List(e, st)
        return AV(items=tuple(self.expr(x, st) for x in e.elts))

    def e_Dict(self, e, st):
        ev = BOTTOM
        for k, v in zip(e.keys, e.values):
            if k is None:
                ev = join(ev, self.elements(st, self.expr(v, st)))
            else:
                self.expr(k, st)
                ev = join(ev, self.expr(v, st))
        return self.fresh_container(st, e, ev)

    def comp(self, e, st, elt_nodes):
        inner = st.copy()
        for g in e.generators:
            it = self.expr(g.iter, inner)
            self.assign(g.target, self.elements(inner, it), inner, e)
            for c in g.ifs:
                self.expr(c, inner)
        ev = join_all(self.expr(n, inner) for n in elt_nodes)
        # effects on the heap made inside the comprehension are kept (weakly)
        for k, v in inner.heap.items():
            if k not in st.heap:
                st.heap[k] = (v[0], False)
            else:
                st.heap[k] = (join(st.heap[k][0], v[0]), st.heap[k][1] and v[1])
        return self.fresh_container(st, e, ev)

    def e_ListComp(self, e, st):
        return self.comp(e, st, [e.elt])

    e_SetComp = e_ListComp
    e_GeneratorExp = e_ListComp

    def e_DictComp(self, e, st):
        return self.comp(e, st, [e.value])

    def e_BinOp(self, e, st):
        a = self.expr(e.left, st)
        b = self.expr(e.right, st)
        if isinstance(e.op, ast.Mult) and (isinstance(e.left, ast.List) or isinstance(e.right, ast.List)):
            # [x]*n : new list, same elements
            lst = a if isinstance(e.left, ast.List) else b
            return self.fresh_container(st, e, self.elements(st, lst), "rep")
        if isinstance(e.op, ast.Add) and (a.origins or b.origins) and not (a.scalar or b.scalar):
            # list + list keeps elements; ndarray + ndarray is fresh: keep element aliases conservatively
            ev = join(self.load_step(st, AV(origins=a.origins), ELEM) if a.origins else BOTTOM,
                      self.load_step(st, AV(origins=b.origins), ELEM) if b.origins else BOTTOM)
            # elements of arrays are numbers; only keep element aliases that are known containers
            keep = AV(origins=[o for o in ev.origins if o[0] == "F"])
            return self.fresh_container(st, e, keep, "add")
        return AV(origins=[("F", self.site(e, "op"))], scalar=(a.scalar or b.scalar or
                                                               (not a.origins and not b.origins)))

    def e_UnaryOp(self, e, st):
        v = self.expr(e.operand, st)
        if isinstance(e.op, ast.Not):
            return SCALAR
        return AV(origins=[("F", self.site(e, "un"))], scalar=v.scalar or not v.origins)

    def e_BoolOp(self, e, st):
        return join_all(self.expr(v, st) for v in e.values)

    def e_Compare(self, e, st):
        self.expr(e.left, st)
        for c in e.comparators:
            self.expr(c, st)
        return AV(origins=[("F", self.site(e, "cmp"))], scalar=True)

    def e_IfExp(self, e, st):
        self.expr(e.test, st)
        return join(self.expr(e.body, st), self.expr(e.orelse, st))

    def e_Lambda(self, e, st):
        f = self.prog.lambda_func(self.mod, e)
        return AV(funcs=[f])

    def e_NamedExpr(self, e, st):
        v = self.expr(e.value, st)
        self.assign(e.target, v, st, e)
        return v

    def e_Await(self, e, st):   # pragma: no cover
        return self.expr(e.value, st)

    # ------------------------------------------------------------------ calls
    def e_Call(self, e: ast.Call, st: State) -> AV:
        # evaluate arguments
        pos: List[AV] = []
        star_extra: Optional[AV] = None
        for a in e.args:
            if isinstance(a, ast.Starred):
                star_extra = join(star_extra or BOTTOM, self.elements(st, self.expr(a.value, st)))
            else:
                pos.append(self.expr(a, st))
        kw: Dict[str, AV] = {}
        kw_extra: Optional[AV] = None
        for k in e.keywords:
            if k.arg is None:
                kw_extra = join(kw_extra or BOTTOM, self.elements(st, self.expr(k.value, st)))
            else:
                kw[k.arg] = self.expr(k.value, st)

        # method call?
        if isinstance(e.func, ast.Attribute):
            recv = self.expr(e.func.value, st)
            mname = e.func.attr
            module_like = [fn for fn in recv.funcs if isinstance(fn, tuple) and fn[0] in ("extmod", "ext", "pkgmod")]
            class_like = [fn for fn in recv.funcs if isinstance(fn, tuple) and fn[0] == "class"]
            if mname == "__new__" and not class_like and pos and any(isinstance(g, tuple) and g[0] == "class" for g in pos[0].funcs):
                # object.__new__(Class) / super().__new__(Class)
                out = BOTTOM
                for g in pos[0].funcs:
                    if isinstance(g, tuple) and g[0] == "class":
                        out = join(out, AV(origins=[("F", self.site(e, f"new:{g[1].name}"))], types=[g[1].name]))
                return out
            if module_like:
                callee = self.e_Attribute(e.func, st)
                return self.call_value(e, st, callee, pos, kw, star_extra, kw_extra)
            if class_like:
                out = BOTTOM
                for fn in class_like:
                    m = fn[1].find_method(mname)
                    if m is None and mname == "__new__":
                        # Class.__new__(Class): a bare object of the class (of the class named by the first argument when it is one);
                        # its fields are whatever is stored into it afterwards
                        target = fn[1]
                        for a0 in pos[:1]:
                            for g in a0.funcs:
                                if isinstance(g, tuple) and g[0] == "class":
                                    target = g[1]
                        out = join(out, AV(origins=[("F", self.site(e, f"new:{target.name}"))], types=[target.name]))
                        continue
                    if m is None:
                        continue
                    if m.kind == "classmethod":
                        out = join(out, self.apply_summary(st, m, [AV(funcs=[fn])] + pos, kw, e, star_extra, kw_extra))
                    elif m.kind == "staticmethod":
                        out = join(out, self.apply_summary(st, m, pos, kw, e, star_extra, kw_extra))
                    else:
                        out = join(out, self.apply_summary(st, m, pos, kw, e, star_extra, kw_extra))
                self.eng.calls_resolved += 1
                return out
            return self.call_method(e, st, recv, mname, pos, kw, star_extra, kw_extra)
        callee = self.expr(e.func, st)
        return self.call_value(e, st, callee, pos, kw, star_extra, kw_extra)

    def call_value(self, e, st, callee: AV, pos, kw, star_extra, kw_extra) -> AV:
        out = BOTTOM
        if not callee.funcs:
            # calling an unknown value (callback parameter, ext object)
            self.eng.unresolved.append(f"{self.f.loc(e)} {norm_key(e, 80)}")
            return AV(ext=True, origins=[("F", self.site(e, "call"))])
        for fn in callee.funcs:
            out = join(out, self.call_one(e, st, fn, pos, kw, star_extra, kw_extra))
        return out

    def call_one(self, e, st, fn, pos, kw, star_extra, kw_extra) -> AV:
        if isinstance(fn, Func):
            self.eng.calls_resolved += 1
            if fn.kind in ("nested", "lambda") and fn.parent is not None and fn.parent is self.f:
                self.eng.call_edges.add((self.f.qualname, fn.qualname))
                sub = _Interp(self.eng, fn, closure=st, outer=self)
                s = sub.run()
                # nested function effects are expressed in the outer function's terms for closure
                # variables and in its own params otherwise: apply like a summary
                return self.apply_given(st, s, pos, kw, e, star_extra, kw_extra, inherit=True)
            if fn.kind == "method":
                return self.apply_summary(st, fn, pos, kw, e, star_extra, kw_extra)
            return self.apply_summary(st, fn, pos, kw, e, star_extra, kw_extra)
        if isinstance(fn, tuple):
            tag = fn[0]
            if tag == "class":
                return self.construct(e, st, fn[1], pos, kw, star_extra, kw_extra)
            if tag == "bound":
                self.eng.calls_resolved += 1
                return self.apply_summary(st, fn[1], pos, kw, e, star_extra, kw_extra)
            if tag == "clsbound":
                self.eng.calls_resolved += 1
                return self.apply_summary(st, fn[1], [AV(funcs=[("class", fn[2])])] + pos, kw, e, star_extra, kw_extra)
            if tag == "ext":
                return self.call_external(e, st, fn[1], pos, kw, star_extra, kw_extra)
            if tag == "builtin":
                return self.call_builtin(e, st, fn[1], pos, kw, star_extra, kw_extra)
            if tag in ("extmod", "pkgmod"):
                return AV(ext=True)
        return UNKNOWN

    # ---- constructors
    def construct(self, e, st, cls: Class, pos, kw, star_extra, kw_extra) -> AV:
        self.eng.calls_resolved += 1
        obj_origin = ("F", self.site(e, f"new:{cls.name}"))
        obj = AV(origins=[obj_origin], types=[cls.name])
        init = cls.find_method("__init__")
        if init is not None:
            self.apply_summary(st, init, [obj] + pos, kw, e, star_extra, kw_extra, ctor=True)
        return obj

    # ---- methods
    def call_method(self, e, st, recv: AV, mname: str, pos, kw, star_extra, kw_extra) -> AV:
        targets: List[Func] = []
        via = None
        if recv.types:
            for t in recv.types:
                c = self.prog.classes.get(t)
                m = c.find_method(mname) if c else None
                if m is not None and m not in targets:
                    targets.append(m)
            via = "type"
        elif (recv.origins and not recv.ext and any(o[0] in ("P", "G", "U") for o in recv.origins)) \
                or (recv.funcs and any(isinstance(f, Func) for f in recv.funcs)):
            for m in self.prog.methods_named(mname):
                if m.kind in ("method", "classmethod", "staticmethod") and self._kw_compatible(m, pos, kw):
                    targets.append(m)
            via = "cha"
        # super().__init__(...)
        if isinstance(e.func.value, ast.Call) and isinstance(e.func.value.func, ast.Name) \
                and e.func.value.func.id == "super" and self.f.cls is not None:
            targets = []
            for b in self.f.cls.mro()[1:]:
                if mname in b.methods:
                    targets = [b.methods[mname]]
                    break
            recv = st.env.get(self.f.params[0], recv) if self.f.params else recv
            if targets:
                self.eng.calls_resolved += 1
                return join_all(self.apply_summary(st, m, [recv] + pos, kw, e, star_extra, kw_extra,
                                                   ctor=(mname == "__init__")) for m in targets)
            return SCALAR
        out = BOTTOM
        if targets:
            self.eng.calls_resolved += 1
            if via == "cha":
                self.eng.cha_calls.setdefault(f"{self.f.loc(e)} {norm_key(e, 70)}", [m.qualname for m in targets])
            for m in targets:
                if m.kind == "staticmethod":
                    out = join(out, self.apply_summary(st, m, pos, kw, e, star_extra, kw_extra))
                elif m.kind == "classmethod":
                    out = join(out, self.apply_summary(st, m, [AV(funcs=[("class", m.cls)])] + pos, kw, e,
                                                       star_extra, kw_extra))
                else:
                    out = join(out, self.apply_summary(st, m, [recv] + pos, kw, e, star_extra, kw_extra))
            if via == "type":
                return out
        # external method semantics (also joined in for CHA receivers: the receiver may be a plain
        # container / ndarray / str)
        ext = self.external_method(e, st, recv, mname, pos, kw, star_extra, kw_extra,
                                   quiet=bool(targets))
        return join(out, ext)

    def _kw_compatible(self, m: Func, pos, kw) -> bool:
        names = set(m.params[1:] if m.kind in ("method", "classmethod") else m.params) | set(m.kwonly)
        if m.kwarg is None and any(k not in names for k in kw):
            return False
        npos = len(m.params) - (1 if m.kind in ("method", "classmethod") else 0)
        if m.vararg is None and len(pos) > npos:
            return False
        return True

    def external_method(self, e, st, recv: AV, mname: str, pos, kw, star_extra, kw_extra, quiet=False) -> AV:
        allargs = list(pos) + list(kw.values()) + ([star_extra] if star_extra else []) + ([kw_extra] if kw_extra else [])
        if mname in X.MUTATING_METHODS:
            for o in recv.origins:
                if quiet and o[0] != "F":
                    # receiver resolved to package methods by CHA; the container reading is only a
                    # possibility for untyped parameters: keep it (a list parameter that is appended
                    # to is a mutation of the caller's list)
                    pass
                self.record(o, "call-mutator", mname, e)
            if mname in X.ADD_ARG_AS_ELEM and allargs:
                for o in recv.origins:
                    key = (o, ELEM)
                    old = st.heap.get(key)
                    v = allargs[-1]
                    st.heap[key] = (join(old[0], v), False) if old else (v, False)
            if mname in X.ADD_ARG_ELEMS and allargs:
                for o in recv.origins:
                    key = (o, ELEM)
                    old = st.heap.get(key)
                    v = join_all(self.elements(st, a) for a in allargs)
                    st.heap[key] = (join(old[0], v), False) if old else (v, False)
            if mname == "setdefault" and len(pos) >= 2:
                for o in recv.origins:
                    key = (o, ELEM)
                    old = st.heap.get(key)
                    st.heap[key] = (join(old[0], pos[1]), False) if old else (pos[1], False)
        if mname in X.ELEM_RECV_METHODS:
            out = self.elements(st, recv)
            if mname in ("get", "setdefault", "pop") and len(pos) >= 2:
                out = join(out, pos[1])
            if recv.dictlit is not None:
                out = join(out, self.dictlit_values(recv))
            return join(out, SCALAR) if out.is_bottom() else out
        if mname in X.ALIAS_RECV_METHODS:
            return recv.with_(types=(), funcs=(), lits=())
        if mname in X.SHALLOW_RECV_METHODS:
            ev = self.elements(st, recv)
            if mname == "items":
                ev = AV(items=(SCALAR, ev))
            elif mname == "keys":
                ev = SCALAR
            return self.fresh_container(st, e, ev, mname)
        if mname in X.FRESH_RECV_METHODS:
            return AV(origins=[("F", self.site(e, mname))], scalar=True, ext=recv.ext)
        if mname in X.MUTATING_METHODS:
            return SCALAR
        # unknown external method: assumed pure
        if not quiet:
            tracked = [o for a in [recv] + allargs for o in a.origins if o[0] in ("P", "G")]
            if tracked:
                self.eng.assumed_pure[f".{mname}()"] = self.eng.assumed_pure.get(f".{mname}()", 0) + 1
        return AV(ext=True, origins=[("F", self.site(e, mname))], scalar=True)

    # ---- builtins / externals
    def call_builtin(self, e, st, name: str, pos, kw, star_extra, kw_extra) -> AV:
        if name == "getattr" and len(pos) >= 2:
            obj, nm = pos[0], pos[1]
            names = [l for l in nm.lits if isinstance(l, str)]
            if names and not nm.origins:
                out = join_all(self.load_attr(st, obj, n, e) for n in names)
            else:
                out = self.load_attr(st, obj, "*", e)
            if len(pos) >= 3:
                out = join(out, pos[2])
            return out
        if name == "setattr" and len(pos) >= 3:
            obj, nm, val = pos[0], pos[1], pos[2]
            names = [l for l in nm.lits if isinstance(l, str)]
            if names and not nm.origins:
                for n in names:
                    self.store_step(st, AV(origins=obj.origins), n, val, e,
                                    "attr-store") if len(names) == 1 else self._weak_store(st, obj, n, val, e)
            else:
                self._weak_store(st, obj, "*", val, e)
            return SCALAR
        if name == "super":
            return AV(ext=True)
        if name == "open":
            return AV(ext=True, origins=[("F", self.site(e, "open"))])
        return self.call_external(e, st, name, pos, kw, star_extra, kw_extra)

    def _weak_store(self, st, obj: AV, step: str, val: AV, node):
        for o in obj.origins:
            if o[0] == "U":
                continue
            key = (o, step)
            old = st.heap.get(key)
            st.heap[key] = (join(old[0], val), False) if old else (val, False)
            self.record(o, "attr-store", step, node)

    def call_external(self, e, st, dotted: str, pos, kw, star_extra, kw_extra) -> AV:
        allargs = list(pos) + list(kw.values()) + ([star_extra] if star_extra else []) + ([kw_extra] if kw_extra else [])
        if X.NUMPY_OUT_KW in kw:
            for o in kw[X.NUMPY_OUT_KW].origins:
                self.record(o, "inplace", None, e)
        copy_kw = next((k.value for k in e.keywords if k.arg == "copy"), None)
        if dotted.split(".")[-1] in ("nan_to_num", "clip", "put", "place", "putmask", "copyto", "fill_diagonal") and pos:
            # numpy functions that write their first argument: always (put / place / putmask / copyto / fill_diagonal) or when asked to
            # work in place (nan_to_num(x, copy=False))
            last = dotted.split(".")[-1]
            in_place = last in ("put", "place", "putmask", "copyto", "fill_diagonal") or \
                (last == "nan_to_num" and "copy" in kw and not (isinstance(copy_kw, ast.Constant) and copy_kw.value is True))
            if in_place:
                for o in pos[0].origins:
                    self.record(o, "inplace", None, e)
                if last == "nan_to_num":
                    return pos[0].with_(types=(), funcs=(), lits=())
        if dotted == "numpy.array" and "copy" in kw and not (isinstance(copy_kw, ast.Constant) and copy_kw.value is True):
            # np.array(x, copy=False) may alias
            return join(pos[0] if pos else BOTTOM, AV(origins=[("F", self.site(e, "array"))]))
        kind = X.classify_function(dotted)
        if kind == "fresh":
            return AV(origins=[("F", self.site(e, dotted.split('.')[-1]))], ext=True)
        if kind == "alias0":
            base = pos[0] if pos else BOTTOM
            return base.with_(types=(), funcs=(), lits=()) if not base.is_bottom() else AV(ext=True)
        if kind == "fresh_shallow":
            ev = self.elements(st, pos[0]) if pos else BOTTOM
            if dotted == "copy.copy" and pos:
                r = self.fresh_container(st, e, ev, dotted)
                for o in r.origins:
                    st.heap[(o, SHALLOW_OF)] = (AV(origins=pos[0].origins), True)
                return r.with_(types=pos[0].types)
            if dotted == "dict" and kw:
                ev = join(ev, join_all(kw.values()))
            if kw_extra:
                ev = join(ev, kw_extra)
            return self.fresh_container(st, e, ev, dotted)
        if kind == "iter":
            if dotted == "enumerate":
                ev = self.elements(st, pos[0]) if pos else BOTTOM
                return self.fresh_container(st, e, AV(items=(SCALAR, ev)), "enum")
            if dotted == "zip":
                parts = tuple(self.elements(st, a) for a in pos)
                if star_extra is not None:
                    return self.fresh_container(st, e, AV(origins=[("F", self.site(e, "zipt"))]), "zip")
                return self.fresh_container(st, e, AV(items=parts), "zip")
            if dotted == "itertools.repeat":
                return self.fresh_container(st, e, pos[0] if pos else BOTTOM, "repeat")
            if dotted in ("map", "filter"):
                if dotted == "filter" and len(pos) >= 2:
                    return self.fresh_container(st, e, self.elements(st, pos[1]), "filter")
                return self.fresh_container(st, e, AV(ext=True, scalar=True), "map")
            ev = self.elements(st, pos[0]) if pos else BOTTOM
            return self.fresh_container(st, e, ev, dotted)
        if kind == "elem0":
            if len(pos) == 1:
                ev = self.elements(st, pos[0])
                return join(ev, SCALAR)
            return join(join_all(pos), SCALAR)
        if kind == "scalar":
            return SCALAR
        # pure (unknown external)
        tracked = [o for a in allargs for o in a.origins if o[0] in ("P", "G")]
        if tracked:
            self.eng.assumed_pure[dotted] = self.eng.assumed_pure.get(dotted, 0) + 1
        return AV(ext=True, origins=[("F", self.site(e, dotted.split('.')[-1]))], scalar=True)

    # ---- summaries at call sites
    def bind(self, f: Func, pos: List[AV], kw: Dict[str, AV], star_extra, kw_extra) -> List[AV]:
        params = f.params
        n = len(params)
        slots: List[Optional[AV]] = [None] * (n + len(f.kwonly) + 2)
        for i, a in enumerate(pos):
            if i < n:
                slots[i] = a
            elif f.vararg:
                slots[n + len(f.kwonly)] = join(slots[n + len(f.kwonly)] or BOTTOM, a)
        names = params + f.kwonly
        for k, a in kw.items():
            if k in names:
                slots[names.index(k)] = a
            elif f.kwarg:
                slots[n + len(f.kwonly) + 1] = join(slots[n + len(f.kwonly) + 1] or BOTTOM, a)
        defaults = f.defaults()
        for i, nm in enumerate(names):
            if slots[i] is None:
                if star_extra is not None and i < n:
                    slots[i] = star_extra
                    if nm in defaults:
                        slots[i] = join(slots[i], self.eng.default_value(f, nm, defaults[nm]))
                elif kw_extra is not None:
                    slots[i] = kw_extra
                    if nm in defaults:
                        slots[i] = join(slots[i], self.eng.default_value(f, nm, defaults[nm]))
                elif nm in defaults:
                    slots[i] = self.eng.default_value(f, nm, defaults[nm])
                else:
                    slots[i] = UNKNOWN
        for j in (n + len(f.kwonly), n + len(f.kwonly) + 1):
            if slots[j] is None:
                slots[j] = BOTTOM
        return slots  # type: ignore[return-value]

    def apply_summary(self, st: State, f: Func, pos, kw, node, star_extra=None, kw_extra=None,
                      ctor=False, self_types=None) -> AV:
        self.eng.call_edges.add((self.f.qualname, f.qualname))
        s = self.eng.summary(f)
        return self.apply_given(st, s, pos, kw, node, star_extra, kw_extra, ctor=ctor)

    def apply_given(self, st: State, s: Summary, pos, kw, node, star_extra=None, kw_extra=None,
                    ctor=False, inherit=False) -> AV:
        f = s.func
        actual = self.bind(f, pos, kw, star_extra, kw_extra)
        call_step = self.step(node)
        prefix = f"{self.site(node)}>"
        memo: Dict[int, AV] = {}

        def tr_origin(o) -> AV:
            if o[0] == "P":
                if inherit and o[1] >= len(actual):
                    return AV(origins=[o])
                base = actual[o[1]] if o[1] < len(actual) else UNKNOWN
                return self.load_path(st, base, o[2])
            if o[0] == "F":
                return AV(origins=[("F", prefix + o[1])])
            return AV(origins=[o])

        def tr(v: AV) -> AV:
            k = id(v)
            if k in memo:
                return memo[k]
            out = AV(items=tuple(tr(i) for i in v.items) if v.items is not None else None,
                     funcs=v.funcs, types=v.types, scalar=v.scalar, ext=v.ext, lits=v.lits, dictlit=v.dictlit)
            for o in v.origins:
                t = tr_origin(o)
                # translated parameter values carry their own items/types: keep when single
                out = join(out, t)
            memo[k] = out
            return out

        # effects
        for ef in s.effects:
            if inherit and ef.origin[0] == "P" and ef.origin[1] >= len(actual):
                self.effects.setdefault(ef.ident(), ef)
                continue
            if ef.origin[0] == "P":
                base = actual[ef.origin[1]] if ef.origin[1] < len(actual) else UNKNOWN
                targets = self.load_path(st, base, ef.origin[2]).origins
            else:
                targets = [ef.origin]
            for o in targets:
                if o[0] in ("P", "G"):
                    self.record(o, ef.kind, ef.fld, node, chain=(call_step,) + ef.chain)
        # closure effects of nested functions are recorded directly in the outer interpreter
        # heap writes
        for (o, step), (val, strong) in s.heap.items():
            tv = tr(val)
            if o[0] == "P":
                if inherit and o[1] >= len(actual):
                    continue
                base = actual[o[1]] if o[1] < len(actual) else UNKNOWN
                tos = self.load_path(st, base, o[2]).origins
            elif o[0] == "F":
                tos = [("F", prefix + o[1])]
            else:
                tos = [o]
            single = len(tos) == 1
            for to in tos:
                if to[0] == "U":
                    continue
                key = (to, step)
                if strong and single and step not in (ELEM, "*"):
                    st.heap[key] = (tv, True)
                else:
                    old = st.heap.get(key)
                    if old is None:
                        # weak write: initial content may survive (unless constructing a new object)
                        st.heap[key] = (tv, ctor and to[0] == "F")
                    else:
                        st.heap[key] = (join(old[0], tv), False)
        return tr(s.ret)


# ----------------------------------------------------------------------------- queries
def deep_origins(eng: Effects, s: Summary, v: AV, path: Tuple[str, ...]) -> AV:
    """Follow ``path`` from value ``v`` inside the final heap of summary ``s``."""
    st = State(heap=dict(s.heap))
    it = _Interp(eng, s.func)
    return it.load_path(st, v, path)


def reachable_functions(eng: Effects, entry: Func) -> Set[str]:
    """Package functions reachable from ``entry`` through resolved calls (entry included)."""
    eng.summary(entry)
    out, work = {entry.qualname}, [entry.qualname]
    while work:
        q = work.pop()
        for (a, b) in eng.call_edges:
            if a == q and b not in out:
                out.add(b)
                work.append(b)
        # nested functions / lambdas run inside their parent
    return out


def effects_on(s: Summary, param_index: int) -> List[Effect]:
    return [e for e in s.effects if e.origin[0] == "P" and e.origin[1] == param_index]


def global_effects(s: Summary) -> List[Effect]:
    return [e for e in s.effects if e.origin[0] == "G"]
