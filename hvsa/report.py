"""Findings, evidence, known-findings and exit-code plumbing shared by all checks."""
from __future__ import annotations

import hashlib
import json
import os
import sys
import time
from dataclasses import dataclass, field
from pathlib import Path
from typing import Dict, List, Optional

from .model import AnalysisError

VERIF = Path(__file__).resolve().parent.parent
EVIDENCE_DIR = Path(os.environ.get("HVSA_EVIDENCE_DIR", str(VERIF / "evidence")))
REPLAY_DIR = Path(os.environ["HVSA_EVIDENCE_DIR"]) / "replays" if os.environ.get("HVSA_EVIDENCE_DIR") else VERIF / "replays"
KNOWN_FINDINGS = VERIF / "KNOWN_FINDINGS.txt"

MODEL_ASSUMPTIONS = [
    "The source parsed from the working tree is the source that runs (no import hooks; numba "
    "compiles the decorated kernels without changing their meaning while decorator options stay within {cache}).",
    "Library semantics are as tabulated in hvsa/externals.py (numpy copy/view rules, np.percentile, np.cov, "
    "scipy.signal.find_peaks returning interior local maxima, tukey, sosfiltfilt zero-phase, json float round trip, "
    "np.savetxt default %.18e).",
    "Implicit exceptions (KeyError, ZeroDivisionError, ...) and interpreter exits are not control-flow paths.",
    "Formula equality is over the reals; floating-point evaluation order is not modelled.",
    "Callers respect documented argument types; values users store directly into object attributes are outside the model.",
    "Static analysis decides the structural clauses listed in coverage.explanation, not the numeric behaviour itself.",
]


@dataclass
class Finding:
    prop: str
    rule: str
    func: str            # qualified function (or module) the construct lives in
    key: str             # normalised construct text
    msg: str
    loc: str = ""        # file:line (diagnostic only; never part of the identity)
    path: List[str] = field(default_factory=list)   # call path / CFG path, outermost first

    @property
    def ident(self) -> str:
        return f"{self.rule}:{self.func}:{self.key}"

    @property
    def digest(self) -> str:
        return hashlib.sha256(f"{self.prop}|{self.ident}".encode()).hexdigest()[:12]


@dataclass
class Instance:
    rule: str
    where: str
    what: str
    verdict: str            # "ok" | "violation" | "note"
    nontrivial: bool = True
    detail: Optional[str] = None


class Checker:
    """Collects rule instances, findings and notes for one property run."""

    def __init__(self, prop: str, tier: str, explanation: str, rules_text: Dict[str, str]):
        self.prop = prop
        self.tier = tier
        self.explanation = explanation
        self.rules_text = rules_text
        self.instances: List[Instance] = []
        self.findings: List[Finding] = []
        self.notes: List[str] = []
        self.errors: List[str] = []
        self.extra: Dict[str, object] = {}
        self.assumptions: List[str] = []
        self._remap = None
        self.t0 = time.time()
        self.seed = int(os.environ.get("VERIF_SEED", "0") or 0)

    # ------------------------------------------------------------ borrowing rules of another property
    def borrow(self, module, new_prefix: str):
        """Context manager: run rule functions of another property's module under this property's ids.
        A rule id ``Cxx.Ry`` recorded inside the block becomes ``<new_prefix>Cxx.Ry``."""
        ck = self

        class _Ctx:
            def __enter__(self_inner):
                self_inner.old = ck._remap
                ck._remap = (new_prefix, getattr(module, "RULES", {}))
                return ck

            def __exit__(self_inner, *a):
                ck._remap = self_inner.old
                return False
        return _Ctx()

    def _rule(self, rule: str) -> str:
        if self._remap is None or rule.startswith(self.prop + "."):
            return rule
        new_prefix, texts = self._remap
        new = new_prefix + rule
        if new not in self.rules_text:
            self.rules_text = dict(self.rules_text)
            self.rules_text[new] = "(shared rule) " + texts.get(rule, rule)
        return new

    # ------------------------------------------------------------ recording
    def ok(self, rule: str, where: str, what: str, nontrivial: bool = True, detail: Optional[str] = None):
        self.instances.append(Instance(self._rule(rule), where, what, "ok", nontrivial, detail))

    def violation(self, rule: str, func: str, key: str, msg: str, loc: str = "", path: Optional[List[str]] = None):
        rule = self._rule(rule)
        f = Finding(self.prop, rule, func, key, msg, loc, list(path or []))
        # de-duplicate on identity
        for g in self.findings:
            if g.ident == f.ident:
                return g
        self.findings.append(f)
        self.instances.append(Instance(rule, func, key, "violation", True, msg))
        return f

    def note(self, text: str):
        self.notes.append(text)

    def error(self, text: str):
        self.errors.append(text)

    def floor(self, rule: str, found: int, minimum: int, what: str):
        rule = self._rule(rule)
        """A rule that matches fewer sites than were confirmed by hand cannot pass vacuously."""
        if found < minimum:
            self.error(f"rule {rule}: found {found} {what}, need at least {minimum} "
                       f"(anchor vanished or idiom not recognised)")

    def guard(self, fn, *a, **k):
        """Run one sub-rule; an AnalysisError there is recorded (exit 2 unless a violation is found
        elsewhere) instead of aborting the remaining rules."""
        try:
            return fn(*a, **k)
        except AnalysisError as e:
            if self._remap is not None:
                # a rule shared from another property that cannot decide here: that property's own check answers exit 2 with this
                # reason; the borrowing property keeps its own verdict (the undecided shared rule is listed in the evidence)
                self.note(f"shared rule {self._remap[0]}* undecided here: {str(e)[:200]}")
                self.extra.setdefault("shared_rules_undecided", []).append(f"{self._remap[0]}: {str(e)[:300]}")
                return None
            self.error(str(e))
            return None
        except Exception as e:       # a defect of the machinery: undecided (exit 2), never a verdict; the other rules still run
            import os
            import traceback
            if os.environ.get("HVSA_TRACE"):
                traceback.print_exc(file=sys.stdout)
            tb = traceback.extract_tb(e.__traceback__)[-1]
            self.error(f"internal error {type(e).__name__}: {e} ({tb.filename.split('/')[-1]}:{tb.lineno})")
            return None

    def count(self, rule: str) -> int:
        return sum(1 for i in self.instances if i.rule == rule)

    # -------------------------------------------------------------- finish
    def finish(self) -> int:
        known = load_known_findings().get(self.prop, {})
        new, listed = [], []
        for f in self.findings:
            (listed if f.ident in known else new).append(f)

        for n in self.notes:
            print(f"NOTE property={self.prop} {n}")
        for f in listed:
            print(f"KNOWN-FINDING: property={self.prop} {f.ident} -- {f.msg}")
        replay_paths = []
        for f in new:
            print(f"{f.loc or '?'} {f.rule} [{f.func}] {f.key} -- {f.msg}")
            for step in f.path:
                print(f"    via {step}")
            rp = self._write_replay(f)
            replay_paths.append(rp)
            print(f"VIOLATION property={self.prop} replay={rp}")

        status = 0
        if new:
            status = 1
        elif self.errors:
            status = 2
        for e in self.errors:
            print(f"ANALYSIS-ERROR property={self.prop} {e}")

        self._write_evidence(len(new), len(listed))
        n_ok = sum(1 for i in self.instances if i.verdict == "ok")
        print(f"[{self.prop}] tier={self.tier} rules={len(self.rules_text)} instances={len(self.instances)} "
              f"ok={n_ok} violations={len(new)} known={len(listed)} errors={len(self.errors)} "
              f"wall={time.time() - self.t0:.2f}s exit={status}")
        return status

    def _write_replay(self, f: Finding) -> str:
        REPLAY_DIR.mkdir(parents=True, exist_ok=True)
        p = REPLAY_DIR / f"{self.prop}-{f.digest}.json"
        p.write_text(json.dumps({
            "property": self.prop, "rule": f.rule, "rule_text": self.rules_text.get(f.rule, ""),
            "function": f.func, "construct": f.key, "message": f.msg, "location": f.loc,
            "path": f.path, "ident": f.ident,
            "replay": f"./check {self.prop} --replay {p}",
        }, indent=1) + "\n")
        return str(p)

    def _write_evidence(self, n_new: int, n_known: int):
        EVIDENCE_DIR.mkdir(parents=True, exist_ok=True)
        distinct = {(i.rule, i.where, i.what) for i in self.instances if i.nontrivial}
        samples = []
        seen_rules = {}
        for i in self.instances:
            k = seen_rules.get(i.rule, 0)
            if k < 4:
                seen_rules[i.rule] = k + 1
                s = {"rule": i.rule, "where": i.where, "construct": i.what, "verdict": i.verdict}
                if i.detail:
                    s["detail"] = i.detail
                samples.append(s)
        per_rule = {}
        for i in self.instances:
            per_rule[i.rule] = per_rule.get(i.rule, 0) + 1
        ev = {
            "property_id": self.prop,
            "tier": self.tier,
            "seed": self.seed,
            "level": "other",
            "coverage": {
                "explanation": self.explanation,
                "evaluations": len(self.instances),
                "distinct_nontrivial": len(distinct),
                "rule": "one evaluation = one rule instance (a construct of the current /repo source matched by a rule "
                        "template and decided); distinct = distinct (rule, function, normalised construct); "
                        "non-trivial = the verdict required analysis of the construct (not a bare existence check)",
                "samples": samples,
                "rules": self.rules_text,
                "instances_per_rule": per_rule,
                "analysis_errors": self.errors,
                "notes": self.notes[:50],
                "known_findings_reported": n_known,
                "exhaustive": True,
                **self.extra,
            },
            "assumptions": MODEL_ASSUMPTIONS + self.assumptions,
            "wall_s": round(time.time() - self.t0, 3),
            "violations": n_new,
        }
        (EVIDENCE_DIR / f"{self.prop}.json").write_text(json.dumps(ev, indent=1) + "\n")


def load_known_findings() -> Dict[str, Dict[str, str]]:
    """KNOWN_FINDINGS.txt: 'finding: property=<id> key=<rule>:<func>:<construct> -- text' suppress;
    'fixed: ...' lines are documentation and suppress nothing.  Read-only at run time."""
    out: Dict[str, Dict[str, str]] = {}
    if not KNOWN_FINDINGS.exists():
        return out
    for line in KNOWN_FINDINGS.read_text().splitlines():
        line = line.strip()
        if not line.startswith("finding:"):
            continue
        body = line[len("finding:"):].strip()
        try:
            head, _, text = body.partition(" -- ")
            parts = head.split(" ", 1)
            prop = parts[0].split("=", 1)[1]
            key = parts[1].split("=", 1)[1]
        except Exception:
            continue
        out.setdefault(prop, {})[key] = text
    return out


def run_guarded(prop: str, tier: str, fn) -> int:
    """Run a property check; any traceback becomes ANALYSIS-ERROR / exit 2 (never exit 1)."""
    t0 = time.time()
    try:
        return fn()
    except AnalysisError as e:
        print(f"ANALYSIS-ERROR property={prop} {e}")
        _fallback_evidence(prop, tier, str(e), t0)
        return 2
    except Exception as e:  # pragma: no cover
        import traceback
        traceback.print_exc(file=sys.stdout)
        print(f"ANALYSIS-ERROR property={prop} internal error {type(e).__name__}: {e}")
        _fallback_evidence(prop, tier, f"{type(e).__name__}: {e}", t0)
        return 2


def _fallback_evidence(prop, tier, err, t0):
    EVIDENCE_DIR.mkdir(parents=True, exist_ok=True)
    ev = {"property_id": prop, "tier": tier, "seed": int(os.environ.get("VERIF_SEED", "0") or 0),
          "level": "other",
          "coverage": {"explanation": f"analysis aborted: {err}", "evaluations": 0, "distinct_nontrivial": 0,
                       "samples": [], "analysis_errors": [err]},
          "assumptions": MODEL_ASSUMPTIONS, "wall_s": round(time.time() - t0, 3), "violations": 0}
    (EVIDENCE_DIR / f"{prop}.json").write_text(json.dumps(ev, indent=1) + "\n")
