"""Flow-sensitive value resolution: the canonical (sympy) value of an expression at a program point.

``Resolver(prog, func).value(expr, at)`` translates ``expr`` like expr.Translator does, but every local
name is replaced by the value of its *unique* reaching definition at ``at`` (recursively, through
temporaries, tuple unpacking and augmented assignments), and calls of package-level helper functions
with straight-line bodies are inlined.  Renaming locals, introducing or removing temporaries,
reordering independent statements and extracting small helpers therefore do not change the result.
Names with several reaching definitions (branches, loops) stay symbolic.
"""
from __future__ import annotations

import ast
from typing import Callable, Dict, List, Optional

import sympy as sp

from .astutil import bind_call, call_name, unparse
from .dataflow import PARAM, reaching
from .expr import Translator
from .model import AnalysisError, Func, Program, enclosing_stmt

MAX_DEPTH = 14


class Resolver:
    def __init__(self, prog: Program, func: Func, call_hook: Optional[Callable] = None,
                 symbols: Optional[Dict[str, sp.Expr]] = None, inline: bool = True, keep: Optional[set] = None,
                 depth: int = 0, param_values: Optional[Dict[str, sp.Expr]] = None):
        self.prog = prog
        self.func = func
        self.rd = reaching(func)
        self.user_hook = call_hook
        self.symbols = dict(symbols or {})       # dotted name -> value (e.g. "record.ns.amplitude": NS)
        self.inline = inline
        self.keep = set(keep or ())              # local names that must stay symbolic
        self.depth = depth
        self.param_values = dict(param_values or {})
        self._ctx: List[ast.AST] = []
        self._busy: set = set()
        self.multi: Dict[str, int] = {}          # names left symbolic because of several definitions

    # ------------------------------------------------------------------ public
    def value(self, expr: ast.AST, at: Optional[ast.AST] = None) -> sp.Expr:
        at = at if at is not None else (enclosing_stmt(expr) or expr)
        self._ctx.append(at)
        try:
            return self._translator().tr(expr)
        finally:
            self._ctx.pop()

    def value_of_name(self, name: str, at: ast.AST) -> sp.Expr:
        return self.value(ast.Name(id=name, ctx=ast.Load()), at)

    # ------------------------------------------------------------------ internals
    def _translator(self) -> Translator:
        T = Translator(call_hook=self._call_hook, symbol_hook=self._symbol_hook)
        T.unroll_comps = True           # comprehensions over literal sequences are their elements
        res = self

        def t_name(n, T=T):
            return res._name(n.id, T)
        T.t_Name = t_name
        plain_attr = T.t_Attribute

        def t_attribute(n, T=T):
            # attribute of a (possibly aliased) symbolic object: name it through the resolved base
            from .astutil import dotted as _dotted
            d = _dotted(n)
            if d is not None and d.split(".")[0] in ("np", "numpy", "math", "sp", "scipy"):
                return plain_attr(n)
            if d is not None and d in res.symbols:
                return res.symbols[d]
            base = T.tr(n.value)
            if base.is_Symbol and not base.name.startswith("<"):
                full = f"{base.name}.{n.attr}"
                return res.symbols.get(full, T.sym(full))
            return sp.Function("attr_" + n.attr)(base)
        T.t_Attribute = t_attribute
        return T

    def expect(self, src: str) -> sp.Expr:
        """Reference expression written as source text, translated with the same hooks but with every
        name kept symbolic (parameters, loop variables)."""
        T = self._translator()
        T.t_Name = lambda n, T=T: self.symbols.get(n.id, T.sym(n.id))
        self._ctx.append(self.func.node)
        try:
            return T.tr(ast.parse(src, mode="eval").body)
        finally:
            self._ctx.pop()

    def _symbol_hook(self, name: str):
        return self.symbols.get(name)

    def _name(self, name: str, T: Translator) -> sp.Expr:
        if name in T.env:
            return T.env[name]          # bound by an enclosing comprehension / lambda / unrolled sequence
        if name in self.symbols:
            return self.symbols[name]
        at = self._ctx[-1]
        if name in self.keep or len(self._ctx) > MAX_DEPTH:
            return T.sym(name)
        defs = self.rd.defs_at(name, at)
        if not defs:
            return T.sym(name)          # global / builtin / module name
        if defs == [-1]:
            return self.param_values.get(name, T.sym(name))
        if len(defs) != 1:
            self.multi[name] = len(defs)
            return T.sym(name)
        d = self.rd.cfg.ast_of(defs[0])
        key = (name, defs[0])
        if key in self._busy:
            return T.sym(name)
        self._busy.add(key)
        self._ctx.append(d)
        try:
            return self._def_value(name, d, T)
        finally:
            self._ctx.pop()
            self._busy.discard(key)

    def _def_value(self, name: str, d: ast.AST, T: Translator) -> sp.Expr:
        if isinstance(d, ast.Assign):
            for t in d.targets:
                if isinstance(t, ast.Name) and t.id == name:
                    return self._translator().tr(d.value)
                if isinstance(t, (ast.Tuple, ast.List)):
                    names = [unparse(e) for e in t.elts]
                    if name in names:
                        i = names.index(name)
                        if isinstance(d.value, (ast.Tuple, ast.List)) and len(d.value.elts) == len(t.elts):
                            return self._translator().tr(d.value.elts[i])
                        whole = self._translator().tr(d.value)
                        if isinstance(whole, sp.Tuple) and i < len(whole):
                            return whole[i]             # a, b = (x, y): a is x
                        return sp.Function("getitem")(whole, sp.Integer(i))
                    # nested targets: stay symbolic
            return T.sym(name)
        if isinstance(d, ast.AnnAssign) and d.value is not None:
            return self._translator().tr(d.value)
        if isinstance(d, ast.AugAssign) and isinstance(d.target, ast.Name):
            prev = self._name_before(name, d, T)
            rhs = self._translator().tr(d.value)
            op = d.op
            if isinstance(op, ast.Add):
                return prev + rhs
            if isinstance(op, ast.Sub):
                return prev - rhs
            if isinstance(op, ast.Mult):
                return prev * rhs
            if isinstance(op, ast.Div):
                return prev / rhs
            if isinstance(op, ast.Pow):
                return prev ** rhs
            return T.sym(name)
        return T.sym(name)          # loop target, with-as, except-as ...

    def _name_before(self, name: str, d: ast.AugAssign, T: Translator) -> sp.Expr:
        # value of `name` as seen by the augmented assignment itself (its own IN set)
        return self._name(name, T)

    # ------------------------------------------------------------------ calls
    def _call_hook(self, call: ast.Call, T: Translator):
        if self.user_hook is not None:
            r = self.user_hook(call, T, self)
            if r is not None:
                return r
        f = call.func
        g = None
        skip = False
        if isinstance(f, ast.Name):
            # a local bound to a function value stays a call of that local
            if self.rd.defs_at(f.id, self._ctx[-1]):
                return None
            r = self.prog.resolve_name(self.func.module, f.id)
            if r and r[0] == "func":
                g = r[1]
        if g is None:
            return None
        # canonical argument order
        names = g.params
        bound = bind_call(call, names)
        defaults = g.defaults()
        args = []
        for p in names:
            if p in bound:
                args.append(T.tr(bound[p]))
            elif p in defaults:
                args.append(sp.Function("default")(Translator().tr(defaults[p])))
            else:
                args.append(sp.Symbol("<missing>"))
        if self.inline and self.depth < 3:
            out = self._inline(g, dict(zip(names, args)))
            if out is not None:
                return out
        return sp.Function(g.name)(*args)

    def _inline(self, g: Func, argvals: Dict[str, sp.Expr]) -> Optional[sp.Expr]:
        body = [st for st in g.node.body if not (isinstance(st, ast.Expr) and isinstance(st.value, ast.Constant))]
        if not body or not isinstance(body[-1], ast.Return) or body[-1].value is None:
            return None
        if any(not isinstance(st, (ast.Assign, ast.AugAssign, ast.AnnAssign)) for st in body[:-1]):
            return None
        for st in body[:-1]:
            tg = st.targets if isinstance(st, ast.Assign) else [st.target]
            if any(not isinstance(t, (ast.Name, ast.Tuple)) for t in tg):
                return None
        vals = {p: (v.args[0] if v.is_Function and v.func.__name__ == "default" else v) for p, v in argvals.items()}
        if any(v == sp.Symbol("<missing>") for v in vals.values()):
            return None
        sub = Resolver(self.prog, g, call_hook=self.user_hook, symbols=self.symbols, inline=True, depth=self.depth + 1,
                       param_values=vals)
        try:
            return sub.value(body[-1].value, body[-1])
        except AnalysisError:
            return None


def canon(e: sp.Expr) -> sp.Expr:
    """Normalise equivalent spellings produced by different unpacking styles."""
    item, getitem = sp.Function("item"), sp.Function("getitem")
    return e.replace(item, getitem)


def expected(src: str, symbols: Optional[Dict[str, sp.Expr]] = None, call_hook=None) -> sp.Expr:
    """Translate a reference expression written as source text (names stay symbolic)."""
    T = Translator(call_hook=call_hook, symbol_hook=(lambda n: (symbols or {}).get(n)))
    if symbols:
        T.env.update({k: v for k, v in symbols.items() if "." not in k})
    return T.tr(ast.parse(src, mode="eval").body)
