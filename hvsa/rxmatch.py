"""A small backtracking interpreter for regular-expression *syntax trees* (``re._parser``).

The readers' patterns are data constants of the package.  To decide what a pattern accepts the checker does not import or
run anything of the package: it parses the pattern text into its syntax tree and interprets that tree on a handful of
witness lines taken from the file-format descriptions (leftmost match, greedy repetition with backtracking, the semantics of
``re.search`` / ``re.finditer``).  Only the constructs the package uses are supported; anything else is an AnalysisError.
"""
from __future__ import annotations

import re._parser as rp       # syntax trees only
import re._constants as rc
from typing import Dict, Iterator, List, Optional, Tuple

from .model import AnalysisError

Groups = Dict[int, Tuple[int, int]]


def parse(pattern: str, multiline: bool = False):
    flags = rc.SRE_FLAG_MULTILINE if multiline else 0
    return rp.parse(pattern, flags)


def _category(code, ch: str) -> bool:
    if code is rc.CATEGORY_DIGIT:
        return ch.isdigit()
    if code is rc.CATEGORY_NOT_DIGIT:
        return not ch.isdigit()
    if code is rc.CATEGORY_SPACE:
        return ch.isspace()
    if code is rc.CATEGORY_NOT_SPACE:
        return not ch.isspace()
    if code is rc.CATEGORY_WORD:
        return ch.isalnum() or ch == "_"
    if code is rc.CATEGORY_NOT_WORD:
        return not (ch.isalnum() or ch == "_")
    raise AnalysisError(f"regex interpreter: category {code} not supported")


def _in_set(av, ch: str) -> bool:
    negate = False
    hit = False
    for op, a in av:
        if op is rc.NEGATE:
            negate = True
        elif op is rc.LITERAL:
            hit = hit or ord(ch) == a
        elif op is rc.RANGE:
            hit = hit or a[0] <= ord(ch) <= a[1]
        elif op is rc.CATEGORY:
            hit = hit or _category(a, ch)
        else:
            raise AnalysisError(f"regex interpreter: set item {op} not supported")
    return hit != negate


def _seq(items, idx: int, text: str, pos: int, groups: Groups, multiline: bool) -> Iterator[Tuple[int, Groups]]:
    if idx == len(items):
        yield pos, groups
        return
    op, av = items[idx]

    def rest(p: int, g: Groups):
        return _seq(items, idx + 1, text, p, g, multiline)
    if op is rc.LITERAL:
        if pos < len(text) and ord(text[pos]) == av:
            yield from rest(pos + 1, groups)
    elif op is rc.NOT_LITERAL:
        if pos < len(text) and ord(text[pos]) != av:
            yield from rest(pos + 1, groups)
    elif op is rc.ANY:
        if pos < len(text) and text[pos] != "\n":
            yield from rest(pos + 1, groups)
    elif op is rc.IN:
        if pos < len(text) and _in_set(av, text[pos]):
            yield from rest(pos + 1, groups)
    elif op is rc.BRANCH:
        for alt in av[1]:
            for p2, g2 in _seq(list(alt), 0, text, pos, groups, multiline):
                yield from rest(p2, g2)
    elif op is rc.SUBPATTERN:
        group, _add, _del, sub = av
        for p2, g2 in _seq(list(sub), 0, text, pos, groups, multiline):
            if group:
                g2 = dict(g2)
                g2[group] = (pos, p2)
            yield from rest(p2, g2)
    elif op in (rc.MAX_REPEAT, rc.MIN_REPEAT):
        lo, hi, sub = av
        sub = list(sub)
        greedy = op is rc.MAX_REPEAT

        def rep(count: int, p: int, g: Groups):
            def more():
                if hi is rc.MAXREPEAT or count < hi:
                    for p2, g2 in _seq(sub, 0, text, p, g, multiline):
                        if p2 == p and count >= lo:
                            continue        # an empty iteration cannot make progress
                        yield from rep(count + 1, p2, g2)

            def stop():
                if count >= lo:
                    yield from rest(p, g)
            if greedy:
                yield from more()
                yield from stop()
            else:
                yield from stop()
                yield from more()
        yield from rep(0, pos, groups)
    elif op is rc.AT:
        ok = False
        if av in (rc.AT_BEGINNING, rc.AT_BEGINNING_LINE):
            ok = pos == 0 or ((multiline or av is rc.AT_BEGINNING_LINE) and text[pos - 1] == "\n")
        elif av is rc.AT_BEGINNING_STRING:
            ok = pos == 0
        elif av in (rc.AT_END, rc.AT_END_LINE):
            ok = pos == len(text) or (pos == len(text) - 1 and text[pos] == "\n") or ((multiline or av is rc.AT_END_LINE) and pos < len(text) and text[pos] == "\n")
        elif av is rc.AT_END_STRING:
            ok = pos == len(text)
        else:
            raise AnalysisError(f"regex interpreter: anchor {av} not supported")
        if ok:
            yield from rest(pos, groups)
    else:
        raise AnalysisError(f"regex interpreter: construct {op} not supported")


def search(tree, text: str, start: int = 0, multiline: bool = False) -> Optional[Tuple[int, int, Groups]]:
    items = list(tree)
    for s in range(start, len(text) + 1):
        for end, groups in _seq(items, 0, text, s, {}, multiline):
            return s, end, groups
    return None


def finditer(tree, text: str, multiline: bool = False) -> List[Tuple[str, ...]]:
    """The capturing groups of every non-overlapping match, as re.finditer(...).groups() would list them."""
    n_groups = tree.state.groups - 1
    out: List[Tuple[str, ...]] = []
    pos = 0
    while pos <= len(text):
        m = search(tree, text, pos, multiline)
        if m is None:
            break
        s, e, groups = m
        out.append(tuple(text[groups[i][0]:groups[i][1]] if i in groups else None for i in range(1, n_groups + 1)))
        pos = e if e > s else e + 1
    return out
