"""Command-line runner: ./check <ID>|all [--tier quick|thorough] [--replay path]."""
from __future__ import annotations

import argparse
import importlib
import json
import os
import sys
import time


def _bootstrap_wheels():
    wh = os.environ.get("HVSA_WHEELHOUSE")
    if not wh:
        return
    import glob
    for pat in ("networkx-*.whl", "sympy-*.whl", "mpmath-*.whl"):
        for w in glob.glob(os.path.join(wh, pat)):
            sys.path.insert(0, w)


_bootstrap_wheels()

from .model import Program, AnalysisError  # noqa: E402
from .report import Checker, run_guarded   # noqa: E402

ALL = [f"C{i:02d}" for i in range(1, 21)]


def run_property(pid: str, tier: str, prog=None, quiet=False) -> int:
    try:
        mod = importlib.import_module(f"hvsa.rules.{pid.lower()}")
    except Exception as e:      # a defect of the machinery itself: never an exit code that could be read as a violation
        print(f"ANALYSIS-ERROR property={pid} the rule module could not be loaded: {type(e).__name__}: {e}")
        print(f"[{pid}] tier={tier} rules=0 instances=0 ok=0 violations=0 known=0 errors=1 wall=0.00s exit=2")
        return 2

    def go():
        p = prog if prog is not None else Program()
        ck = Checker(pid, tier, mod.EXPLANATION, mod.RULES)
        ck.extra["source_digest"] = p.digest
        ck.extra["modules_parsed"] = len(p.modules)
        ck.extra["functions_indexed"] = len(p.funcs)
        mod.run(ck, p, tier)
        if tier == "thorough":
            if hasattr(mod, "thorough"):
                mod.thorough(ck, p)
            from .report import load_known_findings
            known = load_known_findings().get(pid, {})
            if all(f.ident in known for f in ck.findings) and not ck.errors and prog is None:
                # the tree is clean: replay the variant catalogue in memory and run the package sweeps
                from .selftest import selftest
                from .sweeps import sweeps
                ck.rules_text = dict(ck.rules_text)
                ck.rules_text[f"{pid}.selftest"] = ("self-test: every breaking variant of the current tree (catalogue + confirmed seeded changes) is reported, "
                                                    "every neutral variant stays silent")
                selftest(ck, pid)
                sweeps(ck, p, pid)
        return ck.finish()
    return run_guarded(pid, tier, go)


def main(argv=None) -> int:
    ap = argparse.ArgumentParser()
    ap.add_argument("prop")
    ap.add_argument("--tier", default=os.environ.get("VERIF_TIER", "quick"), choices=["quick", "thorough"])
    ap.add_argument("--replay", default=None)
    a = ap.parse_args(argv)
    if a.replay:
        try:
            info = json.load(open(a.replay))
            print(f"replaying {info.get('ident')} :: {info.get('message')}")
        except Exception as e:
            print(f"cannot read replay file: {e}")
        # a replay is simply the check itself on the current tree: the finding is keyed by construct
    if a.prop.lower() == "all":
        worst = 0
        for pid in ALL:
            rc = run_property(pid, a.tier)
            worst = max(worst, rc)
        return worst
    pid = a.prop.upper()
    if pid not in ALL:
        print(f"unknown property {pid}")
        return 2
    return run_property(pid, a.tier)


if __name__ == "__main__":
    sys.exit(main())
