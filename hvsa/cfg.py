"""E3 statement-level control-flow graph for one function (networkx DiGraph).

Nodes are integers with attributes ``kind`` and ``ast``:
  entry, exit (normal), raise (exceptional exit), stmt (simple statement),
  test (if/while condition), iter (for header), with, except (handler header).
Edges carry ``label``: next, true, false, iter, exhausted, exc, return, fall,
break, continue.

Explicit ``raise`` goes to the enclosing handlers or to the exceptional exit.
Implicit exceptions are modelled only inside ``try`` bodies (every statement of
a try body may jump to each handler); elsewhere they are not paths (model
assumption 3).
"""
from __future__ import annotations

import ast
from typing import Callable, Dict, Iterable, List, Optional, Set, Tuple

import networkx as nx

Dangling = List[Tuple[int, str]]


class CFG:
    def __init__(self, fnode: ast.AST):
        self.g = nx.DiGraph()
        self.fnode = fnode
        self._n = 0
        self.entry = self._add("entry", None)
        self.exit = self._add("exit", None)
        self.raise_exit = self._add("raise", None)
        self.node_of: Dict[int, int] = {}     # id(ast stmt) -> cfg node
        self._loops: List[Tuple[int, Dangling]] = []   # (continue target, break danglings)
        self._handlers: List[List[int]] = []           # stack of handler-entry node lists
        body = fnode.body if not isinstance(fnode, ast.Lambda) else [ast.Return(value=fnode.body)]
        out = self._block(body, [(self.entry, "next")])
        for (n, lab) in out:
            self._edge(n, self.exit, "fall" if lab in ("next", "false", "exhausted", "true") else lab)

    # ------------------------------------------------------------ building
    def _add(self, kind: str, node: Optional[ast.AST]) -> int:
        i = self._n
        self._n += 1
        self.g.add_node(i, kind=kind, ast=node)
        if node is not None:
            self.node_of[id(node)] = i
        return i

    def _edge(self, a: int, b: int, label: str):
        if self.g.has_edge(a, b):
            self.g[a][b]["labels"].add(label)
        else:
            self.g.add_edge(a, b, labels={label})

    def _connect(self, preds: Dangling, n: int):
        for (p, lab) in preds:
            self._edge(p, n, lab)

    def _block(self, stmts: List[ast.stmt], preds: Dangling) -> Dangling:
        cur = preds
        for st in stmts:
            if not cur:
                # unreachable code still gets nodes (so that lookups work) but no in-edges
                pass
            cur = self._stmt(st, cur)
        return cur

    def _exc_targets(self) -> List[int]:
        return self._handlers[-1] if self._handlers else [self.raise_exit]

    def _stmt(self, st: ast.stmt, preds: Dangling) -> Dangling:
        if isinstance(st, ast.If):
            t = self._add("test", st)
            self._connect(preds, t)
            self._in_try(t)
            out_true = self._block(st.body, [(t, "true")])
            out_false = self._block(st.orelse, [(t, "false")]) if st.orelse else [(t, "false")]
            return out_true + out_false
        if isinstance(st, (ast.For, ast.AsyncFor)):
            h = self._add("iter", st)
            self._connect(preds, h)
            self._in_try(h)
            breaks: Dangling = []
            self._loops.append((h, breaks))
            body_out = self._block(st.body, [(h, "iter")])
            self._loops.pop()
            for (n, lab) in body_out:
                self._edge(n, h, "continue" if lab == "continue" else "next")
            else_out = self._block(st.orelse, [(h, "exhausted")]) if st.orelse else [(h, "exhausted")]
            return else_out + breaks
        if isinstance(st, ast.While):
            t = self._add("test", st)
            self._connect(preds, t)
            self._in_try(t)
            breaks = []
            self._loops.append((t, breaks))
            body_out = self._block(st.body, [(t, "true")])
            self._loops.pop()
            for (n, lab) in body_out:
                self._edge(n, t, "next")
            is_true = isinstance(st.test, ast.Constant) and bool(st.test.value) is True
            if is_true:
                else_out = []
            else:
                else_out = self._block(st.orelse, [(t, "false")]) if st.orelse else [(t, "false")]
            return else_out + breaks
        if isinstance(st, (ast.With, ast.AsyncWith)):
            w = self._add("with", st)
            self._connect(preds, w)
            self._in_try(w)
            return self._block(st.body, [(w, "next")])
        if isinstance(st, ast.Try):
            handler_nodes = [self._add("except", h) for h in st.handlers]
            self._handlers.append(handler_nodes if handler_nodes else self._exc_targets())
            body_out = self._block(st.body, preds)
            self._handlers.pop()
            else_out = self._block(st.orelse, body_out) if st.orelse else body_out
            outs = list(else_out)
            for hn, h in zip(handler_nodes, st.handlers):
                outs += self._block(h.body, [(hn, "next")])
            if st.finalbody:
                outs = self._block(st.finalbody, outs)
            return outs
        # ---- simple statements
        n = self._add("stmt", st)
        self._connect(preds, n)
        self._in_try(n)
        if isinstance(st, ast.Return):
            self._edge(n, self.exit, "return")
            return []
        if isinstance(st, ast.Raise):
            for t in self._exc_targets():
                self._edge(n, t, "exc")
            return []
        if isinstance(st, ast.Break):
            if self._loops:
                self._loops[-1][1].append((n, "break"))
            return []
        if isinstance(st, ast.Continue):
            if self._loops:
                self._edge(n, self._loops[-1][0], "continue")
            return []
        return [(n, "next")]

    def _in_try(self, n: int):
        """Inside a try body every node may jump to each handler (implicit exceptions)."""
        if self._handlers:
            for t in self._handlers[-1]:
                if t != self.raise_exit:
                    self._edge(n, t, "exc")

    # -------------------------------------------------------------- queries
    def kind(self, n: int) -> str:
        return self.g.nodes[n]["kind"]

    def ast_of(self, n: int):
        return self.g.nodes[n]["ast"]

    def node(self, st: ast.AST) -> Optional[int]:
        return self.node_of.get(id(st))

    def reachable(self) -> Set[int]:
        return set(nx.descendants(self.g, self.entry)) | {self.entry}

    def labels(self, a: int, b: int) -> Set[str]:
        return self.g[a][b]["labels"]

    def falls_off_end(self) -> List[int]:
        """Reachable predecessors of the normal exit through a 'fall' edge."""
        reach = self.reachable()
        return [p for p in self.g.predecessors(self.exit)
                if p in reach and "fall" in self.labels(p, self.exit)]

    def return_nodes(self) -> List[int]:
        reach = self.reachable()
        return [p for p in self.g.predecessors(self.exit)
                if p in reach and "return" in self.labels(p, self.exit)]

    def exists_path_avoiding(self, src: int, dst: int, avoid: Iterable[int]) -> bool:
        avoid = set(avoid) - {src, dst}
        seen, stack = {src}, [src]
        while stack:
            n = stack.pop()
            if n == dst:
                return True
            for s in self.g.successors(n):
                if s not in seen and s not in avoid:
                    seen.add(s)
                    stack.append(s)
        return False

    def path_avoiding(self, src: int, dst: int, avoid: Iterable[int]) -> Optional[List[int]]:
        avoid = set(avoid) - {src, dst}
        prev = {src: None}
        queue = [src]
        while queue:
            n = queue.pop(0)
            if n == dst:
                out = []
                while n is not None:
                    out.append(n)
                    n = prev[n]
                return out[::-1]
            for s in self.g.successors(n):
                if s not in prev and s not in avoid:
                    prev[s] = n
                    queue.append(s)
        return None

    def dominators(self) -> Dict[int, int]:
        return nx.immediate_dominators(self.g, self.entry)

    def dominates(self, a: int, b: int, idom: Optional[Dict[int, int]] = None) -> bool:
        idom = idom or self.dominators()
        n = b
        while True:
            if n == a:
                return True
            p = idom.get(n)
            if p is None or p == n:
                return False
            n = p

    def must_pass_through(self, pred: Callable[[int], bool], src: Optional[int] = None,
                          dst: Optional[int] = None) -> Optional[List[int]]:
        """None if every path src->dst passes a node satisfying pred, else a counter-example path."""
        src = self.entry if src is None else src
        dst = self.exit if dst is None else dst
        avoid = [n for n in self.g.nodes if pred(n)]
        return self.path_avoiding(src, dst, avoid)

    def describe_path(self, path: List[int]) -> List[str]:
        from .model import norm_key
        out = []
        for n in path:
            k = self.kind(n)
            a = self.ast_of(n)
            if a is None:
                out.append(k)
            else:
                out.append(f"L{getattr(a, 'lineno', 0)} {norm_key(a, 70)}")
        return out

    def stmts_in_loop(self, loop: ast.AST) -> Set[int]:
        out = set()
        for node in ast.walk(loop):
            if node is loop:
                continue
            if id(node) in self.node_of:
                out.add(self.node_of[id(node)])
        return out


def cfg_of(func) -> CFG:
    """CFG of a function, cached on its AST node (safe across in-memory program variants)."""
    c = getattr(func.node, "_hvsa_cfg", None)
    if c is None:
        c = CFG(func.node)
        func.node._hvsa_cfg = c
    return c


def events_per_iteration(cfg: CFG, loop_stmt: ast.AST, classify: Callable[[int], Optional[int]],
                         n_events: int, cap: int = 2) -> Set[Tuple[int, ...]]:
    """Abstract interpretation over the CFG of one iteration of ``loop_stmt`` (a For/While).

    ``classify(node)`` returns the index of the event a CFG node performs (or None).  The result is
    the set of possible event-count tuples (saturating at ``cap``) over all paths that start when
    the loop takes an element and end when control comes back to the loop header or leaves the
    loop (break / return / raise excluded: ``raise`` paths are dropped, return/break paths kept)."""
    h = cfg.node(loop_stmt)
    if h is None:
        raise ValueError("loop statement has no CFG node")
    body_nodes = cfg.stmts_in_loop(loop_stmt)
    zero = tuple(0 for _ in range(n_events))
    state: Dict[int, Set[Tuple[int, ...]]] = {}
    results: Set[Tuple[int, ...]] = set()
    work: List[int] = []

    def push(n: int, vals: Set[Tuple[int, ...]]):
        cur = state.setdefault(n, set())
        new = vals - cur
        if new:
            cur |= new
            work.append(n)

    for s in cfg.g.successors(h):
        labs = cfg.labels(h, s)
        if "iter" in labs or "true" in labs:
            if s in body_nodes:
                push(s, {zero})
    while work:
        n = work.pop()
        vals = state[n]
        ev = classify(n)
        if ev is not None:
            out = set()
            for v in vals:
                lst = list(v)
                lst[ev] = min(cap, lst[ev] + 1)
                out.add(tuple(lst))
        else:
            out = set(vals)
        for s in cfg.g.successors(n):
            if s == h:
                results |= out
            elif s == cfg.raise_exit:
                continue
            elif s not in body_nodes:
                results |= out          # break / return out of the loop
            else:
                push(s, out)
    return results
