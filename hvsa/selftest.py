"""Thorough tier: self-test of the rules on in-memory variants of the *current* tree.

For each property a catalogue of variants is replayed on source maps held in memory (nothing is
written outside /verif/evidence and /verif/replays):

  * textual edits from ``selftest_catalogue.py`` (old text -> new text at one anchored place);
  * the confirmed seeded changes of ``/verif/seeded/<id>/patch.diff`` (breaking, kind B);
  * the confirmed behaviour-preserving refactorings of ``/verif/seeded/neutral/<id>/patch.diff`` (kind N).

A breaking variant (B) must be reported as a violation by the property's rules; a neutral variant (N)
must produce neither a violation nor an analysis error.  A variant whose anchor no longer exists in
the current tree is skipped and counted.  A self-test failure means the machinery is broken: it is
reported as ANALYSIS-ERROR (exit 2), never as a VIOLATION of the property.
"""
from __future__ import annotations

import glob
import importlib
import json
import os
import re
from dataclasses import dataclass
from pathlib import Path
from typing import Dict, List, Optional, Tuple

from .model import AnalysisError, Program, repo_root, PKG
from .report import Checker, load_known_findings, VERIF


class PatchError(Exception):
    pass


def apply_unified_diff(sources: Dict[str, str], patch: str) -> Dict[str, str]:
    """Apply a `git diff` patch to a {relpath: text} map (only files under hvsrpy/).  Hunks are located
    by exact context match, searching outwards from the recorded line number."""
    out = dict(sources)
    files = re.split(r"^diff --git .*$", patch, flags=re.M)
    for chunk in files:
        m = re.search(r"^\+\+\+ b/(\S+)", chunk, flags=re.M)
        if not m:
            continue
        rel = m.group(1)
        if not rel.startswith(PKG + "/"):
            continue
        if re.search(r"^new file mode", chunk, flags=re.M) and rel not in out:
            out[rel] = ""
        if rel not in out:
            raise PatchError(f"{rel} not in tree")
        lines = out[rel].split("\n")
        hunks = re.split(r"^@@ -(\d+)(?:,\d+)? \+\d+(?:,\d+)? @@.*$", chunk, flags=re.M)
        # hunks = [header, start1, body1, start2, body2, ...]
        offset = 0
        for i in range(1, len(hunks), 2):
            start = int(hunks[i]) - 1
            body = hunks[i + 1].split("\n")
            if body and body[0] == "":
                body = body[1:]
            old, new = [], []
            for ln in body:
                if ln.startswith("\\"):
                    continue
                if ln.startswith("-"):
                    old.append(ln[1:])
                elif ln.startswith("+"):
                    new.append(ln[1:])
                elif ln.startswith(" ") or ln == "":
                    old.append(ln[1:] if ln else "")
                    new.append(ln[1:] if ln else "")
            while old and new and old[-1] == "" and new[-1] == "":
                old.pop()
                new.pop()
            pos = None
            guess = start + offset
            for delta in range(0, len(lines) + 1):
                for cand in (guess + delta, guess - delta):
                    if 0 <= cand <= len(lines) - len(old) and lines[cand:cand + len(old)] == old:
                        pos = cand
                        break
                if pos is not None:
                    break
            if pos is None:
                raise PatchError(f"hunk at line {start + 1} of {rel} does not match the current tree")
            lines[pos:pos + len(old)] = new
            offset += len(new) - len(old)
        out[rel] = "\n".join(lines)
    return out


@dataclass
class Variant:
    vid: str
    kind: str                       # "B" breaking | "N" neutral
    overrides: Optional[Dict[str, str]]
    why_skipped: Optional[str] = None
    note: str = ""


def _current_sources() -> Dict[str, str]:
    root = repo_root() / PKG
    return {f"{PKG}/{p.name}": p.read_text(encoding="utf-8") for p in sorted(root.glob("*.py"))}


def load_variants(pid: str) -> List[Variant]:
    src = _current_sources()
    out: List[Variant] = []
    # 1. hand-written catalogue
    try:
        cat = importlib.import_module("hvsa.selftest_catalogue").CATALOGUE
    except Exception:  # pragma: no cover
        cat = []
    for i, e in enumerate(cat):
        if e["prop"] != pid:
            continue
        rel = e["file"]
        text = src.get(rel)
        vid = f"cat:{pid}:{e['kind']}:{e['name']}"
        if text is None or text.count(e["old"]) != 1:
            out.append(Variant(vid, e["kind"], None, why_skipped=f"anchor text occurs {0 if text is None else text.count(e['old'])}x in {rel}"))
            continue
        out.append(Variant(vid, e["kind"], {rel: text.replace(e["old"], e["new"])}, note=e.get("note", "")))
    # 2. seeded patches
    for d in sorted(glob.glob(str(VERIF / "seeded" / f"{pid}-*"))):
        patch = Path(d, "patch.diff")
        if not patch.exists():
            continue
        vid = f"seed:{os.path.basename(d)}"
        try:
            new = apply_unified_diff(src, patch.read_text())
            changed = {k: v for k, v in new.items() if src.get(k) != v}
            out.append(Variant(vid, "B", changed))
        except PatchError as e:
            out.append(Variant(vid, "B", None, why_skipped=str(e)))
    for d in sorted(glob.glob(str(VERIF / "seeded" / "neutral" / f"{pid}-*"))):
        patch = Path(d, "patch.diff")
        if not patch.exists():
            continue
        vid = f"neutral:{os.path.basename(d)}"
        try:
            new = apply_unified_diff(src, patch.read_text())
            changed = {k: v for k, v in new.items() if src.get(k) != v}
            note = ""
            try:
                note = json.loads(Path(d, "meta.json").read_text()).get("known_undecided", "")
            except Exception:
                note = ""
            out.append(Variant(vid, "N", changed, note=("known_undecided: " + note) if note else ""))
        except PatchError as e:
            out.append(Variant(vid, "N", None, why_skipped=str(e)))
    return out


def run_variant(pid: str, v: Variant) -> Tuple[List[str], List[str]]:
    """(violation idents, analysis errors) of the property's rules on the variant."""
    mod = importlib.import_module(f"hvsa.rules.{pid.lower()}")
    try:
        prog = Program(overrides=v.overrides)
    except AnalysisError as e:
        return [], [str(e)]
    ck = Checker(pid, "thorough", "", mod.RULES)
    try:
        mod.run(ck, prog, "quick")
    except AnalysisError as e:
        ck.error(str(e))
    except Exception as e:  # an internal error on a variant is a self-test failure
        ck.error(f"internal error {type(e).__name__}: {e}")
    known = load_known_findings().get(pid, {})
    viol = [f.ident for f in ck.findings if f.ident not in known]
    return viol, list(ck.errors)


def _variant_job(job):
    pid, v = job
    import io
    import contextlib
    with contextlib.redirect_stdout(io.StringIO()):
        return run_variant(pid, v)


def selftest(ck: Checker, pid: str):
    variants = load_variants(pid)
    n_b = n_n = n_skip = 0
    failures = []
    samples = []
    # the replays are independent of one another: they are spread over the cores (HVSA_JOBS=1 runs them one after the other)
    import os
    todo = [v for v in variants if v.overrides is not None]
    jobs = int(os.environ.get("HVSA_JOBS", str(min(16, os.cpu_count() or 1))))
    results = {}
    if jobs > 1 and len(todo) > 4:
        from concurrent.futures import ProcessPoolExecutor
        try:
            with ProcessPoolExecutor(jobs) as ex:
                for v, r in zip(todo, ex.map(_variant_job, [(pid, v) for v in todo], chunksize=2)):
                    results[v.vid] = r
        except Exception:
            results = {}
    for v in variants:
        if v.overrides is None:
            n_skip += 1
            samples.append({"variant": v.vid, "kind": v.kind, "result": "skipped", "why": v.why_skipped})
            continue
        viol, errs = results[v.vid] if v.vid in results else run_variant(pid, v)
        if v.kind == "B":
            n_b += 1
            ok = bool(viol)
            res = f"reported ({len(viol)} violation(s))" if ok else ("NOT reported" + (f"; analysis errors: {errs[:1]}" if errs else ""))
        else:
            n_n += 1
            ok = not viol and not errs
            res = "silent" if ok else f"FALSE ALARM: {(viol + errs)[:2]}"
            if not viol and errs and (v.note or "").startswith("known_undecided"):
                # recorded in the seed's meta.json: this refactoring replaces an algorithm by a form the rule does not interpret;
                # the required outcome is "no VIOLATION" (the answer is exit 2 with the reason)
                ok = True
                res = f"undecided, as recorded for this seed (no violation): {errs[:1]}"
        samples.append({"variant": v.vid, "kind": v.kind, "result": res, "first": (viol or errs or [""])[0][:160]})
        if ok:
            ck.ok(f"{pid}.selftest", v.vid, res, nontrivial=True)
        else:
            failures.append(f"{v.vid} [{v.kind}]: {res}")
    ck.extra["selftest"] = {"breaking_variants": n_b, "neutral_variants": n_n, "skipped_anchor_missing": n_skip,
                            "failures": failures, "variants": samples}
    print(f"[{pid}] self-test: {n_b} breaking / {n_n} neutral variants replayed in memory, {n_skip} skipped, {len(failures)} failure(s)")
    for f in failures:
        ck.error(f"self-test failure (the machinery, not the property): {f}")
