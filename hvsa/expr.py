"""E8 expression canonicaliser: Python expression AST -> sympy, forward substitution of
straight-line temporaries, structural homogeneity degrees.

This is canonicalisation of expression trees read from the source (no execution, no solver
query).  An expression outside the translation table raises AnalysisError (never a violation).
"""
from __future__ import annotations

import ast
from typing import Callable, Dict, Iterable, List, Optional, Set

import sympy as sp

from .astutil import call_name, dotted, unparse
from .model import AnalysisError

# uninterpreted but *degree-preserving* (positively homogeneous of degree 1, or linear) operators
LINEAR_FUNCS = {"mean", "nanmean", "sum", "nansum", "rfft", "fft", "irfft", "percentile", "median",
                "smooth", "real", "imag", "conjugate", "conj", "max", "min", "amax", "amin", "nanmax", "nanmin",
                "flatten", "array", "asarray", "tolist", "reshape", "abs_", "float", "double", "copy",
                "from_timeseries", "TimeSeries", "amplitude_of", "taper", "detrend", "sosfiltfilt", "getitem",
                "vstack", "concatenate", "atleast_2d"}


def rational(v) -> sp.Expr:
    if isinstance(v, bool):
        return sp.true if v else sp.false
    if isinstance(v, int):
        return sp.Integer(v)
    if isinstance(v, float):
        return sp.Rational(repr(v)) if v == v and abs(v) != float("inf") else sp.nan
    if isinstance(v, complex):
        return rational(v.real) + sp.I * rational(v.imag)
    raise AnalysisError(f"cannot translate constant {v!r}")


def as_bool(v):
    """Truth value of a non-boolean term as a Boolean atom (so that it can sit under And/Or/Not)."""
    if isinstance(v, sp.logic.boolalg.Boolean) or v in (sp.true, sp.false):
        return v
    if getattr(getattr(v, "func", None), "__name__", "") == "bool" and len(v.args) == 1:
        return as_bool(v.args[0])           # bool(x) is true exactly when x is
    return sp.Eq(sp.Function("truth")(v), sp.true, evaluate=False)


class Translator:
    """Translate expressions with an environment of already-known names."""

    def __init__(self, env: Optional[Dict[str, sp.Expr]] = None, positive: Iterable[str] = (),
                 symbol_hook: Optional[Callable[[str], Optional[sp.Expr]]] = None,
                 call_hook: Optional[Callable[[ast.Call, "Translator"], Optional[sp.Expr]]] = None,
                 all_positive: bool = False):
        self.env: Dict[str, sp.Expr] = dict(env or {})
        self.positive = set(positive)
        self.symbol_hook = symbol_hook
        self.call_hook = call_hook
        self.all_positive = all_positive
        self.attr_of_bound = False      # x.attr for an env-bound local x -> attr_<attr>(value of x)
        self.structured = False         # every attribute chain a.b.c -> attr_c(attr_b(a)) (except on self / numpy)
        self.unroll_comps = False       # comprehensions over short literal sequences are expanded
        self._syms: Dict[str, sp.Symbol] = {}

    # ------------------------------------------------------------- symbols
    def sym(self, name: str) -> sp.Expr:
        if name in self.env:
            return self.env[name]
        if self.symbol_hook is not None:
            r = self.symbol_hook(name)
            if r is not None:
                return r
        s = self._syms.get(name)
        if s is None:
            s = sp.Symbol(name, positive=True) if (self.all_positive or name in self.positive) \
                else sp.Symbol(name, real=True)
            self._syms[name] = s
        return s

    # ----------------------------------------------------------- translate
    def tr(self, n: ast.AST) -> sp.Expr:
        m = getattr(self, "t_" + type(n).__name__, None)
        if m is None:
            raise AnalysisError(f"expression not translatable: {type(n).__name__} `{unparse(n)}`")
        return m(n)

    def t_Constant(self, n):
        if n.value is None:
            return sp.Symbol("None")
        if isinstance(n.value, str):
            return sp.Symbol(f"'{n.value}'")
        return rational(n.value)

    def t_Name(self, n):
        return self.sym(n.id)

    def t_Attribute(self, n):
        d = dotted(n)
        if d in ("np.pi", "numpy.pi", "math.pi"):
            return sp.pi
        if d in ("np.e", "math.e"):
            return sp.E
        if d in ("np.nan", "numpy.nan", "math.nan"):
            return sp.nan
        if d in ("np.inf", "numpy.inf", "math.inf"):
            return sp.oo
        if d is not None:
            if self.structured and d not in self.env and d.split(".")[0] not in ("np", "numpy", "math", "sp", "scipy"):
                return sp.Function("attr_" + n.attr)(self.tr(n.value))
            if d not in self.env and isinstance(n.value, ast.Name) and n.value.id in self.env and self.attr_of_bound:
                return sp.Function("attr_" + n.attr)(self.env[n.value.id])
            return self.sym(d)
        base = self.tr(n.value)
        return sp.Function("attr_" + n.attr)(base)

    def t_Subscript(self, n):
        txt = unparse(n)
        if txt in self.env:
            return self.env[txt]
        base = self.tr(n.value)
        idx = self._index(n.slice)
        if getattr(getattr(base, "func", None), "__name__", "") == "dict" and getattr(idx, "is_Symbol", False) and idx.name.startswith("'"):
            # lookup in a dict display built in the same function
            for a in base.args:
                if getattr(a.func, "__name__", "") == "kv_" + idx.name.strip("'"):
                    return a.args[0]
        if isinstance(base, sp.Tuple) and getattr(idx, "is_Integer", False) and -len(base) <= int(idx) < len(base):
            return base[int(idx)]           # element of a known display
        return sp.Function("getitem")(base, idx)

    def _index(self, s):
        if isinstance(s, ast.Slice):
            parts = [self.tr(x) if x is not None else sp.Symbol("None") for x in (s.lower, s.upper, s.step)]
            return sp.Function("slice")(*parts)
        if isinstance(s, ast.Tuple):
            return sp.Function("idx")(*[self._index(e) for e in s.elts])
        return self.tr(s)

    def t_UnaryOp(self, n):
        v = self.tr(n.operand)
        if isinstance(n.op, ast.USub):
            return -v
        if isinstance(n.op, ast.UAdd):
            return v
        if isinstance(n.op, ast.Not):
            return sp.Not(as_bool(v))
        if isinstance(n.op, ast.Invert):
            return sp.Function("invert")(v)
        raise AnalysisError(f"unary operator not translatable: `{unparse(n)}`")

    def t_BinOp(self, n):
        a, b = self.tr(n.left), self.tr(n.right)
        op = n.op
        if isinstance(a, sp.Tuple) or isinstance(b, sp.Tuple):
            # list arithmetic: repetition / concatenation
            if isinstance(op, ast.Mult):
                lst, k = (a, b) if isinstance(a, sp.Tuple) else (b, a)
                if getattr(k, "is_Integer", False) and 0 <= k <= 16:
                    return sp.Tuple(*(list(lst) * int(k)))
                return sp.Function("repeat")(lst, k)
            if isinstance(op, ast.Add):
                return sp.Function("concat")(a, b)
            raise AnalysisError(f"binary operator on a list not translatable: `{unparse(n)}`")
        if isinstance(op, ast.Add):
            return a + b
        if isinstance(op, ast.Sub):
            return a - b
        if isinstance(op, ast.Mult):
            return a * b
        if isinstance(op, ast.Div):
            return a / b
        if isinstance(op, ast.Pow):
            return a ** b
        if isinstance(op, ast.FloorDiv):
            return sp.floor(a / b)
        if isinstance(op, ast.Mod):
            return sp.Mod(a, b)
        if isinstance(op, (ast.BitAnd, ast.BitOr)):
            B = sp.logic.boolalg.Boolean
            if isinstance(a, B) and isinstance(b, B):
                return sp.And(a, b) if isinstance(op, ast.BitAnd) else sp.Or(a, b)
            return sp.Function("bitand" if isinstance(op, ast.BitAnd) else "bitor")(a, b)
        if isinstance(op, ast.BitXor):
            return sp.Function("bitxor")(a, b)
        if isinstance(op, (ast.LShift, ast.RShift)):
            return sp.Function("shift_" + type(op).__name__)(a, b)
        if isinstance(op, ast.MatMult):
            return sp.Function("matmul")(a, b)
        raise AnalysisError(f"binary operator not translatable: `{unparse(n)}`")

    def t_Compare(self, n):
        parts = []
        left = self.tr(n.left)
        for op, c in zip(n.ops, n.comparators):
            right = self.tr(c)
            parts.append(self._rel(op, left, right, n))
            left = right
        return parts[0] if len(parts) == 1 else sp.And(*parts)

    def _rel(self, op, a, b, n):
        if isinstance(op, ast.Gt):
            return sp.Gt(a, b, evaluate=False)
        if isinstance(op, ast.GtE):
            return sp.Ge(a, b, evaluate=False)
        if isinstance(op, ast.Lt):
            return sp.Lt(a, b, evaluate=False)
        if isinstance(op, ast.LtE):
            return sp.Le(a, b, evaluate=False)
        if isinstance(op, (ast.Eq, ast.Is)):
            return sp.Eq(a, b, evaluate=False)
        if isinstance(op, (ast.NotEq, ast.IsNot)):
            return sp.Ne(a, b, evaluate=False)
        if isinstance(op, ast.In):
            return sp.Eq(sp.Function("in_")(a, b), sp.true, evaluate=False)
        if isinstance(op, ast.NotIn):
            return sp.Ne(sp.Function("in_")(a, b), sp.true, evaluate=False)
        raise AnalysisError(f"comparison not translatable: `{unparse(n)}`")

    def t_BoolOp(self, n):
        vals = [as_bool(self.tr(v)) for v in n.values]
        return sp.And(*vals) if isinstance(n.op, ast.And) else sp.Or(*vals)

    def t_IfExp(self, n):
        mm = minmax_of_ifexp(n, self)
        if mm is not None:
            return mm
        return sp.Piecewise((self.tr(n.body), as_bool(self.tr(n.test))), (self.tr(n.orelse), True))

    def t_Tuple(self, n):
        out = []
        for e in n.elts:
            v = self.tr(e)
            if isinstance(e, ast.Starred) and getattr(getattr(v, "func", None), "__name__", "") == "splat" and isinstance(v.args[0], sp.Tuple):
                out.extend(v.args[0])           # (a, *(b, c)) is (a, b, c)
            else:
                out.append(v)
        return sp.Tuple(*out)

    t_List = t_Tuple
    t_Set = t_Tuple          # a set display of literals: used for membership tests only

    def t_Call(self, n: ast.Call):
        if self.unroll_comps and any(isinstance(a, ast.Starred) for a in n.args):
            # f(*xs) with xs a literal / unrolled sequence: spell the arguments out
            new_args = []
            changed = False
            for a in n.args:
                if isinstance(a, ast.Starred):
                    try:
                        v = self.tr(a.value)
                    except AnalysisError:
                        v = None
                    if v is not None and v in getattr(self, "_arity", {}):
                        v = sp.Tuple(*[sp.Function("item")(v, sp.Integer(i)) for i in range(self._arity[v])])
                    elif v is not None and getattr(self, "call_arity", None) is not None and isinstance(v, sp.core.function.AppliedUndef):
                        # f(*g(...)) where every return of the package function g is a tuple of the same length
                        k = self.call_arity(v.func.__name__)
                        if k is not None:
                            v = sp.Tuple(*[sp.Function("getitem")(v, sp.Integer(i)) for i in range(k)])
                    if isinstance(v, sp.Tuple):
                        changed = True
                        for i, x in enumerate(v):
                            nm = f"<splat{id(a)}_{i}>"
                            self.env[nm] = x
                            new_args.append(ast.copy_location(ast.Name(id=nm, ctx=ast.Load()), a))
                        continue
                new_args.append(a)
            if changed:
                n = ast.copy_location(ast.Call(func=n.func, args=new_args, keywords=n.keywords), n)
        if self.unroll_comps and any(k.arg is None for k in n.keywords):
            # f(**d) with d a dict display built in the same function: spell the keywords out
            new_kw = []
            changed = False
            for k in n.keywords:
                if k.arg is None:
                    try:
                        v = self.tr(k.value)
                    except AnalysisError:
                        v = None
                    if getattr(getattr(v, "func", None), "__name__", "") == "dict" and all(getattr(a.func, "__name__", "").startswith("kv_") for a in v.args):
                        changed = True
                        for i, a in enumerate(v.args):
                            nm = f"<kwsplat{id(k)}_{i}>"
                            self.env[nm] = a.args[0]
                            new_kw.append(ast.keyword(arg=a.func.__name__[3:], value=ast.copy_location(ast.Name(id=nm, ctx=ast.Load()), k.value)))
                        continue
                new_kw.append(k)
            if changed:
                n = ast.copy_location(ast.Call(func=n.func, args=n.args, keywords=new_kw), n)
        if self.call_hook is not None:
            r = self.call_hook(n, self)
            if r is not None:
                return r
        if not isinstance(n.func, (ast.Name, ast.Attribute)):
            # call of a computed callee, e.g. REGISTER[key](args)
            return sp.Function("call")(self.tr(n.func), *[self.tr(a) for a in n.args],
                                       *[sp.Function("kw_" + k.arg)(self.tr(k.value)) for k in n.keywords if k.arg])
        name = call_name(n)
        d = dotted(n.func) or name or "?"
        args = list(n.args)       # a starred argument that could not be spelled out stays visible as splat(x)
        A = lambda i: self.tr(args[i])  # noqa: E731
        npf = d.split(".")[-1] if d.split(".")[0] in ("np", "numpy", "math", "sp", "scipy") else None
        fn = npf or (name if isinstance(n.func, ast.Name) else None)
        if fn in ("tuple", "list") and isinstance(n.func, ast.Name) and len(args) == 1 and not n.keywords:
            v0 = A(0)
            if isinstance(v0, sp.Tuple):
                return v0            # tuple(<display / unrolled comprehension>) is that sequence
            return sp.Function(fn)(v0)
        if fn == "zip" and isinstance(n.func, ast.Name) and args and not n.keywords and self.unroll_comps:
            cols = [self.tr(a) for a in args]
            if all(isinstance(c, sp.Tuple) for c in cols) and min(len(c) for c in cols) <= 8:
                m = min(len(c) for c in cols)
                return sp.Tuple(*[sp.Tuple(*[c[i] for c in cols]) for i in range(m)])      # zip of known displays: its rows
        if fn in ("all", "any") and isinstance(n.func, ast.Name) and len(args) == 1 and not n.keywords:
            v0 = A(0)
            if isinstance(v0, sp.Tuple) and len(v0) > 0:
                parts = [as_bool(x) for x in v0]
                return sp.And(*parts) if fn == "all" else sp.Or(*parts)
        if fn in ("sqrt", "abs", "absolute", "fabs", "exp", "log", "square") and len(args) >= 1:
            v0 = A(0)
            if isinstance(v0, sp.Tuple):
                # an elementwise function of a display (np.sqrt(np.array([a, b]))): the display of the function values
                f1 = {"sqrt": sp.sqrt, "abs": sp.Abs, "absolute": sp.Abs, "fabs": sp.Abs, "exp": sp.exp, "log": sp.log, "square": (lambda x: x ** 2)}[fn]

                def each(t):
                    return sp.Tuple(*[each(x) for x in t]) if isinstance(t, sp.Tuple) else f1(t)
                return each(v0)
        if fn in ("sqrt",):
            return sp.sqrt(A(0))
        if fn in ("abs", "absolute", "fabs"):
            return sp.Abs(A(0))
        if fn == "exp":
            return sp.exp(A(0))
        if fn == "log":
            return sp.log(A(0))
        if fn == "log10":
            return sp.log(A(0)) / sp.log(10)
        if fn == "log2":
            return sp.log(A(0)) / sp.log(2)
        if fn == "sin":
            return sp.sin(A(0))
        if fn == "cos":
            return sp.cos(A(0))
        if fn == "tan":
            return sp.tan(A(0))
        if fn == "radians" or fn == "deg2rad":
            return A(0) * sp.pi / 180
        if fn == "degrees" or fn == "rad2deg":
            return A(0) * 180 / sp.pi
        if fn == "power" or fn == "pow":
            return A(0) ** A(1)
        if fn == "square":
            return A(0) ** 2
        if fn == "hypot":
            return sp.sqrt(A(0) ** 2 + A(1) ** 2)
        if fn in ("maximum", "fmax") or (fn == "max" and len(args) >= 2):
            vals_ = [self.tr(a) for a in args]
            try:
                return sp.Max(*vals_)
            except (ValueError, TypeError):
                return sp.Function("max")(*vals_)          # operands sympy cannot order (lengths of opaque objects)
        if fn in ("minimum", "fmin") or (fn == "min" and len(args) >= 2):
            vals_ = [self.tr(a) for a in args]
            try:
                return sp.Min(*vals_)
            except (ValueError, TypeError):
                return sp.Function("min")(*vals_)
        if fn == "where" and len(args) == 3:
            fake = ast.IfExp(test=args[0], body=args[1], orelse=args[2])
            mm = minmax_of_ifexp(fake, self)
            if mm is not None:
                return mm
            return sp.Piecewise((A(1), A(0)), (A(2), True))
        if fn in ("float", "double", "float64", "asarray", "array", "real", "ascontiguousarray", "asanyarray", "asfortranarray") and args:
            return A(0) if fn != "real" else sp.Function("real")(A(0))
        if fn == "int" and args:
            return sp.Function("int")(A(0))
        if fn == "round" and args:
            return sp.Function("round")(*[self.tr(a) for a in args])
        if fn in ("floor",):
            return sp.floor(A(0))
        if fn in ("ceil",):
            return sp.ceiling(A(0))
        if fn == "len" and args:
            return sp.Function("len")(A(0))
        if fn == "getattr" and isinstance(n.func, ast.Name) and len(args) == 2:
            nm = self.tr(args[1])
            if nm.is_Symbol and nm.name.startswith("'") and nm.name.strip("'").isidentifier():
                if self.structured:
                    return sp.Function("attr_" + nm.name.strip("'"))(A(0))
                # getattr(x, "name") is the attribute x.name: translate it as that attribute is translated here
                return self.tr(ast.copy_location(ast.Attribute(value=args[0], attr=nm.name.strip("'"), ctx=ast.Load()), n))
        if fn == "slice" and isinstance(n.func, ast.Name) and 1 <= len(args) <= 3 and any(isinstance(a, ast.Starred) for a in args):
            return sp.Function("slice")(*[self.tr(a) for a in args])        # slice(*bounds): the bounds are spread where their value is known
        if fn == "slice" and isinstance(n.func, ast.Name) and 1 <= len(args) <= 3:
            vals = [self.tr(a) for a in args]
            NONE = sp.Symbol("None")
            if len(vals) == 1:
                vals = [NONE, vals[0], NONE]
            elif len(vals) == 2:
                vals = vals + [NONE]
            return sp.Function("slice")(*vals)
        if fn == "logical_and":
            return sp.And(A(0), A(1))
        if fn == "logical_or":
            return sp.Or(A(0), A(1))
        if fn == "conjugate" or fn == "conj":
            return sp.conjugate(A(0))
        if isinstance(n.func, ast.Name) and n.func.id == "dict" and not args:
            return sp.Function("dict")(*[sp.Function("kv_" + k.arg)(self.tr(k.value)) for k in n.keywords if k.arg])
        # method calls: x.method(args) -> method(x, args)
        if isinstance(n.func, ast.Attribute) and npf is None:
            recv = self.tr(n.func.value)
            return sp.Function(n.func.attr)(recv, *[self.tr(a) for a in args],
                                            *[self.tr(k.value) for k in n.keywords if k.arg])
        fname = (npf or name or "call")
        return sp.Function(fname)(*[self.tr(a) for a in args],
                                  *[self.tr(k.value) for k in n.keywords if k.arg])

    def _unrolled_comp(self, n):
        """Comprehension over a short literal sequence (or a zip with one): expanded element by element."""
        if len(n.generators) != 1 or n.generators[0].ifs:
            return None
        g = n.generators[0]
        rows = None
        itv = None
        if isinstance(g.iter, ast.Call) and call_name(g.iter) == "zip" and g.iter.args and not g.iter.keywords:
            cols = [self.tr(a) for a in g.iter.args]
            ns = [len(c) for c in cols if isinstance(c, sp.Tuple)]
            if ns and min(ns) <= 8:
                m = min(ns)
                rows = [sp.Tuple(*[(c[i] if isinstance(c, sp.Tuple) else sp.Function("getitem")(c, sp.Integer(i))) for c in cols]) for i in range(m)]
        else:
            itv = self.tr(g.iter)
            if isinstance(itv, sp.Tuple) and len(itv) <= 8:
                rows = list(itv)
        if rows is None:
            return None
        saved = dict(self.env)
        out = []
        try:
            for row in rows:
                if isinstance(g.target, ast.Name):
                    self.env[g.target.id] = row
                elif isinstance(g.target, (ast.Tuple, ast.List)):
                    for j, e in enumerate(g.target.elts):
                        if isinstance(e, ast.Name):
                            self.env[e.id] = row[j] if isinstance(row, sp.Tuple) and j < len(row) else sp.Function("getitem")(row, sp.Integer(j))
                if isinstance(n, ast.DictComp):
                    k = self.tr(n.key)
                    v = self.tr(n.value)
                    if k.is_Symbol and k.name.startswith("'"):
                        out.append(sp.Function("kv_" + k.name.strip("'"))(v))
                    else:
                        out.append(sp.Function("kv")(k, v))
                else:
                    out.append(self.tr(n.elt))
        finally:
            self.env = saved
        return sp.Function("dict")(*out) if isinstance(n, ast.DictComp) else sp.Tuple(*out)

    def t_ListComp(self, n):
        if self.unroll_comps:
            r = self._unrolled_comp(n)
            if r is not None:
                return r
        # bound variables are renamed canonically so that the result does not depend on their names
        saved = dict(self.env)
        depth = getattr(self, "_comp_depth", 0)
        self._comp_depth = depth + len(n.generators)
        parts = []
        try:
            for i, g in enumerate(n.generators):
                it = self.tr(g.iter)
                tv = sp.Symbol(f"_it{depth + i}")
                if getattr(getattr(it, "func", None), "__name__", "") == "zip":
                    self.__dict__.setdefault("_arity", {})[tv] = len(it.args)      # every element is a tuple of this many items
                if isinstance(g.target, ast.Name):
                    self.env[g.target.id] = tv
                elif isinstance(g.target, (ast.Tuple, ast.List)):
                    for j, e in enumerate(g.target.elts):
                        if isinstance(e, ast.Name):
                            self.env[e.id] = sp.Function("item")(tv, sp.Integer(j))
                conds = [self.tr(c) for c in g.ifs]
                parts.append(sp.Function("gen")(tv, it, *conds))
            elt = self.tr(n.elt) if not isinstance(n, ast.DictComp) else sp.Function("kv")(self.tr(n.key), self.tr(n.value))
        finally:
            self.env = saved
            self._comp_depth = depth
        return sp.Function("comp")(elt, *parts)

    t_GeneratorExp = t_ListComp
    t_SetComp = t_ListComp
    t_DictComp = t_ListComp

    def t_NamedExpr(self, n):
        v = self.tr(n.value)
        if isinstance(n.target, ast.Name):
            self.env[n.target.id] = v          # (x := e): the value, and x is bound from here on
            self.__dict__.setdefault("_named", {})[n.target.id] = v
        return v

    def t_Lambda(self, n):
        a = n.args
        if a.vararg or a.kwarg or a.kwonlyargs or a.defaults or a.kw_defaults:
            raise AnalysisError(f"lambda with defaults / star parameters: `{unparse(n)}`")
        depth = getattr(self, "_lambda_depth", 0)
        params = [sp.Symbol(f"_lp{depth}_{i}", real=True) for i, _ in enumerate(a.posonlyargs + a.args)]
        saved = dict(self.env)
        self._lambda_depth = depth + 1
        try:
            for p, x in zip(params, a.posonlyargs + a.args):
                self.env[x.arg] = p
            body = self.tr(n.body)
        finally:
            self.env = saved
            self._lambda_depth = depth
        return sp.Function("lambda_")(sp.Tuple(*params), body)

    def t_Starred(self, n):
        return sp.Function("splat")(self.tr(n.value))

    def t_Dict(self, n):
        items = []
        for k, v in zip(n.keys, n.values):
            if isinstance(k, ast.Constant) and isinstance(k.value, str):
                items.append(sp.Function("kv_" + k.value)(self.tr(v)))
            elif k is None:
                sv = self.tr(v)
                if getattr(getattr(sv, "func", None), "__name__", "") == "dict":
                    items.extend(sv.args)       # {**d, ...} with d a display: its items
                else:
                    items.append(sp.Function("kv_splat")(sv))
            else:
                items.append(sp.Function("kv")(self.tr(k), self.tr(v)))
        return sp.Function("dict")(*items)

    def t_JoinedStr(self, n):
        # f-strings whose parts are all literal text or string-valued names fold to a string constant
        parts = []
        for v in n.values:
            if isinstance(v, ast.Constant) and isinstance(v.value, str):
                parts.append(v.value)
            elif isinstance(v, ast.FormattedValue) and v.format_spec is None and v.conversion == -1:
                try:
                    x = self.tr(v.value)
                except AnalysisError:
                    return sp.Symbol("<str>")
                if x.is_Symbol and x.name.startswith("'") and x.name.endswith("'"):
                    parts.append(x.name[1:-1])
                else:
                    return sp.Symbol("<str>")
            else:
                return sp.Symbol("<str>")
        return sp.Symbol("'" + "".join(parts) + "'")


def minmax_of_ifexp(n: ast.IfExp, T: Translator) -> Optional[sp.Expr]:
    """``a if a > b else b`` / ``np.where(a > b, a, b)`` -> Max(a, b) (and the Min forms)."""
    t = n.test
    if not (isinstance(t, ast.Compare) and len(t.ops) == 1):
        return None
    a, b = T.tr(t.left), T.tr(t.comparators[0])
    x, y = T.tr(n.body), T.tr(n.orelse)
    if any(v in (sp.true, sp.false) or isinstance(v, (sp.core.relational.Relational, sp.And, sp.Or, sp.Not)) for v in (a, b, x, y)):
        return None         # `True if a < b else False`: a decision, not a min/max
    op = t.ops[0]
    if isinstance(op, (ast.Gt, ast.GtE)):
        if sp.simplify(x - a) == 0 and sp.simplify(y - b) == 0:
            return sp.Max(a, b)
        if sp.simplify(x - b) == 0 and sp.simplify(y - a) == 0:
            return sp.Min(a, b)
    if isinstance(op, (ast.Lt, ast.LtE)):
        if sp.simplify(x - a) == 0 and sp.simplify(y - b) == 0:
            return sp.Min(a, b)
        if sp.simplify(x - b) == 0 and sp.simplify(y - a) == 0:
            return sp.Max(a, b)
    return None


def forward_substitute(stmts: List[ast.stmt], T: Translator, stop_at: Optional[ast.stmt] = None) -> Translator:
    """Process straight-line Assign/AugAssign statements, updating T.env (name -> expression)."""
    for st in stmts:
        if st is stop_at:
            break
        if isinstance(st, ast.Assign) and len(st.targets) == 1:
            t = st.targets[0]
            if isinstance(t, ast.Name):
                T.env[t.id] = T.tr(st.value)
            elif isinstance(t, (ast.Tuple, ast.List)) and isinstance(st.value, (ast.Tuple, ast.List)) \
                    and len(t.elts) == len(st.value.elts):
                vals = [T.tr(v) for v in st.value.elts]
                for e, v in zip(t.elts, vals):
                    if isinstance(e, ast.Name):
                        T.env[e.id] = v
            elif isinstance(t, (ast.Tuple, ast.List)):
                v = T.tr(st.value)
                for i, e in enumerate(t.elts):
                    if isinstance(e, ast.Name):
                        # unpacking a known display gives its elements
                        T.env[e.id] = v[i] if isinstance(v, sp.Tuple) and i < len(v) else sp.Function("item")(v, sp.Integer(i))
            elif isinstance(t, (ast.Attribute, ast.Subscript)):
                T.env[unparse(t)] = T.tr(st.value)
        elif isinstance(st, ast.AugAssign):
            key = st.target.id if isinstance(st.target, ast.Name) else unparse(st.target)
            cur = T.env.get(key)
            if cur is None:
                cur = T.tr(st.target)
            rhs = T.tr(st.value)
            op = st.op
            if isinstance(op, ast.Add):
                T.env[key] = cur + rhs
            elif isinstance(op, ast.Sub):
                T.env[key] = cur - rhs
            elif isinstance(op, ast.Mult):
                T.env[key] = cur * rhs
            elif isinstance(op, ast.Div):
                T.env[key] = cur / rhs
            elif isinstance(op, ast.Pow):
                T.env[key] = cur ** rhs
            else:
                raise AnalysisError(f"augmented assignment not translatable: `{unparse(st)}`")
        elif isinstance(st, (ast.Expr, ast.Pass)):
            continue
        else:
            continue
    return T


class _Timeout(BaseException):
    """Not an Exception subclass: sympy swallows Exception in several simplification helpers."""


def _limited(fn, seconds: float = 6.0):
    """Run fn() under a wall-clock limit (the simplifier can run away on unrelated expressions).
    Only the main thread can arm the alarm; elsewhere fn runs unbounded."""
    import signal
    import threading
    if threading.current_thread() is not threading.main_thread():
        return fn()

    def handler(signum, frame):
        raise _Timeout()
    old = signal.signal(signal.SIGALRM, handler)
    signal.setitimer(signal.ITIMER_REAL, seconds)
    try:
        return fn()
    finally:
        signal.setitimer(signal.ITIMER_REAL, 0)
        signal.signal(signal.SIGALRM, old)


def equal(a: sp.Expr, b: sp.Expr) -> bool:
    """Algebraic identity over the reals (canonical forms).  Cheap tests first; the full simplifier is
    only used on small differences and under a time limit (undecided counts as not equal)."""
    try:
        if a == b:
            return True
        d = a - b
        if d == 0:
            return True
        # different sets of atoms that cannot cancel: a bare symbol against an expression that
        # does not contain it at all
        if a.is_Symbol and not b.has(a) and not b.is_Symbol:
            return False
        if b.is_Symbol and not a.has(b) and not a.is_Symbol:
            return False
        ops = sp.count_ops(d)
        if ops > 120:
            def big():
                e = sp.expand(d)
                if e == 0:
                    return True
                return sp.cancel(sp.together(e)) == 0
            return bool(_limited(big))

        def small():
            d1 = sp.simplify(d)
            if d1 == 0:
                return True
            d2 = sp.simplify(sp.expand(sp.expand_trig(d)))
            if d2 == 0:
                return True
            return sp.simplify(sp.expand_log(d2, force=True)) == 0
        return bool(_limited(small))
    except _Timeout:
        return False
    except Exception:
        return False


# ----------------------------------------------------------------------------- degrees
def degree(e: sp.Expr, scale: Dict[sp.Symbol, int], linear_funcs: Set[str] = LINEAR_FUNCS) -> Optional[sp.Expr]:
    """Homogeneity degree of ``e`` when every symbol s in ``scale`` is multiplied by k**scale[s]
    (k > 0).  Returns the exponent of k (a rational), or None if ``e`` is not homogeneous.
    The literal 0 is polymorphic (returns the marker ``sp.zoo`` internally -> any degree)."""
    d = _deg(e, scale, linear_funcs)
    if d is ANY:
        return sp.Integer(0)
    return d


ANY = sp.Symbol("__any_degree__")


def _same(ds):
    ds = [d for d in ds if d is not ANY]
    if not ds:
        return ANY
    if any(d is None for d in ds):
        return None
    first = ds[0]
    for d in ds[1:]:
        if sp.simplify(d - first) != 0:
            return None
    return first


def _deg(e, scale, lin):
    if e in scale:
        return sp.Integer(scale[e])
    if e.is_Number:
        return ANY if e == 0 else sp.Integer(0)
    if e.is_Symbol or e in (sp.pi, sp.E):
        return sp.Integer(0)
    if e is sp.nan or e is sp.oo:
        return ANY
    if e.is_Add:
        return _same([_deg(a, scale, lin) for a in e.args])
    if e.is_Mul:
        tot = sp.Integer(0)
        anyflag = False
        for a in e.args:
            d = _deg(a, scale, lin)
            if d is None:
                return None
            if d is ANY:
                anyflag = True
                continue
            tot += d
        return ANY if anyflag else tot
    if e.is_Pow:
        b, x = e.args
        db = _deg(b, scale, lin)
        dx = _deg(x, scale, lin)
        if db is None or dx is None:
            return None
        if dx is not ANY and sp.simplify(dx) != 0:
            return None
        if db is ANY:
            return ANY
        if sp.simplify(db) == 0:
            return sp.Integer(0)
        if x.is_Number:
            return db * x
        return None
    if isinstance(e, (sp.Max, sp.Min)):
        return _same([_deg(a, scale, lin) for a in e.args])
    if isinstance(e, (sp.Abs, sp.conjugate, sp.re, sp.im)):
        return _deg(e.args[0], scale, lin)
    if isinstance(e, sp.Piecewise):
        # values must agree in degree; conditions must be scale invariant
        vals = []
        for (v, c) in e.args:
            if c not in (True, sp.true) and _deg(c, scale, lin) is None:
                return None
            vals.append(_deg(v, scale, lin))
        return _same(vals)
    if isinstance(e, (sp.Gt, sp.Ge, sp.Lt, sp.Le, sp.Eq, sp.Ne)):
        d = _same([_deg(a, scale, lin) for a in e.args])
        if d is None:
            return None
        return sp.Integer(0)
    if isinstance(e, (sp.And, sp.Or, sp.Not)):
        for a in e.args:
            if _deg(a, scale, lin) is None:
                return None
        return sp.Integer(0)
    if isinstance(e, (sp.exp, sp.log, sp.sin, sp.cos, sp.tan, sp.floor, sp.ceiling)):
        d = _deg(e.args[0], scale, lin)
        if d is ANY or (d is not None and sp.simplify(d) == 0):
            return sp.Integer(0)
        return None
    if isinstance(e, sp.Tuple):
        return _same([_deg(a, scale, lin) for a in e.args])
    if e.is_Function:
        name = e.func.__name__
        ds = [_deg(a, scale, lin) for a in e.args]
        if name in lin:
            # the first n data arguments share the result's degree (n = 1 unless ``lin`` is a mapping that
            # says otherwise); the remaining arguments must be scale invariant
            ndata = lin[name] if isinstance(lin, dict) else 1
            for d in ds[ndata:]:
                if d is None or (d is not ANY and sp.simplify(d) != 0):
                    return None
            return _same(ds[:ndata]) if ds else sp.Integer(0)
        if any(d is None for d in ds):
            return None
        if all(d is ANY or sp.simplify(d) == 0 for d in ds):
            return sp.Integer(0)
        return None
    return None
