"""Decision tables: enumerate the paths through loop-free code and canonicalise what each path does.

``leaves(stmts, ...)`` walks straight-line code with if/elif/else, continue/break/return/raise (no
inner loops are entered: a nested loop is recorded as an opaque event) and returns one ``Leaf`` per
path: the path condition (list of canonical sympy conditions with their truth), the forward-
substituted environment, the ordered events (accumulations, subscript stores, calls) and how the path
ends.  Helper calls whose bodies are loop-free are inlined as Piecewise values.  This is
canonicalisation of a finite decision table read from the source - no execution, no solver.
"""
from __future__ import annotations

import ast
from dataclasses import dataclass, field
from typing import Callable, Dict, List, Optional, Sequence, Set, Tuple

import sympy as sp

from .astutil import call_name, unparse, bind_call
from .expr import Translator, equal, as_bool
from .model import AnalysisError, Func, Program

MAX_LEAVES = 1024


@dataclass
class Leaf:
    conds: List[Tuple[sp.Expr, bool]]
    env: Dict[str, sp.Expr]
    events: List[Tuple[str, str, sp.Expr, ast.AST]]     # (kind, target text, value, stmt); kind: acc+ acc* store call loop
    exit: str = "fall"                                   # fall | continue | break | return | raise
    value: Optional[sp.Expr] = None                      # return value
    snaps: Dict[int, Tuple[Dict[str, sp.Expr], int]] = field(default_factory=dict)   # id(loop stmt) -> (env, #conds) on entry
    store_at: Dict[int, Tuple[sp.Expr, sp.Expr]] = field(default_factory=dict)       # id(store stmt) -> (base value, index value)
    cond_nodes: List[ast.AST] = field(default_factory=list)                           # the `if` statement behind each entry of conds

    def cond(self) -> sp.Expr:
        cs = []
        for c, t in self.conds:
            cs.append(c if t else sp.Not(c))
        return sp.And(*cs) if cs else sp.true

    def events_of(self, kind: str, target: Optional[str] = None):
        return [e for e in self.events if e[0] == kind and (target is None or e[1] == target)]


class PathTable:
    def __init__(self, prog: Optional[Program] = None, module=None, accumulators: Sequence[str] = (),
                 env: Optional[Dict[str, sp.Expr]] = None, call_hook: Optional[Callable] = None, inline_depth: int = 2,
                 positive: Sequence[str] = (), structured: bool = False, scope: Optional[Func] = None,
                 skip_if: Optional[Callable[[ast.If], bool]] = None, unroll: bool = False, opaque: Sequence[str] = (),
                 search_loops: bool = False, sum_loops: bool = False, map_loops: bool = False):
        self.prog = prog
        self.module = module
        self.acc = set(accumulators)
        self.env0 = dict(env or {})
        self.user_hook = call_hook
        self.inline_depth = inline_depth
        self.positive = set(positive)
        self.structured = structured
        self.scope = scope              # enclosing function: its nested closures may be inlined
        self.skip_if = skip_if          # `if` statements to ignore altogether (e.g. verbosity blocks, checked separately)
        self.unroll = unroll            # unroll loops over short literal / module-constant sequences
        self.opaque = set(opaque)       # functions never inlined
        self.search_loops = search_loops    # summarise `for ...: if test: ...; break` loops as found / not found
        self.sum_loops = sum_loops          # summarise straight-line accumulation loops: acc += g(x)  ->  acc + Sum(g, seq)
        self.map_loops = map_loops          # summarise loops that fill A[i] = g(x_i) for every element: A = SEQ(g(<e>), seq)

    # ------------------------------------------------------------------ translation with inlining
    def _T(self, env: Dict[str, sp.Expr], depth: int = 0) -> Translator:
        T = Translator(env=env, positive=self.positive)
        T._depth = depth
        T.attr_of_bound = True
        T.structured = self.structured
        T.unroll_comps = self.unroll
        if self.prog is not None:
            T.call_arity = lambda name, prog=self.prog: _return_arity(prog, name)
        if self.unroll and self.module is not None:
            mod = self.module

            def const_hook(name, mod=mod):
                # module-level constants that are literal numbers / tuples of literals
                sym = mod.symbols.get(name)
                if sym and sym[0] != "const" and self.prog is not None:
                    r = self.prog.resolve_name(mod, name)       # a constant imported from another module of the package
                    if r and r[0] == "const":
                        sym = ("const", r[1][0])
                if sym and sym[0] == "const" and _is_literal(sym[1]):
                    return Translator().tr(sym[1])
                if sym and sym[0] == "const" and _is_table(sym[1]):
                    # a module-level lookup table with string keys: its entries (literals, function references, lambdas)
                    try:
                        return Translator().tr(sym[1])
                    except AnalysisError:
                        return None
                return None
            T.symbol_hook = const_hook

        def hook(call, TT):
            if self.user_hook is not None:
                r = self.user_hook(call, TT)
                if r is not None:
                    return r
            nm = call_name(call)
            if nm in ("zeros_like", "zeros") and isinstance(call.func, ast.Attribute):
                return sp.Integer(0)
            if nm in ("ones_like", "ones") and isinstance(call.func, ast.Attribute):
                return sp.Integer(1)
            if isinstance(call.func, ast.Name) and call.func.id in TT.env and not any(isinstance(a, ast.Starred) for a in call.args):
                # a local bound to a function value (e.g. pre_fxn, post_fxn = factory(...)): name it by its value
                return sp.Function("call")(TT.env[call.func.id], *[TT.tr(a) for a in call.args],
                                           *[sp.Function("kw_" + k.arg)(TT.tr(k.value)) for k in call.keywords if k.arg])
            if self.prog is not None and isinstance(call.func, ast.Name) and call.func.id not in TT.env and depth < self.inline_depth \
                    and call.func.id not in self.opaque:
                r = self.prog.resolve_name(self.module, call.func.id) if self.module is not None else None
                if r and r[0] == "func":
                    return self._inline(r[1], call, TT, depth)
                if self.scope is not None:
                    g = self.prog.funcs.get(f"{self.scope.qualname}.<locals>.{call.func.id}")
                    if g is not None:
                        return self._inline(g, call, TT, depth)
            if self.prog is not None and isinstance(call.func, ast.Attribute) and isinstance(call.func.value, ast.Name) and depth < self.inline_depth \
                    and call.func.attr not in self.opaque and call.func.value.id not in TT.env and self.module is not None:
                # Class.static_helper(...): a static method of a class of the package, named through its class
                r = self.prog.resolve_name(self.module, call.func.value.id)
                if r and r[0] == "class":
                    g = r[1].find_method(call.func.attr)
                    if g is not None and "staticmethod" in g.decorators:
                        return self._inline(g, call, TT, depth)
            return None
        T.call_hook = hook
        return T

    def _inline(self, g: Func, call: ast.Call, T: Translator, depth: int) -> Optional[sp.Expr]:
        if any(isinstance(n, (ast.For, ast.While, ast.Try, ast.With)) for n in ast.walk(g.node)):
            return None
        allp = list(g.params) + [k for k in getattr(g, "kwonly", []) if k not in g.params]
        bound = bind_call(call, allp)
        closure = getattr(g, "kind", "") == "nested"
        env = dict(T.env) if closure else {}       # a closure sees the enclosing function's bindings
        for p in allp:
            if p in bound:
                env[p] = T.tr(bound[p])
            elif p in g.defaults():
                env[p] = (T if closure else Translator()).tr(g.defaults()[p])
            else:
                return None
        body = [st for st in g.node.body if not (isinstance(st, ast.Expr) and isinstance(st.value, ast.Constant))]
        sub = PathTable(self.prog, g.module, (), env, self.user_hook, self.inline_depth, structured=self.structured, unroll=self.unroll)
        try:
            ls = sub._walk(body, Leaf([], dict(env), []), depth + 1)
        except AnalysisError:
            return None
        rets = [l for l in ls if l.exit == "return" and l.value is not None]
        if len(rets) != len(ls) or not rets:
            return None
        if len(rets) == 1:
            return rets[0].value
        pieces = [(l.value, l.cond()) for l in rets[:-1]] + [(rets[-1].value, True)]
        return sp.Piecewise(*pieces, evaluate=False)

    # ------------------------------------------------------------------ walking
    def leaves(self, stmts: List[ast.stmt]) -> List[Leaf]:
        return self._walk(stmts, Leaf([], dict(self.env0), []), 0)

    def _walk(self, stmts: List[ast.stmt], leaf: Leaf, depth: int) -> List[Leaf]:
        cur = [leaf]
        for st in stmts:
            nxt: List[Leaf] = []
            for l in cur:
                if l.exit != "fall":
                    nxt.append(l)
                    continue
                nxt += self._stmt(st, l, depth)
            cur = nxt
            if len(cur) > MAX_LEAVES:
                raise AnalysisError("decision table too large")
        return cur

    def _row_store(self, t: ast.Subscript, v, l: Leaf, T: Translator):
        """`X[k] = v` with a literal row index on a local array allocated with a literal number of rows: model the rows."""
        if not (self.unroll and isinstance(t.value, ast.Name) and t.value.id in l.env):
            return
        try:
            k = T._index(t.slice)
        except AnalysisError:
            return
        cur = l.env[t.value.id]
        if getattr(getattr(cur, "func", None), "__name__", "") == "dict" and getattr(k, "is_Symbol", False) and k.name.startswith("'"):
            # a local dict filled key by key: model its entries (later stores replace earlier ones)
            nm = "kv_" + k.name.strip("'")
            kept = [a for a in cur.args if getattr(a.func, "__name__", "") != nm]
            l.env[t.value.id] = sp.Function("dict")(*kept, sp.Function(nm)(v))
            return
        if not (k.is_Integer and k >= 0):
            return
        cur = l.env[t.value.id]
        if isinstance(cur, sp.Tuple) and k < len(cur):
            l.env[t.value.id] = sp.Tuple(*[v if i == k else c for i, c in enumerate(cur)])
            return
        fn = getattr(getattr(cur, "func", None), "__name__", "")
        if fn in ("empty", "zeros") and cur.args and isinstance(cur.args[0], sp.Tuple) and cur.args[0] and cur.args[0][0].is_Integer and k < cur.args[0][0] <= 8:
            n = int(cur.args[0][0])
            base = sp.Symbol(f"<unset {t.value.id}>")
            l.env[t.value.id] = sp.Tuple(*[v if i == k else sp.Function("getitem")(base, sp.Integer(i)) for i in range(n)])

    def _copy(self, l: Leaf) -> Leaf:
        return Leaf(list(l.conds), dict(l.env), list(l.events), l.exit, l.value, dict(l.snaps), dict(l.store_at), list(l.cond_nodes))

    def _stmt(self, st: ast.stmt, l: Leaf, depth: int) -> List[Leaf]:
        self.cur_leaf = l           # hooks may consult the path so far (e.g. to tag calls with a state epoch)
        T = self._T(l.env, depth)
        if isinstance(st, ast.Assign) and len(st.targets) == 1:
            t = st.targets[0]
            v = T.tr(st.value)
            l.env.update(getattr(T, "_named", {}))
            if isinstance(t, ast.Name):
                l.env[t.id] = v
            elif isinstance(t, (ast.Tuple, ast.List)):
                if isinstance(st.value, (ast.Tuple, ast.List)) and len(st.value.elts) == len(t.elts):
                    vals = [T.tr(x) for x in st.value.elts]
                elif isinstance(v, sp.Tuple) and len(v) == len(t.elts):
                    vals = list(v)
                elif comp_element(v, 0) is not None:
                    # a, b, c = (f(x) for x in S): the i-th element of a map is the map of the i-th element
                    vals = [comp_element(v, i) for i in range(len(t.elts))]
                else:
                    vals = [sp.Function("getitem")(v, sp.Integer(i)) for i in range(len(t.elts))]
                work = list(zip(t.elts, vals))
                while work:
                    e, vv = work.pop(0)
                    if isinstance(e, (ast.Tuple, ast.List)):
                        # nested target: (a, b), c = ...
                        if isinstance(vv, sp.Tuple) and len(vv) == len(e.elts):
                            sub = list(vv)
                        else:
                            sub = [sp.Function("getitem")(vv, sp.Integer(i)) for i in range(len(e.elts))]
                        work = list(zip(e.elts, sub)) + work
                        continue
                    if isinstance(e, ast.Name):
                        l.env[e.id] = vv
                    elif isinstance(e, (ast.Attribute, ast.Subscript)):
                        l.events.append(("store", unparse(e), vv, st))
                        if isinstance(e, ast.Subscript):
                            try:
                                l.store_at[(id(st), unparse(e))] = (T.tr(e.value), T._index(e.slice))
                            except AnalysisError:
                                pass
                            self._row_store(e, vv, l, T)
            else:
                l.events.append(("store", unparse(t), v, st))
                if isinstance(t, ast.Attribute) and isinstance(t.value, ast.Name) and t.value.id in l.env and t.value.id not in ("self", "cls"):
                    l.env[f"{t.value.id}.{t.attr}"] = v         # field of a local object: later reads of x.attr see it
                if isinstance(t, ast.Subscript):
                    try:
                        l.store_at[id(st)] = (T.tr(t.value), T._index(t.slice))
                    except AnalysisError:
                        pass
                    self._row_store(t, v, l, T)
            return [l]
        if isinstance(st, ast.AugAssign):
            name = unparse(st.target)
            rhs = T.tr(st.value)
            if name in self.acc:
                kind = {ast.Add: "acc+", ast.Mult: "acc*", ast.Sub: "acc-", ast.Div: "acc/"}.get(type(st.op), "acc?")
                l.events.append((kind, name, rhs, st))
                return [l]
            if isinstance(st.target, ast.Name):
                cur = l.env.get(name, T.sym(name))
                l.env[name] = {ast.Add: cur + rhs, ast.Sub: cur - rhs, ast.Mult: cur * rhs, ast.Div: cur / rhs,
                               ast.Pow: cur ** rhs}.get(type(st.op), sp.Function("aug")(cur, rhs))
            else:
                l.events.append(("store", name, sp.Function("aug_" + type(st.op).__name__)(rhs), st))
            return [l]
        if isinstance(st, ast.If) and self.skip_if is not None and self.skip_if(st):
            return [l]
        if isinstance(st, ast.If):
            c = as_bool(T.tr(st.test))
            l.env.update(getattr(T, "_named", {}))      # names bound by (x := e) in the test
            if c == sp.true:
                return self._walk(st.body, l, depth)
            if c == sp.false:
                return self._walk(st.orelse, l, depth)
            decided = _decided_by_path(l, c)
            if decided is True:
                return self._walk(st.body, l, depth)
            if decided is False:
                return self._walk(st.orelse, l, depth)
            a, b = self._copy(l), self._copy(l)
            a.conds.append((c, True))
            b.conds.append((c, False))
            a.cond_nodes.append(st)
            b.cond_nodes.append(st)
            return self._walk(st.body, a, depth) + self._walk(st.orelse, b, depth)
        if isinstance(st, ast.Continue):
            l.exit = "continue"
            return [l]
        if isinstance(st, ast.Break):
            l.exit = "break"
            return [l]
        if isinstance(st, ast.Return):
            l.exit = "return"
            l.value = T.tr(st.value) if st.value is not None else None
            return [l]
        if isinstance(st, ast.Raise):
            l.exit = "raise"
            return [l]
        if isinstance(st, ast.Expr) and isinstance(st.value, ast.Call) and isinstance(st.value.func, ast.Attribute) \
                and st.value.func.attr == "append" and isinstance(st.value.func.value, ast.Name) and len(st.value.args) == 1 \
                and isinstance(l.env.get(st.value.func.value.id), sp.Tuple):
            # a local list built by appends: model its content
            v = T.tr(st.value.args[0])
            l.env[st.value.func.value.id] = sp.Tuple(*l.env[st.value.func.value.id], v)
            l.events.append(("call", unparse(st.value.func), sp.Function("append")(sp.Symbol(st.value.func.value.id, real=True), v), st))
            return [l]
        if isinstance(st, ast.Expr):
            if isinstance(st.value, ast.Call):
                try:
                    l.events.append(("call", unparse(st.value.func), T.tr(st.value), st))
                except AnalysisError:
                    l.events.append(("call", unparse(st.value.func), sp.Symbol("<call>"), st))
            return [l]
        if isinstance(st, ast.For) and self.unroll:
            rows = self._rows(st, T)
            if rows is not None:
                return self._unrolled(st, rows, l, depth)
        if isinstance(st, ast.For) and self.search_loops and _own_breaks(st):
            r = self._search_loop(st, l, depth)
            if r is not None:
                return r
        if isinstance(st, ast.For) and self.sum_loops:
            r = self._sum_loop(st, l, depth)
            if r is not None:
                return r
        if isinstance(st, ast.For) and self.map_loops:
            r = self._map_loop(st, l, depth)
            if r is not None:
                return r
        if isinstance(st, (ast.For, ast.While)):
            l.events.append(("loop", unparse(st.target) if isinstance(st, ast.For) else "while", sp.Symbol("<loop>"), st))
            l.snaps[id(st)] = (dict(l.env), len(l.conds))
            for nm in assigned_names(st):       # values after the loop are unknown
                l.env[nm] = sp.Symbol(nm, real=True)
            return [l]
        if isinstance(st, (ast.Pass, ast.Assert, ast.Import, ast.ImportFrom, ast.FunctionDef, ast.ClassDef, ast.Global, ast.Nonlocal, ast.Delete)):
            return [l]
        if isinstance(st, ast.With):
            for it in st.items:
                if it.optional_vars is not None and isinstance(it.optional_vars, ast.Name):
                    try:
                        l.env[it.optional_vars.id] = T.tr(it.context_expr)
                    except AnalysisError:
                        l.env[it.optional_vars.id] = sp.Symbol(it.optional_vars.id, real=True)
            return self._walk(st.body, l, depth)
        if isinstance(st, ast.Try):
            # no-exception path: body + else; one alternative path per handler, taken from the state before the try
            # (an approximation: the exception may be raised anywhere in the body); finally runs on all of them
            start = self._copy(l)
            out = []
            for o in self._walk(list(st.body) + list(st.orelse), l, depth):
                out.append(o)
            for hd in st.handlers:
                h = self._copy(start)
                nm = unparse(hd.type) if hd.type is not None else "BaseException"
                h.conds.append((sp.Eq(sp.Function("raised")(sp.Symbol(nm)), sp.true, evaluate=False), True))
                h.cond_nodes.append(st)
                if hd.name:
                    h.env[hd.name] = sp.Symbol(hd.name, real=True)
                out += self._walk(hd.body, h, depth)
            if st.finalbody:
                fin = []
                for o in out:
                    if o.exit == "fall":
                        fin += self._walk(st.finalbody, o, depth)
                    else:
                        fin.append(o)
                out = fin
            return out
        raise AnalysisError(f"decision table: unsupported statement {type(st).__name__}")


def store_site(leaf: "Leaf", event):
    """(base, index) of a subscript store event (also for the elements of a tuple target)."""
    return leaf.store_at.get((id(event[3]), event[1])) or leaf.store_at.get(id(event[3]))


def comp_element(v, i: int):
    """i-th element of `comp(body, gen(var, seq))` (one generator, no filter): body with var := seq[i]; else None."""
    if getattr(getattr(v, "func", None), "__name__", "") in ("list", "tuple") and len(v.args) == 1:
        v = v.args[0]
    if getattr(getattr(v, "func", None), "__name__", "") != "comp" or len(v.args) != 2:
        return None
    g = v.args[1]
    if getattr(getattr(g, "func", None), "__name__", "") != "gen" or len(g.args) != 2:
        return None
    var, seq = g.args
    if isinstance(seq, sp.Tuple):
        return v.args[0].subs(var, seq[i]) if i < len(seq) else None
    return v.args[0].subs(var, sp.Function("getitem")(seq, sp.Integer(i)))


MUTATORS = {"append", "extend", "insert", "update", "pop", "remove", "clear", "sort", "reverse", "add", "setdefault", "fill", "resize"}


def _is_literal(e: ast.AST) -> bool:
    if isinstance(e, ast.Constant):
        return isinstance(e.value, (int, float, str)) and not isinstance(e.value, bool)
    if isinstance(e, (ast.Tuple, ast.List)):
        return all(_is_literal(x) for x in e.elts)
    if isinstance(e, ast.UnaryOp) and isinstance(e.op, ast.USub):
        return _is_literal(e.operand)
    return False


def _return_arity(prog, name: str) -> Optional[int]:
    """n when the package has exactly one function called `name` and each of its return statements returns a tuple display
    of n elements (or a name bound to one just before); else None."""
    fs = [f for f in prog.funcs.values() if f.name == name and f.kind != "lambda"]
    if len(fs) != 1:
        return None
    ns = set()

    def own(n):
        for c in ast.iter_child_nodes(n):
            if isinstance(c, (ast.FunctionDef, ast.Lambda, ast.ClassDef)):
                continue
            yield c
            yield from own(c)
    for r in own(fs[0].node):
        if isinstance(r, ast.Return):
            if isinstance(r.value, ast.Tuple) and not any(isinstance(e, ast.Starred) for e in r.value.elts):
                ns.add(len(r.value.elts))
            else:
                return None
    return ns.pop() if len(ns) == 1 else None


def _is_table(e: ast.AST) -> bool:
    if not isinstance(e, ast.Dict) or not e.keys:
        return False
    for k, v in zip(e.keys, e.values):
        str_key = isinstance(k, ast.Constant) and isinstance(k.value, str)
        tup_key = isinstance(k, ast.Tuple) and k.elts and all(isinstance(x, ast.Constant) and isinstance(x.value, str) for x in k.elts)
        if not (str_key or tup_key):
            return False
        if not (isinstance(v, (ast.Constant, ast.Lambda, ast.Name, ast.Attribute)) or _is_literal(v) or (isinstance(v, ast.Dict) and _is_table(v))):
            return False
    return True


NP_UNARY = {"log": sp.log, "exp": sp.exp, "sqrt": sp.sqrt, "abs": sp.Abs, "absolute": sp.Abs}
KEYERROR = sp.Symbol("<KeyError>")


def tidy_items(v):
    """Selections from known displays are the selected element: getitem((a, b), 0) -> a (also after a conditional value has been
    resolved), list/tuple of a display -> the display."""
    fn = lambda x: getattr(getattr(x, "func", None), "__name__", "")     # noqa: E731
    v = sp.sympify(v)
    for _ in range(6):
        v2 = v.replace(lambda x: fn(x) in ("getitem", "item") and isinstance(x.args[0], sp.Tuple) and getattr(x.args[1], "is_Integer", False)
                       and -len(x.args[0]) <= int(x.args[1]) < len(x.args[0]), lambda x: x.args[0][int(x.args[1])])
        v2 = v2.replace(lambda x: fn(x) in ("tuple", "list") and len(x.args) == 1 and isinstance(x.args[0], sp.Tuple), lambda x: x.args[0])

        def spread(x):
            out = []
            for a in x.args:
                if fn(a) == "splat" and len(a.args) == 1 and isinstance(a.args[0], sp.Tuple):
                    out.extend(a.args[0])
                else:
                    out.append(a)
            return x.func(*out)
        v2 = v2.replace(lambda x: isinstance(x, sp.Function) and any(fn(a) == "splat" and len(a.args) == 1 and isinstance(a.args[0], sp.Tuple) for a in x.args), spread)
        if v2 == v:
            break
        v = v2
    return v


def rewrite(e, pred, repl):
    """`e.replace(pred, repl)` that keeps relations and boolean connectives unevaluated (sympy would otherwise try to decide
    `f(x) > y` for an undefined, non-real f)."""
    e = sp.sympify(e)
    if isinstance(e, (sp.Eq, sp.Ne, sp.Gt, sp.Ge, sp.Lt, sp.Le)):
        return type(e)(rewrite(e.lhs, pred, repl), rewrite(e.rhs, pred, repl), evaluate=False)
    if isinstance(e, (sp.And, sp.Or, sp.Not)):
        return type(e)(*[rewrite(a, pred, repl) for a in e.args], evaluate=False)
    return e.replace(pred, repl)


def specialise(e, world):
    """An expression under a finite assignment: table lookups with a now-literal key, calls of the function value found
    there (lambdas are applied, numpy unary functions named) and conditional values are resolved."""
    e = sp.sympify(e)
    if isinstance(e, (sp.Eq, sp.Ne, sp.Gt, sp.Ge, sp.Lt, sp.Le)):
        # keep relations unevaluated: sympy would decide `f(x) != True` structurally
        return type(e)(specialise(e.lhs, world), specialise(e.rhs, world), evaluate=False)
    if isinstance(e, (sp.And, sp.Or, sp.Not)):
        return type(e)(*[specialise(a, world) for a in e.args], evaluate=False)
    e = e.xreplace(world)
    fn = lambda x: getattr(getattr(x, "func", None), "__name__", "")     # noqa: E731
    for _ in range(12):
        before = e

        def step(x):
            if fn(x) == "getitem" and fn(x.args[0]) == "dict" and getattr(x.args[1], "is_Symbol", False) and x.args[1].name.startswith("'"):
                key = "kv_" + x.args[1].name.strip("'")
                for a in x.args[0].args:
                    if fn(a) == key:
                        return a.args[0]
                if all(fn(a).startswith("kv_") for a in x.args[0].args):
                    return KEYERROR
            if fn(x) in ("getitem", "get") and fn(x.args[0]) == "dict" and x.args[1] == sp.Symbol("None") and x.args[0].args \
                    and all(fn(a).startswith("kv") for a in x.args[0].args):
                # None is not a key of a table of names
                return (x.args[2] if len(x.args) > 2 else sp.Symbol("None")) if fn(x) == "get" else KEYERROR
            if fn(x) in ("getitem", "get") and fn(x.args[0]) == "dict" and isinstance(x.args[1], sp.Tuple) and all(getattr(k_, "is_Symbol", False) and k_.name.startswith("'") for k_ in x.args[1]):
                # lookup with a tuple of names as the key
                for a in x.args[0].args:
                    if fn(a) == "kv" and a.args[0] == x.args[1]:
                        return a.args[1]
                if all(fn(a).startswith("kv") for a in x.args[0].args):
                    return (x.args[2] if len(x.args) > 2 else sp.Symbol("None")) if fn(x) == "get" else KEYERROR
            if fn(x) == "get" and fn(x.args[0]) == "dict" and getattr(x.args[1], "is_Symbol", False) and x.args[1].name.startswith("'"):
                key = "kv_" + x.args[1].name.strip("'")
                for a in x.args[0].args:
                    if fn(a) == key:
                        return a.args[0]
                if all(fn(a).startswith("kv") for a in x.args[0].args):
                    return x.args[2] if len(x.args) > 2 else sp.Symbol("None")
            if fn(x) in ("lower", "upper", "strip") and len(x.args) == 1 and getattr(x.args[0], "is_Symbol", False) and x.args[0].name.startswith("'") and x.args[0].name.endswith("'"):
                txt = x.args[0].name[1:-1]
                return sp.Symbol("'" + getattr(txt, fn(x))() + "'")           # a string method on a literal name
            if fn(x) == "call" and fn(x.args[0]) == "lambda_" and len(x.args[0].args[0]) == len(x.args) - 1:
                params, body = x.args[0].args
                return body.xreplace(dict(zip(params, x.args[1:])))
            if fn(x) == "call" and getattr(x.args[0], "is_Symbol", False) and x.args[0].name.split(".")[0] in ("np", "numpy", "math") \
                    and x.args[0].name.split(".")[-1] in NP_UNARY and len(x.args) == 2:
                return NP_UNARY[x.args[0].name.split(".")[-1]](x.args[1])
            if isinstance(x, sp.Piecewise):
                r = pick(x, world)
                if r is not None:
                    return r
            return x
        e = e.replace(lambda x: fn(x) in ("getitem", "get", "call", "lower", "upper", "strip") or isinstance(x, sp.Piecewise), step)
        if e == before:
            break
    return e


def _pt_rows(self, st: ast.For, T: Translator):
    """Rows of a loop over a short literal / module-constant sequence (or a zip with one), else None."""
    def literal(e):
        if isinstance(e, (ast.Tuple, ast.List)):
            return list(e.elts)
        if isinstance(e, ast.Name) and e.id not in T.env and self.module is not None:
            sym = self.module.symbols.get(e.id)
            if sym and sym[0] == "const" and isinstance(sym[1], (ast.Tuple, ast.List)):
                return list(sym[1].elts)
        return None
    it = st.iter
    lit = literal(it)
    if lit is not None and len(lit) <= 8:
        return [T.tr(e) for e in lit]
    if isinstance(it, ast.Call) and call_name(it) == "zip" and it.args and not it.keywords:
        cols = [literal(a) for a in it.args]
        ns = [len(c) for c in cols if c is not None]
        if ns and min(ns) <= 8:
            n = min(ns)
            rows = []
            for i in range(n):
                row = []
                for a, c in zip(it.args, cols):
                    if c is not None:
                        row.append(T.tr(c[i]))
                    else:
                        av = T.tr(a)
                        row.append(av[i] if isinstance(av, sp.Tuple) and i < len(av) else sp.Function("getitem")(av, sp.Integer(i)))
                rows.append(sp.Tuple(*row))
            return rows
    # a name / expression whose value is a known short display (e.g. `pairs = list(zip(a, (x, y)))`)
    try:
        itv = T.tr(it) if isinstance(it, (ast.Name, ast.Call)) else None
    except AnalysisError:
        itv = None
    # (a one-element display such as `members = [obj]` is left as a loop: rules that sweep over "the members" read it as one)
    if isinstance(itv, sp.Tuple) and 2 <= len(itv) <= 8 and (not isinstance(it, ast.Call) or call_name(it) in ("zip", "list", "tuple")):
        return list(itv)
    return None


def _pt_bind(target: ast.AST, value, env):
    if isinstance(target, ast.Name):
        env[target.id] = value
    elif isinstance(target, (ast.Tuple, ast.List)):
        for i, e in enumerate(target.elts):
            v = value[i] if isinstance(value, sp.Tuple) and i < len(value) else sp.Function("getitem")(value, sp.Integer(i))
            _pt_bind(e, v, env)


def _pt_unrolled(self, st: ast.For, rows, leaf: Leaf, depth: int) -> List[Leaf]:
    live = [leaf]
    done: List[Leaf] = []
    for row in rows:
        nxt: List[Leaf] = []
        for l in live:
            _pt_bind(st.target, row, l.env)
            for o in self._walk(st.body, l, depth):
                if o.exit == "break":
                    o.exit = "fall"
                    done.append(o)
                elif o.exit == "continue":
                    o.exit = "fall"
                    nxt.append(o)
                elif o.exit == "fall":
                    nxt.append(o)
                else:
                    done.append(o)      # return / raise leave the loop for good
        live = nxt
        if len(live) + len(done) > MAX_LEAVES:
            raise AnalysisError("decision table too large")
    out = list(done)
    for l in live:
        out += self._walk(st.orelse, l, depth) if st.orelse else [l]
    return out


def _own_breaks(loop) -> List[ast.Break]:
    out = []

    def visit(n):
        for c in ast.iter_child_nodes(n):
            if isinstance(c, (ast.For, ast.While, ast.FunctionDef, ast.Lambda)):
                continue
            if isinstance(c, (ast.Break, ast.Return)):
                out.append(c)
            visit(c)
    for b in loop.body:
        if isinstance(b, (ast.Break, ast.Return)):
            out.append(b)
        elif not isinstance(b, (ast.For, ast.While, ast.FunctionDef)):
            visit(b)
    return out


def _pt_search_loop(self, st: ast.For, leaf: Leaf, depth: int) -> Optional[List[Leaf]]:
    """`for x in S: ...; if test(x): <effects>; break` with side-effect-free non-breaking paths.  Two kinds of outcome:
    the loop ran to completion (no element broke out: state as before, `else` runs) or some element broke out (that path's
    conditions, assignments and effects apply; `else` is skipped).  The conditions of a breaking path mention the element
    through fresh symbols named after the loop target."""
    killed = assigned_names(st)
    entry = self._copy(leaf)
    for nm in killed:
        entry.env[nm] = sp.Symbol(nm, real=True)
    for nm in [n.id for n in ast.walk(st.target) if isinstance(n, ast.Name)]:
        entry.env[nm] = sp.Symbol(f"<{nm}>", real=True)
    n_ev, n_co = len(entry.events), len(entry.conds)
    try:
        body = self._walk(st.body, entry, depth)
    except AnalysisError:
        return None
    breaking = [b for b in body if b.exit in ("break", "return")]        # `return x` inside the loop leaves it like `break`
    passing = [b for b in body if b.exit in ("fall", "continue")]
    if not breaking:
        return None
    if any(len(b.events) != n_ev for b in passing):
        return None         # a non-breaking pass has effects: not a pure search
    tag = sp.Function("breaks")(sp.Symbol(f"<loop@{getattr(st, '_src_lineno', st.lineno)}>"))
    assigned_on_pass = set()
    for stm in st.body:
        assigned_on_pass |= _assigned_outside_break_paths(stm)
    out = []
    # completed: nothing broke out
    done = self._copy(leaf)
    done.events.append(("loop", unparse(st.target), sp.Symbol("<loop>"), st))
    done.snaps[id(st)] = (dict(leaf.env), len(leaf.conds))
    done.conds.append((sp.Eq(tag, sp.true, evaluate=False), False))
    done.cond_nodes.append(st)
    for nm in killed:
        if nm in assigned_on_pass or nm not in leaf.env:
            done.env[nm] = sp.Symbol(nm, real=True)
    out += self._walk(st.orelse, done, depth) if st.orelse else [done]
    # broken out
    for b in breaking:
        o = self._copy(leaf)
        o.events.append(("loop", unparse(st.target), sp.Symbol("<loop>"), st))
        o.snaps[id(st)] = (dict(leaf.env), len(leaf.conds))
        o.conds.append((sp.Eq(tag, sp.true, evaluate=False), True))
        o.cond_nodes.append(st)
        o.conds += b.conds[n_co:]
        o.cond_nodes += b.cond_nodes[n_co:]
        o.events += b.events[n_ev:]
        o.store_at.update(b.store_at)
        for nm in killed:
            o.env[nm] = b.env.get(nm, sp.Symbol(nm, real=True))
        if b.exit == "return":
            o.exit, o.value = "return", b.value
        else:
            o.exit = "fall"
        out.append(o)
    return out


def _assigns(node, name: str) -> bool:
    return name in assigned_names(node)


def _assigned_outside_break_paths(stm: ast.stmt) -> Set[str]:
    """Names (re)bound by a statement of a search-loop body on some path that does not end in `break`."""
    if isinstance(stm, ast.If):
        out: Set[str] = set()
        for branch in (stm.body, stm.orelse):
            if branch and isinstance(branch[-1], ast.Break):
                continue            # this branch always breaks
            for x in branch:
                out |= _assigned_outside_break_paths(x)
        return out
    return assigned_names(stm)


def _pt_sum_loop(self, st: ast.For, leaf: Leaf, depth: int) -> Optional[List[Leaf]]:
    """`for x in S: tmp = ...; acc += g(x, tmp)` with a straight-line body: afterwards acc = acc0 + Sum(g, S), where the
    element is the bound symbol `_sum<k>` (tuple targets: item(_sum<k>, j)).  The loop targets keep their last value
    (item(last(S), j)); temporaries of the body are unknown afterwards."""
    if st.orelse or any(isinstance(x, (ast.Break, ast.Continue, ast.If, ast.For, ast.While, ast.Try, ast.With, ast.Return, ast.Raise)) for b in st.body for x in ast.walk(b)):
        return None
    accs = []
    for b in st.body:
        if isinstance(b, ast.AugAssign):
            if not (isinstance(b.target, ast.Name) and isinstance(b.op, ast.Add)):
                return None
            accs.append(b.target.id)
        elif not (isinstance(b, ast.Assign) and len(b.targets) == 1 and isinstance(b.targets[0], ast.Name)):
            return None
    if not accs:
        return None
    temps = {b.targets[0].id for b in st.body if isinstance(b, ast.Assign)}
    if temps & set(accs):
        return None
    T = self._T(leaf.env, depth)
    try:
        seq = T.tr(st.iter)
    except AnalysisError:
        return None
    k = getattr(self, "_sum_depth", 0)
    bound = sp.Symbol(f"_sum{k}", real=True)
    item = sp.Function("item")
    entry = self._copy(leaf)
    ZERO = {a: sp.Symbol(f"<acc0 {a}>", real=True) for a in accs}
    for a in accs:
        entry.env[a] = ZERO[a]
    tnames = []
    if isinstance(st.target, ast.Name):
        entry.env[st.target.id] = bound
        tnames = [(st.target.id, None)]
    elif isinstance(st.target, (ast.Tuple, ast.List)) and all(isinstance(e, ast.Name) for e in st.target.elts):
        for j, e in enumerate(st.target.elts):
            entry.env[e.id] = item(bound, sp.Integer(j))
            tnames.append((e.id, j))
    else:
        return None
    # a temporary or accumulator read before it is written in the body would carry a value between iterations
    seen_w: Set[str] = set()
    for b in st.body:
        val = b.value
        reads = {n.id for n in ast.walk(val) if isinstance(n, ast.Name)}
        if reads & (temps - seen_w) or reads & set(accs):
            return None
        seen_w |= {b.targets[0].id} if isinstance(b, ast.Assign) else set()
    self._sum_depth = k + 1
    try:
        body = self._walk(st.body, entry, depth)
    except AnalysisError:
        return None
    finally:
        self._sum_depth = k
    if len(body) != 1 or len(body[0].events) != len(entry.events):
        return None
    b = body[0]
    out = leaf
    out.events.append(("loop", unparse(st.target), sp.Symbol("<loop>"), st))
    out.snaps[id(st)] = (dict(leaf.env), len(leaf.conds))
    for a in accs:
        inc = b.env[a] - ZERO[a]
        if inc.has(ZERO[a]):
            return None
        out.env[a] = out.env.get(a, sp.Symbol(a, real=True)) + sp.Function("Sum")(inc, seq)
    last = sp.Function("last")(seq)
    for nm, j in tnames:
        out.env[nm] = last if j is None else item(last, sp.Integer(j))
    for nm in temps:
        out.env[nm] = sp.Symbol(f"<last {nm}>", real=True)
    return [out]


ELT = sp.Symbol("<e>", real=True)
SEQ = sp.Function("SEQ")


def _pt_map_loop(self, st: ast.For, leaf: Leaf, depth: int) -> Optional[List[Leaf]]:
    """`for i, x in enumerate(S): A[i] = g(x)` (also `A[i, :] = ...`, tuple targets, `for i in range(len(S))` with x = S[i]):
    afterwards A is the sequence SEQ(g(<e>), S) - element k is g applied to element k of S.  Straight-line bodies only; every
    store must be at the loop's own index into an array that is not read in the body."""
    if st.orelse or any(isinstance(x, (ast.Break, ast.Continue, ast.If, ast.For, ast.While, ast.Try, ast.With, ast.Return, ast.Raise, ast.AugAssign)) for b in st.body for x in ast.walk(b)):
        return None
    T = self._T(leaf.env, depth)
    it = st.iter
    idx_name = elt_names = None
    rv = _pt_row_view_loop(self, st, leaf, T)
    if rv is not None:
        return rv
    try:
        if isinstance(it, ast.Call) and call_name(it) == "enumerate" and len(it.args) == 1 and isinstance(st.target, ast.Tuple) and len(st.target.elts) == 2 \
                and isinstance(st.target.elts[0], ast.Name):
            idx_name, elt_names, seq = st.target.elts[0].id, st.target.elts[1], T.tr(it.args[0])
        elif isinstance(it, ast.Call) and call_name(it) == "range" and len(it.args) == 1 and isinstance(st.target, ast.Name) \
                and isinstance(it.args[0], ast.Call) and call_name(it.args[0]) == "len" and len(it.args[0].args) == 1:
            idx_name, elt_names, seq = st.target.id, None, T.tr(it.args[0].args[0])
        elif isinstance(st.target, (ast.Name, ast.Tuple)) and not (isinstance(it, ast.Call) and call_name(it) in ("range", "enumerate", "zip")):
            # `for x in S: ...; L.append(g(x))` - no index: only local lists may be filled
            idx_name, elt_names, seq = None, st.target, T.tr(it)
        else:
            return None
    except AnalysisError:
        return None
    IDX = sp.Symbol("<i>", integer=True)
    entry = self._copy(leaf)
    if idx_name is not None:
        entry.env[idx_name] = IDX
    lists_before = {k: v for k, v in leaf.env.items() if isinstance(v, sp.Tuple) and len(v) == 0}
    item = sp.Function("item")
    if isinstance(elt_names, ast.Name):
        entry.env[elt_names.id] = ELT
    elif isinstance(elt_names, (ast.Tuple, ast.List)):
        for j, e in enumerate(elt_names.elts):
            if isinstance(e, ast.Name):
                entry.env[e.id] = item(ELT, sp.Integer(j))
    n_ev = len(entry.events)
    try:
        body = self._walk(st.body, entry, depth)
    except AnalysisError:
        return None
    if len(body) != 1:
        return None
    b = body[0]
    ALL = sp.Function("slice")(sp.Symbol("None"), sp.Symbol("None"), sp.Symbol("None"))
    filled: Dict[str, sp.Expr] = {}
    fields: Set[str] = set()
    for e in b.events[n_ev:]:
        if e[0] == "call" and e[1].endswith(".append") and e[1][:-7] in lists_before:
            continue            # accounted for below: the list grew by one element
        if e[0] == "store" and isinstance(e[3], ast.Assign) and isinstance(e[3].targets[0], ast.Attribute) and isinstance(e[3].targets[0].value, ast.Name) \
                and f"{e[3].targets[0].value.id}.{e[3].targets[0].attr}" in b.env and e[3].targets[0].value.id in leaf.env:
            fields.add(f"{e[3].targets[0].value.id}.{e[3].targets[0].attr}")
            continue            # a field of a local object set in every iteration (its readers in the body saw the new value)
        if e[0] != "store" or idx_name is None:
            return None
        site = store_site(b, e)
        if site is None:
            return None
        base_node = e[3]
        ix = site[1]
        if not (ix == IDX or (getattr(ix, "func", None) == sp.Function("idx") and ix.args[0] == IDX and all(a == ALL for a in ix.args[1:]))):
            return None
        name = e[1].split("[")[0]
        if not name.isidentifier() or name in filled:
            return None
        v = e[2]
        if elt_names is None:
            v = v.xreplace({sp.Function("getitem")(seq, IDX): ELT})
        if v.has(IDX):
            return None
        filled[name] = v
    grown: Dict[str, sp.Expr] = {}
    for nm in lists_before:
        after = b.env.get(nm)
        if isinstance(after, sp.Tuple) and len(after) == 1:
            if after[0].has(IDX):
                return None
            grown[nm] = after[0]
        elif not (isinstance(after, sp.Tuple) and len(after) == 0):
            return None
    if not filled and not grown:
        return None
    # the filled arrays must not be read in the body (each element is written once, from the element of S only)
    for x in st.body:
        for n in ast.walk(x):
            if isinstance(n, ast.Name) and isinstance(n.ctx, ast.Load) and n.id in filled:
                par_is_store = any(isinstance(t, ast.Subscript) and t.value is n and isinstance(t.ctx, ast.Store) for y in ast.walk(x) for t in [y])
                if not par_is_store:
                    return None
    out = leaf
    out.events.append(("loop", unparse(st.target), sp.Symbol("<loop>"), st))
    out.snaps[id(st)] = (dict(leaf.env), len(leaf.conds))
    for nm in assigned_names(st):
        out.env[nm] = sp.Symbol(nm, real=True)
    for name, v in filled.items():
        out.env[name] = SEQ(v, seq)
    for name, v in grown.items():
        out.env[name] = SEQ(v, seq)
    for fld in fields:
        out.env[fld] = sp.Symbol(f"<{fld} after the loop>")
    return [out]


def _pt_row_view_loop(self, st: ast.For, leaf: Leaf, T) -> Optional[List[Leaf]]:
    """`for row, a, b in zip(A, X, Y): row[:] = g(a, b)` with A a freshly allocated array of len(X) rows bound to a local: the rows
    of A are filled through their views - afterwards A is SEQ(g(<e>), zip(X, Y)).  (`zip` may have been bound to a local first.)"""
    fn = lambda e: getattr(getattr(e, "func", None), "__name__", "")     # noqa: E731
    if not (isinstance(st.target, ast.Tuple) and all(isinstance(e, ast.Name) for e in st.target.elts) and len(st.body) == 1):
        return None
    body = st.body[0]
    if not (isinstance(body, ast.Assign) and len(body.targets) == 1 and isinstance(body.targets[0], ast.Subscript) and isinstance(body.targets[0].value, ast.Name)):
        return None
    sl = body.targets[0].slice
    whole = (isinstance(sl, ast.Slice) and sl.lower is None and sl.upper is None and sl.step is None) or (isinstance(sl, ast.Constant) and sl.value is Ellipsis)
    if not whole:
        return None
    try:
        itv = T.tr(st.iter)
    except AnalysisError:
        return None
    if fn(itv) != "zip" or len(itv.args) != len(st.target.elts) or len(itv.args) < 2:
        return None
    names = [e.id for e in st.target.elts]
    row = body.targets[0].value.id
    if row not in names:
        return None
    k = names.index(row)
    A_val = itv.args[k]
    if fn(A_val) not in ("empty", "zeros") or not A_val.args or not isinstance(A_val.args[0], sp.Tuple) or len(A_val.args[0]) != 2:
        return None
    holders = [nm for nm, v in leaf.env.items() if v == A_val and nm.isidentifier()]
    if len(holders) != 1:
        return None
    others = [a for j, a in enumerate(itv.args) if j != k]
    if A_val.args[0][0] not in [sp.Function("len")(o) for o in others]:
        return None             # the buffer must have one row per element of the other sequences
    # the row may only be used as the store target
    if sum(1 for x in ast.walk(st) if isinstance(x, ast.Name) and x.id == row) != 2:
        return None
    seq = sp.Function("zip")(*others) if len(others) > 1 else others[0]
    env = dict(leaf.env)
    item = sp.Function("item")
    jj = 0
    for j, nm in enumerate(names):
        if j == k:
            continue
        env[nm] = item(ELT, sp.Integer(jj)) if len(others) > 1 else ELT
        jj += 1
    try:
        v = self._T(env, 0).tr(body.value)
    except AnalysisError:
        return None
    out = leaf
    out.events.append(("loop", unparse(st.target), sp.Symbol("<loop>"), st))
    out.snaps[id(st)] = (dict(leaf.env), len(leaf.conds))
    for nm in names:
        out.env[nm] = sp.Symbol(nm, real=True)
    out.env[holders[0]] = SEQ(v, seq)
    return [out]


def seq_form(v):
    """Normal form of sequence-valued terms: comprehensions, maps over maps, zips of maps over one base, unzipping."""
    fn = lambda e: getattr(getattr(e, "func", None), "__name__", "")     # noqa: E731
    v = sp.sympify(v)
    for _ in range(8):
        before = v

        def step(x):
            if fn(x) in ("list", "tuple", "array", "asarray") and len(x.args) >= 1 and fn(x.args[0]) == "SEQ":
                return x.args[0]
            if fn(x) in ("stack", "vstack", "row_stack") and len(x.args) >= 1 and fn(x.args[0]) == "SEQ" and (len(x.args) == 1 or x.args[1] == 0 or x.args[1] == sp.Function("kw_axis")(sp.Integer(0))):
                return x.args[0]            # rows stacked along the first axis: the sequence of rows
            if fn(x) == "astype" and len(x.args) >= 2 and fn(x.args[0]) == "SEQ" and str(x.args[1]) in ("float", "np.float64", "np.double"):
                return x.args[0]
            if fn(x) == "reshape" and len(x.args) == 3 and fn(x.args[0]) == "SEQ" and fn(x.args[1]) == "len" \
                    and x.args[1].args[0] in (x.args[0], x.args[0].args[1]):
                return x.args[0]            # n rows reshaped to (n, <row length>): the same rows
            if fn(x) == "comp" and len(x.args) == 2 and fn(x.args[1]) == "gen" and len(x.args[1].args) == 2:
                var, S = x.args[1].args
                return SEQ(x.args[0].xreplace({var: ELT}), S)
            if fn(x) == "SEQ" and fn(x.args[1]) == "SEQ":
                inner = x.args[1]
                return SEQ(x.args[0].xreplace({ELT: inner.args[0]}), inner.args[1])
            if fn(x) == "SEQ" and fn(x.args[1]) == "zip" and x.args[1].args and all(fn(a) == "SEQ" for a in x.args[1].args) \
                    and len({a.args[1] for a in x.args[1].args}) == 1:
                parts = x.args[1].args
                return SEQ(x.args[0].xreplace({ELT: sp.Tuple(*[a.args[0] for a in parts])}), parts[0].args[1])
            if fn(x) == "getitem" and fn(x.args[0]) == "zip" and len(x.args[0].args) == 1 and fn(x.args[0].args[0]) == "splat" \
                    and fn(x.args[0].args[0].args[0]) == "SEQ" and x.args[1].is_Integer:
                inner = x.args[0].args[0].args[0]
                return SEQ(sp.Function("getitem")(inner.args[0], x.args[1]), inner.args[1])
            if fn(x) in ("item", "getitem") and isinstance(x.args[0], sp.Tuple) and x.args[1].is_Integer and 0 <= int(x.args[1]) < len(x.args[0]):
                return x.args[0][int(x.args[1])]
            return x
        v = v.replace(lambda x: fn(x) in ("list", "tuple", "array", "asarray", "comp", "SEQ", "getitem", "item", "reshape", "stack", "vstack", "row_stack", "astype"), step)
        if v == before:
            break
    # `item` (element of a loop / comprehension target) and `getitem` (subscript) are the same selection
    return v.replace(lambda x: fn(x) == "item", lambda x: sp.Function("getitem")(*x.args))


PathTable._map_loop = _pt_map_loop
PathTable._sum_loop = _pt_sum_loop
PathTable._search_loop = _pt_search_loop
PathTable._rows = _pt_rows
PathTable._unrolled = _pt_unrolled


def assigned_names(node: ast.AST) -> Set[str]:
    """Names whose value after `node` differs from before: rebound names and names whose object is written
    (element / attribute stores, in-place methods)."""
    out: Set[str] = set()

    def root(e):
        while isinstance(e, (ast.Subscript, ast.Attribute)):
            e = e.value
        return e.id if isinstance(e, ast.Name) else None
    for n in ast.walk(node):
        if isinstance(n, ast.Name) and isinstance(n.ctx, ast.Store):
            out.add(n.id)
        elif isinstance(n, ast.AugAssign):
            r = root(n.target)
            if r:
                out.add(r)
        elif isinstance(n, (ast.Subscript, ast.Attribute)) and isinstance(n.ctx, ast.Store):
            r = root(n)
            if r:
                out.add(r)
        elif isinstance(n, ast.Call) and isinstance(n.func, ast.Attribute) and n.func.attr in MUTATORS:
            r = root(n.func.value)
            if r:
                out.add(r)
    return out


def flatten_cases(lits: List[sp.Expr], value: sp.Expr) -> List[Tuple[List[sp.Expr], sp.Expr]]:
    """Split a Piecewise value into (extra literals, value) cases."""
    if isinstance(value, sp.Piecewise):
        out = []
        neg: List[sp.Expr] = []
        for v, c in value.args:
            if c == sp.true:
                out += flatten_cases(lits + neg, v)
            else:
                cl = [canon_rel(a) for a in c.args] if isinstance(c, sp.And) else [canon_rel(c)]
                out += flatten_cases(lits + neg + cl, v)
                neg = neg + [negate(c)]
        return out
    return [(lits, value)]


# ----------------------------------------------------------------------------- condition helpers
def canon_rel(r):
    """Canonical orientation of a relation: Gt/Ge only."""
    if isinstance(r, sp.Lt):
        return sp.Gt(r.rhs, r.lhs, evaluate=False)
    if isinstance(r, sp.Le):
        return sp.Ge(r.rhs, r.lhs, evaluate=False)
    return r


def _decided_by_path(l, c) -> Optional[bool]:
    """An atomic test the path has already taken (or refuted) is not a new decision: the same relation over the same terms, with
    nothing those terms name stored to on the way."""
    if not isinstance(c, (sp.Eq, sp.Ne, sp.Gt, sp.Ge, sp.Lt, sp.Le)) or not l.conds:
        return None
    names = {str(x) for x in c.free_symbols}
    for e in l.events:
        if e[0] == "store":
            root = str(e[1]).split("[")[0]
            if any(n == root or n.startswith(root + ".") or n.startswith(root + "[") for n in names):
                return None
    def same(a, b) -> bool:         # structural identity only: cheap, and all that is needed for a test written twice
        if type(a) is not type(b):
            return False
        if isinstance(a, (sp.Eq, sp.Ne)):
            return (a.lhs == b.lhs and a.rhs == b.rhs) or (a.lhs == b.rhs and a.rhs == b.lhs)
        return a == b
    try:
        lits = literals(l)
        cc, nc = canon_rel(c), canon_rel(negate(c))
        if any(same(x, cc) for x in lits):
            return True
        if any(same(x, nc) for x in lits):
            return False
    except Exception:
        return None
    return None


def negate(r):
    r = canon_rel(r)
    if isinstance(r, sp.Gt):
        return sp.Ge(r.rhs, r.lhs, evaluate=False)
    if isinstance(r, sp.Ge):
        return sp.Gt(r.rhs, r.lhs, evaluate=False)
    if isinstance(r, sp.Eq):
        return sp.Ne(r.lhs, r.rhs, evaluate=False)
    if isinstance(r, sp.Ne):
        return sp.Eq(r.lhs, r.rhs, evaluate=False)
    return sp.Not(r)


def holds(lit, assign) -> Optional[bool]:
    """Truth of an (in)equality literal over string-valued arguments under a finite assignment."""
    def val(e):
        e = e.xreplace(assign)
        return e
    if isinstance(lit, (sp.Eq, sp.Ne)):
        a, b = val(lit.lhs), val(lit.rhs)
        if a in (sp.true, sp.false) and b in (sp.true, sp.false):
            return (a == b) if isinstance(lit, sp.Eq) else (a != b)
        in_ = sp.Function("in_")
        if b == sp.true and getattr(a, "func", None) == sp.Function("in_"):
            item, cont = a.args
            litsym = lambda x: getattr(x, "is_Symbol", False) and (x.name.startswith("'") or x.name == "None")      # noqa: E731
            if isinstance(cont, sp.Tuple) and litsym(item) and all(litsym(c) or getattr(c, "is_Number", False) for c in cont):
                r = item in list(cont)
                return r if isinstance(lit, sp.Eq) else not r
            cn = getattr(getattr(cont, "func", None), "__name__", "")
            if cn in ("keys", "list", "tuple", "set") and len(cont.args) == 1:
                cont, cn = cont.args[0], getattr(getattr(cont.args[0], "func", None), "__name__", "")
            if cn == "dict" and item.is_Symbol and item.name.startswith("'") and cont.args and \
                    all(getattr(getattr(a_, "func", None), "__name__", "").startswith("kv_") for a_ in cont.args):
                r = ("kv_" + item.name.strip("'")) in {a_.func.__name__ for a_ in cont.args}      # membership in the keys of a lookup table
                return r if isinstance(lit, sp.Eq) else not r
            return None
        if b == sp.true and getattr(a, "func", None) == sp.Function("truth") and getattr(getattr(a.args[0], "func", None), "__name__", "") == "isinstance":
            obj, cls_ = a.args[0].args
            key = sp.Function("type_of")(obj)
            if key in assign:
                names = [c.name for c in (list(cls_) if isinstance(cls_, sp.Tuple) else [cls_]) if getattr(c, "is_Symbol", False)]
                r = assign[key].name in names
                return r if isinstance(lit, sp.Eq) else not r
            return None
        if b == sp.true and getattr(a, "func", None) == sp.Function("truth") and getattr(a.args[0], "func", None) == sp.Function("in_"):
            r = holds(sp.Eq(a.args[0], sp.true, evaluate=False), assign)
            return None if r is None else (r if isinstance(lit, sp.Eq) else not r)
        if b == sp.true and getattr(a, "func", None) == sp.Function("truth"):
            inner = a.args[0]
            if isinstance(inner, (sp.Eq, sp.Ne)) or inner in (sp.true, sp.false):
                r = holds(inner, assign) if inner not in (sp.true, sp.false) else bool(inner)
                return None if r is None else (r if isinstance(lit, sp.Eq) else not r)
            return None
        lit_like = lambda x: x.is_Symbol and (x.name.startswith("'") or x.name == "None")   # noqa: E731
        value_like = lambda x: getattr(getattr(x, "func", None), "__name__", "") in ("lambda_", "dict", "given") or isinstance(x, sp.Tuple) or getattr(x, "is_Number", False) or \
            (getattr(x, "is_Symbol", False) and x.name.split(".")[0] in ("np", "numpy", "math", "scipy"))   # noqa: E731
        if (lit_like(a) and a.name == "None" and value_like(b)) or (lit_like(b) and b.name == "None" and value_like(a)):
            return isinstance(lit, sp.Ne)          # a function value / container is not None
        if lit_like(a) and lit_like(b):
            r = a == b
            return r if isinstance(lit, sp.Eq) else not r
        return None
    if isinstance(lit, sp.Not):
        r = holds(lit.args[0], assign)
        return None if r is None else not r
    if isinstance(lit, sp.And):
        rs = [holds(x, assign) for x in lit.args]
        if any(r is False for r in rs):
            return False
        return None if any(r is None for r in rs) else True
    if isinstance(lit, sp.Or):
        rs = [holds(x, assign) for x in lit.args]
        if any(r is True for r in rs):
            return True
        return None if any(r is None for r in rs) else False
    if lit in (sp.true, sp.false):
        return bool(lit)
    return None




def pick(value, assign):
    """A Piecewise value under a finite assignment: the first piece whose condition holds (None when undecided)."""
    if not isinstance(value, sp.Piecewise):
        return value
    for e, c in value.args:
        v = True if c == sp.true else holds(c, assign)
        if v is None:
            return None
        if v:
            return pick(e, assign)
    return None


def apply_function_value(prog, module, name: str, args, call_hook=None, unroll: bool = True):
    """The value of calling the package function `name` (referenced as a value, e.g. from a lookup table) on positional
    `args`: its single returning path with the parameters bound; None when the function is not of that simple shape."""
    r = prog.resolve_name(module, name) if prog is not None and module is not None else None
    if not r or r[0] != "func":
        return None
    g = r[1]
    if len(args) > len(g.params):
        return None
    env = dict(zip(g.params, args))
    d = g.defaults()
    for p_ in g.params[len(args):]:
        if p_ not in d:
            return None
        env[p_] = Translator().tr(d[p_])
    try:
        ls = PathTable(prog, g.module, env=env, call_hook=call_hook, unroll=unroll).leaves(g.node.body)
    except AnalysisError:
        return None
    rets = [l for l in ls if l.exit == "return"]
    if len(rets) != 1 or len(ls) != 1 or rets[0].value is None:
        return None
    return rets[0].value


def outcomes(leaves, world):
    """The paths a finite world can take, with values and events evaluated in it.
    A path whose conditions are false in the world is dropped; a path that looks up a missing key of a lookup table is
    infeasible unless it is the handler of that lookup: when some ordinary path works the `except` paths are dropped, otherwise
    the `except` paths are the outcome (and when there is none, the lookup error itself: exit "raise")."""
    rows = []
    for l in leaves:
        conds = [specialise(c, world) for c in literals(l)]
        if any(holds(c, world) is False for c in conds):
            continue
        val = specialise(l.value, world) if l.value is not None else None
        evs = []
        for e in l.events:
            v = e[2]
            try:
                v = specialise(v, world) if hasattr(v, "xreplace") else v
            except Exception:
                pass
            evs.append((e[0], e[1], v, e[3]))
        terms = conds + ([val] if val is not None else []) + [e[2] for e in evs if hasattr(e[2], "free_symbols")]
        failed = any(KEYERROR in sp.sympify(x).free_symbols for x in terms if hasattr(x, "free_symbols") or True)
        handler = any("raised(" in str(c) for c in conds)
        rows.append(dict(leaf=l, value=val, events=evs, exit=l.exit, failed=failed, handler=handler, conds=conds))
    normal = [r for r in rows if not r["handler"] and not r["failed"]]
    if normal:
        return normal
    hand = [r for r in rows if r["handler"] and not r["failed"]]
    if hand:
        return hand
    return [dict(r, exit="raise") for r in rows]


def consistent(leaf: "Leaf", assign) -> bool:
    """False when some condition of the path is false under the assignment (undecided conditions do not exclude)."""
    return not any(holds(x, assign) is False for x in literals(leaf))


def literals_of(leaf: Leaf, nodes) -> List[sp.Expr]:
    """Literals of the path restricted to the conditions that come from the given `if` statements."""
    ids = {id(n) for n in nodes}
    sub = Leaf([c for c, n in zip(leaf.conds, leaf.cond_nodes) if id(n) in ids], leaf.env, [])
    return literals(sub)


def expand_piecewise(lits: List[sp.Expr]) -> List[List[sp.Expr]]:
    """Split literals that contain a Piecewise term into one case per piece."""
    for i, x in enumerate(lits):
        pws = list(x.atoms(sp.Piecewise)) if hasattr(x, "atoms") else []
        if pws:
            pw = pws[0]
            out = []
            neg: List[sp.Expr] = []
            for v, c in pw.args:
                extra = [] if c == sp.true else ([canon_rel(a) for a in c.args] if isinstance(c, sp.And) else [canon_rel(c)])
                y = x.xreplace({pw: v})
                out += expand_piecewise(lits[:i] + neg + extra + [canon_rel(y) if isinstance(y, (sp.Lt, sp.Le, sp.Gt, sp.Ge)) else y] + lits[i + 1:])
                if c != sp.true:
                    neg = neg + [negate(c)]
            return out
    return [lits]


def literals(leaf: Leaf) -> List[sp.Expr]:
    """Path condition as a list of atomic canonical relations (conjunction): negations are pushed inward (`not (a or b)` taken
    true, or `a or b` taken false, are `not a`, `not b`), conjunctions are split; disjunctions that hold stay whole."""
    out: List[sp.Expr] = []

    def add(c, t: bool):
        if isinstance(c, sp.Not):
            add(c.args[0], not t)
        elif t and isinstance(c, sp.And):
            for a in c.args:
                add(a, True)
        elif not t and isinstance(c, sp.Or):
            for a in c.args:
                add(a, False)
        else:
            out.append(canon_rel(c) if t else negate(c))
    for c, t in leaf.conds:
        add(c, bool(t))
    return out


def same_rel(a, b) -> bool:
    a, b = canon_rel(a), canon_rel(b)
    if type(a) is not type(b):
        return False
    if isinstance(a, (sp.Gt, sp.Ge, sp.Eq, sp.Ne)):
        if equal(a.lhs, b.lhs) and equal(a.rhs, b.rhs):
            return True
        if isinstance(a, (sp.Eq, sp.Ne)) and equal(a.lhs, b.rhs) and equal(a.rhs, b.lhs):
            return True
        return False
    return a == b


def same_literal_set(xs: List[sp.Expr], ys: List[sp.Expr]) -> bool:
    xs, ys = list(xs), list(ys)
    if len(xs) != len(ys):
        return False
    for x in xs:
        hit = None
        for y in ys:
            if same_rel(x, y):
                hit = y
                break
        if hit is None:
            return False
        ys.remove(hit)
    return True
