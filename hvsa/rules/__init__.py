"""One module per property: ``run(ck, prog, tier)`` evaluates the property's rules."""
