"""C03 - one curve per window, in input order, independent of the other windows."""
from __future__ import annotations

import ast
from typing import Dict, List, Optional

import sympy as sp

from ..astutil import call_name, calls_in, own_nodes, unparse, kwarg
from ..cfg import cfg_of, events_per_iteration
from ..dataflow import reaching, loop_carried
from ..expr import Translator, equal, forward_substitute
from ..model import AnalysisError, Program, norm_key, parent_of
from ..report import Checker
from .procmodel import ROW_BODIES, extract_body

EXPLANATION = (
    "Counter-role, pairing, ordering and locality rules over the three row-building processing bodies and the "
    "time-step policy function. Decided: (R1) the reorder table is written as order[original index] = running "
    "row counter; the counter starts at 0 outside both loops and is incremented exactly once, together with "
    "exactly one write of the record's horizontal and vertical rows (or one result row for RotDpp), on every "
    "iteration that passes the time-step filter and never otherwise; the per-group counters are reset per group "
    "and the group offset advances by the group size; the gather by the reorder table happens exactly once on "
    "every path to the return and its result is what the constructor receives; (R2) group sizes: the count "
    "returned for a time step is incremented together with the append of the record, records are appended in "
    "input order, the smallest-step policy selects min over the time steps and the majority policy a maximal "
    "count; (R3) the attribute that builds the groups is the attribute the loops filter on; (R4) each curve-"
    "producing body calls check_nyquist_frequency on the largest retained time step before any spectrum is "
    "computed, and the guard raises when max(fcs) > 1/(2 dt); (R5) inside the per-record loop no value carries "
    "over from a previous record (counters excepted); (R6) the result array has len(records) rows taken after "
    "the policy filter and len(fcs) columns, fcs are the configured centre frequencies and are what the result "
    "object receives, and result validation rejects NaN and negative values. Not decided: finiteness of "
    "amplitudes (depends on data); floating-point equality of joint and separate runs.")

RULES = {
    "C03.R1": "order[org_idx] = cur_idx; counters in lock-step with row writes; single gather feeding the constructor",
    "C03.R2": "count per time step == records appended; input order kept; min / maximal-count selection",
    "C03.R3": "grouping key == filter key (record.ns.dt_in_seconds)",
    "C03.R4": "Nyquist guard on the largest retained time step before the loops; raises when max(fcs) > 1/(2dt)",
    "C03.R5": "no loop-carried state between records (counters excepted)",
    "C03.R6": "result shape (len(records) after filtering, len(fcs)); fcs configured and passed on; validation rejects NaN/negative",
}

P = "C03."     # rule-id prefix (C01 reuses the per-body bookkeeping rules under its own ids)

COUNTERS = {"cur_idx", "hor_idx", "ver_idx", "hvsr_idx"}


def run(ck: Checker, prog: Program, tier: str):
    for q in ROW_BODIES:
        ck.guard(_body, ck, prog, q)
    ck.guard(_r2, ck, prog)
    # the azimuthal path applies the same time-step policy: every settings field read by the single-azimuth
    # body (incl. handle_dissimilar_time_steps_by) is forwarded
    from .c04 import _r4 as _azimuthal_forwarding
    ck.guard(_azimuthal_forwarding, ck, prog, P + "R2")
    ck.guard(_r4_guard, ck, prog)
    ck.guard(_validation, ck, prog)


def _is_aug(st, name, amount: Optional[str] = "1") -> bool:
    return isinstance(st, ast.AugAssign) and isinstance(st.op, ast.Add) and unparse(st.target) == name and (amount is None or unparse(st.value) == amount)


def _body(ck: Checker, prog: Program, q: str):
    b = extract_body(prog, q)
    f = b.func
    cfg = cfg_of(f)
    rotd = q.endswith("rotdpp_hvsr_processing")
    # ------------------------------------------------------------------ R3 filter
    filt_ok = b.filter_if is not None and unparse(b.filter_if.test) == f"{b.record}.ns.dt_in_seconds != {b.dt_var}" \
        and b.record_loop.body[0] is b.filter_if
    if filt_ok:
        ck.ok(P + "R3", q, norm_key(b.filter_if), detail="records of other time steps are skipped first thing")
    else:
        ck.violation(P + "R3", q, "time-step filter",
                     f"the per-record loop does not start with `if {b.record}.ns.dt_in_seconds != {b.dt_var}: continue` "
                     f"(found `{unparse(b.filter_if.test) if b.filter_if is not None else None}`)", loc=f.loc(b.record_loop))
    # ------------------------------------------------------------------ R1 events per record iteration
    ev_names = ["order[org]=cur", "cur+=1", "hor row", "ver row", "hor+=1", "ver+=1", "bad order store", "result row", "hvsr+=1"]

    def classify(n):
        st = cfg.ast_of(n)
        if cfg.kind(n) != "stmt":
            return None
        if isinstance(st, ast.Assign) and isinstance(st.targets[0], ast.Subscript):
            tv, ts = unparse(st.targets[0].value), unparse(st.targets[0].slice)
            if tv == "hvsr_indices_to_order":
                return 0 if (ts == b.org_idx and unparse(st.value) == "cur_idx") else 6
            if tv == "raw_spectra" and ts == "hor_idx":
                return 2
            if tv == "raw_spectra" and ts == "ver_idx":
                return 3
            if tv == "hvsr_spectra" and rotd and ts == "hvsr_idx":
                return 7
        if _is_aug(st, "cur_idx"):
            return 1
        if _is_aug(st, "hor_idx"):
            return 4
        if _is_aug(st, "ver_idx"):
            return 5
        if _is_aug(st, "hvsr_idx") and rotd:
            return 8
        if isinstance(st, (ast.Assign, ast.AugAssign)):
            tg = st.targets if isinstance(st, ast.Assign) else [st.target]
            for t in tg:
                if isinstance(t, ast.Name) and t.id in COUNTERS:
                    return 6
        return None
    res = events_per_iteration(cfg, b.record_loop, classify, len(ev_names))
    skip = tuple(0 for _ in ev_names)
    if rotd:
        full = (1, 1, 0, 0, 0, 0, 0, 1, 1)
    else:
        full = (1, 1, 1, 1, 1, 1, 0, 0, 0)
    if res == {skip, full}:
        ck.ok(P + "R1", q, "per-record bookkeeping", detail="skipped record: nothing written; processed record: " +
              ", ".join(n for n, v in zip(ev_names, full) if v))
    else:
        bad = sorted(res - {skip, full})
        desc = "; ".join("{" + ", ".join(f"{n} x{v}" for n, v in zip(ev_names, t) if v) + "}" for t in bad[:3]) or str(sorted(res))
        ck.violation(P + "R1", q, "per-record bookkeeping",
                     f"an iteration of the per-record loop can end with {desc}; expected either nothing (skipped time step) or exactly "
                     f"{{{', '.join(n for n, v in zip(ev_names, full) if v)}}}: rows would be permuted, dropped or duplicated",
                     loc=f.loc(b.record_loop))
    # order store precedes the increment
    stores = [st for st in ast.walk(b.record_loop) if isinstance(st, ast.Assign) and isinstance(st.targets[0], ast.Subscript)
              and unparse(st.targets[0].value) == "hvsr_indices_to_order"]
    incs = [st for st in ast.walk(b.record_loop) if _is_aug(st, "cur_idx")]
    if len(stores) == 1 and len(incs) == 1 and stores[0].lineno < incs[0].lineno and parent_of(stores[0]) is parent_of(incs[0]):
        ck.ok(P + "R1", q, norm_key(stores[0]), detail="original index -> row counter (pre-increment)")
    elif len(stores) == 1 and len(incs) == 1:
        ck.violation(P + "R1", q, norm_key(stores[0]), "the reorder entry is not written before the row counter advances", loc=f.loc(stores[0]))
    # initialisations
    def init_of(name):
        return [st for st in own_nodes(f.node) if isinstance(st, ast.Assign) and unparse(st.targets[0]) == name]
    for name in ("cur_idx", "hvsr_idx"):
        i = init_of(name)
        if len(i) == 1 and parent_of(i[0]) is f.node and unparse(i[0].value) == "0" and i[0].lineno < b.group_loop.lineno:
            ck.ok(P + "R1", q, f"{name} = 0 before the loops", nontrivial=False)
        else:
            ck.violation(P + "R1", q, f"{name} initialisation", f"`{name}` is not initialised to 0 exactly once before the group loop", loc=f.loc())
    if not rotd:
        hi, vi = init_of("hor_idx"), init_of("ver_idx")
        good = len(hi) == 1 and len(vi) == 1 and parent_of(hi[0]) is b.group_loop and parent_of(vi[0]) is b.group_loop \
            and unparse(hi[0].value) == "0" and unparse(vi[0].value) == (b.count_var or "?") and hi[0].lineno < b.record_loop.lineno
        if good:
            ck.ok(P + "R1", q, "hor_idx = 0, ver_idx = count per group")
        else:
            ck.violation(P + "R1", q, "per-group counters", "hor_idx/ver_idx are not reset to 0/count at the start of every group", loc=f.loc(b.group_loop))
        alloc = [st for st in b.group_loop.body if isinstance(st, ast.Assign) and unparse(st.targets[0]) == "raw_spectra"]
        T = Translator()
        ok_alloc = len(alloc) == 1 and isinstance(alloc[0].value, ast.Call) and alloc[0].value.args and isinstance(alloc[0].value.args[0], ast.Tuple) \
            and equal(T.tr(alloc[0].value.args[0].elts[0]), 2 * T.sym(b.count_var or "count"))
        if ok_alloc:
            ck.ok(P + "R1", q, norm_key(alloc[0]), detail="2*count rows per group")
        else:
            ck.violation(P + "R1", q, "raw spectra allocation", "the per-group array does not have 2*count rows", loc=f.loc(b.group_loop))
        # group block write and offset
        blk = [st for st in b.group_loop.body if isinstance(st, ast.Assign) and isinstance(st.targets[0], ast.Subscript)
               and unparse(st.targets[0].value) == "hvsr_spectra"]
        adv = [st for st in b.group_loop.body if _is_aug(st, "hvsr_idx", None)]
        c = b.count_var or "count"
        good = len(blk) == 1 and unparse(blk[0].targets[0].slice) == f"hvsr_idx:hvsr_idx + {c}" \
            and unparse(blk[0].value) == f"smooth_spectra[:{c}] / smooth_spectra[{c}:]" \
            and len(adv) == 1 and unparse(adv[0].value) == c and blk[0].lineno < adv[0].lineno and blk[0].lineno > b.record_loop.end_lineno
        if good:
            ck.ok(P + "R1", q, norm_key(blk[0], 110), detail="group rows [offset, offset+count); offset += count")
        else:
            ck.violation(P + "R1", q, "group block", f"the group's rows are not written to [hvsr_idx, hvsr_idx+{c}) followed by hvsr_idx += {c}", loc=f.loc(b.group_loop))
    # gather exactly once, after the loops, feeding the constructor
    g = b.gather
    good = len(g) == 1 and parent_of(g[0]) is f.node and g[0].lineno > b.group_loop.end_lineno and unparse(g[0].value) == "hvsr_spectra[hvsr_indices_to_order]" \
        and unparse(g[0].targets[0]) == "hvsr_spectra"
    good = good and b.ctor is not None and len(b.ctor.args) >= 2 and unparse(b.ctor.args[1]) == "hvsr_spectra"
    if good:
        rd = reaching(f)
        defs = rd.def_stmts("hvsr_spectra", b.ctor)
        good = defs == [g[0]]
    if good:
        ck.ok(P + "R1", q, norm_key(g[0]), detail="rows gathered back to input order exactly once; the constructor receives the gathered array")
    else:
        ck.violation(P + "R1", q, "gather", f"the rows are not gathered by the reorder table exactly once before the result is built ({len(g)} gather statement(s))",
                     loc=f.loc())
    tbl = [st for st in own_nodes(f.node) if isinstance(st, ast.Assign) and unparse(st.targets[0]) == "hvsr_indices_to_order"]
    if len(tbl) == 1 and "len(records)" in unparse(tbl[0].value) and "dtype=int" in unparse(tbl[0].value):
        ck.ok(P + "R1", q, norm_key(tbl[0]), nontrivial=False)
    else:
        ck.violation(P + "R1", q, "reorder table", "the reorder table is not an integer array with one entry per record", loc=f.loc())
    # ------------------------------------------------------------------ R5
    carried = loop_carried(f, b.record_loop, ignore=COUNTERS)
    if not carried:
        ck.ok(P + "R5", q, norm_key(b.record_loop), detail="no value is carried from one record to the next")
    for (nm, use, d) in carried:
        ck.violation(P + "R5", q, f"{nm} <- {norm_key(d, 70)}",
                     f"`{nm}` read at line {use.lineno} may hold a value computed for a previous record: a curve would depend on the other recordings",
                     loc=f.loc(use))
    # ------------------------------------------------------------------ R4 / R6 preamble order
    pre = [st for st in f.node.body if st.lineno < b.group_loop.lineno]
    texts = [norm_key(st, 200) for st in pre]
    prep = [i for i, st in enumerate(pre) if isinstance(st, ast.Assign) and calls_in(st.value, "prepare_records_with_inconsistent_dt")]
    alloc = [i for i, st in enumerate(pre) if isinstance(st, ast.Assign) and unparse(st.targets[0]) == "hvsr_spectra"]
    nyq = [i for i, st in enumerate(pre) if isinstance(st, ast.Expr) and calls_in(st, "check_nyquist_frequency")]
    fcs = [i for i, st in enumerate(pre) if isinstance(st, ast.Assign) and unparse(st.targets[0]) == "fcs"]
    good = len(prep) == 1 and unparse(pre[prep[0]].targets[0]) in ("(records, dt_with_count)", "records, dt_with_count") \
        and [unparse(a) for a in calls_in(pre[prep[0]].value, "prepare_records_with_inconsistent_dt")[0].args] == ["records", "settings"]
    if good and len(alloc) == 1 and alloc[0] > prep[0] and unparse(pre[alloc[0]].value) == "np.empty((len(records), len(fcs)))":
        ck.ok(P + "R6", q, norm_key(pre[alloc[0]]), detail="rows = records retained by the policy, columns = centre frequencies")
    else:
        ck.violation(P + "R6", q, "result allocation", "the result array is not allocated as (len(records) after the time-step policy, len(fcs))", loc=f.loc())
    if len(fcs) == 1 and unparse(pre[fcs[0]].value) == "np.array(settings.smoothing['center_frequencies_in_hz'])" and b.ctor is not None \
            and unparse(b.ctor.args[0]) == "fcs" and reaching(f).def_stmts("fcs", b.ctor) == [pre[fcs[0]]]:
        ck.ok(P + "R6", q, norm_key(pre[fcs[0]]), detail="the result's frequency vector is the configured centre frequencies")
    else:
        ck.violation(P + "R6", q, "centre frequencies", "the result's frequency vector is not the configured centre frequencies", loc=f.loc())
    if len(nyq) == 1 and good and nyq[0] > prep[0]:
        c = calls_in(pre[nyq[0]], "check_nyquist_frequency")[0]
        a = [unparse(x) for x in c.args]
        if a == ["max(dt_with_count.keys())", "fcs"]:
            ck.ok(P + "R4", q, norm_key(c), detail="guard on the largest retained time step, before any spectrum is computed")
        else:
            ck.violation(P + "R4", q, norm_key(c), f"the Nyquist guard is called with {a}; expected (largest retained time step, fcs)", loc=f.loc(c))
    else:
        ck.violation(P + "R4", q, "Nyquist guard", "check_nyquist_frequency is not called once after the time-step policy and before the loops", loc=f.loc())


def _r2(ck: Checker, prog: Program):
    f = prog.func("processing.prepare_records_with_inconsistent_dt")
    fq = f.qualname
    # counting loop
    loops = [st for st in f.node.body if isinstance(st, ast.For)]
    good = False
    if loops and unparse(loops[0].iter) == "records":
        lp = loops[0]
        rec = unparse(lp.target)
        key = [st for st in lp.body if isinstance(st, ast.Assign) and unparse(st.value) == f"{rec}.ns.dt_in_seconds"]
        tr = [st for st in lp.body if isinstance(st, ast.Try)]
        if key and tr:
            k = unparse(key[0].targets[0])
            inc = [x for x in tr[0].body if _is_aug(x, f"dt_with_count[{k}]")]
            ini = [x for h in tr[0].handlers for x in h.body if isinstance(x, ast.Assign) and unparse(x.targets[0]) == f"dt_with_count[{k}]" and unparse(x.value) == "1"]
            good = len(inc) == 1 and len(ini) == 1 and all(unparse(h.type) == "KeyError" for h in tr[0].handlers)
    if good:
        ck.ok(P + "R2", fq, "dt_with_count[dt] counts the records per time step (key record.ns.dt_in_seconds)")
        ck.ok(P + "R3", fq, "group key record.ns.dt_in_seconds", nontrivial=False)
    else:
        ck.violation(P + "R2", fq, "counting loop", "records are not counted per `record.ns.dt_in_seconds` (one increment per record)", loc=f.loc())
    # policies
    branches = {}
    cur = [st for st in f.node.body if isinstance(st, ast.If)]
    node = cur[0] if cur else None
    while isinstance(node, ast.If):
        t = node.test
        if isinstance(t, ast.Compare) and isinstance(t.comparators[0], ast.Constant) and unparse(t.left) == "settings.handle_dissimilar_time_steps_by":
            branches[t.comparators[0].value] = node
        node = node.orelse[0] if len(node.orelse) == 1 and isinstance(node.orelse[0], ast.If) else None
    want = {"frequency_domain_resampling", "keeping_smallest_time_step", "keeping_majority_time_step"}
    if set(branches) != want:
        ck.violation(P + "R2", fq, "policies", f"policies handled: {sorted(branches)}; expected {sorted(want)}", loc=f.loc())
        return
    r0 = [x for x in branches["frequency_domain_resampling"].body if isinstance(x, ast.Return)]
    if len(r0) == 1 and unparse(r0[0].value) == "(records, dt_with_count)":
        ck.ok(P + "R2", fq, "frequency_domain_resampling keeps every record", nontrivial=False)
    else:
        ck.violation(P + "R2", fq, "frequency_domain_resampling", "the resampling policy does not return all records with their counts", loc=f.loc())
    for pol, sel_name in (("keeping_smallest_time_step", "smallest_dt"), ("keeping_majority_time_step", "majority_dt")):
        br = branches[pol]
        body = br.body
        lp = [st for st in body if isinstance(st, ast.For) and unparse(st.iter) == "records"]
        if len(lp) != 1:
            ck.violation(P + "R2", fq, pol, "selection loop over records not found", loc=f.loc(br))
            continue
        lp = lp[0]
        rec = unparse(lp.target)
        sel = [st for st in lp.body if isinstance(st, ast.If)]
        okk = False
        detail = ""
        if len(sel) == 1 and isinstance(sel[0].test, ast.Compare) and isinstance(sel[0].test.ops[0], ast.Eq) \
                and unparse(sel[0].test.left) == f"{rec}.ns.dt_in_seconds" and not sel[0].orelse:
            chosen = unparse(sel[0].test.comparators[0])
            blk = sel[0].body
            app = [x for x in blk if isinstance(x, ast.Expr) and isinstance(x.value, ast.Call) and call_name(x.value) == "append"
                   and unparse(x.value.func.value) == "abbr_records" and unparse(x.value.args[0]) == rec]
            inc = [x for x in blk if _is_aug(x, "count")]
            brk = [x for x in blk if isinstance(x, ast.If)]
            early_ok = all(isinstance(x.test, ast.Compare) and isinstance(x.test.ops[0], ast.Eq) and unparse(x.test.left) == "count"
                           and all(isinstance(y, ast.Break) for y in x.body) for x in brk)
            okk = len(app) == 1 and len(inc) == 1 and early_ok and chosen == sel_name
            detail = f"selected `{chosen}`; append x{len(app)}; count += 1 x{len(inc)}"
            # early break only once every record of that time step has been taken
            for x in brk:
                total = unparse(x.test.comparators[0])
                if total not in (f"dt_with_count[{chosen}]", "majority_count"):
                    okk = False
                    detail += f"; early exit at count == {total}"
        init = [st for st in body if isinstance(st, ast.Assign) and unparse(st.targets[0]) in ("abbr_records", "count")]
        okk = okk and {unparse(st.targets[0]): unparse(st.value) for st in init} == {"abbr_records": "[]", "count": "0"}
        rets = [x for x in body if isinstance(x, ast.Return)]
        ret_ok = len(rets) == 1 and unparse(rets[0].value) in (f"(abbr_records, {{{sel_name}: count}})", f"(abbr_records, {{{sel_name}: majority_count}})")
        if okk and ret_ok:
            ck.ok(P + "R2", fq, f"{pol}: {detail}", detail="records of the selected step appended in input order together with the count")
        else:
            ck.violation(P + "R2", fq, pol, f"{pol}: retained records/count bookkeeping broken ({detail}; return ok: {ret_ok})", loc=f.loc(br))
        # the selected time step
        if pol == "keeping_smallest_time_step":
            d = [st for st in body if isinstance(st, ast.Assign) and unparse(st.targets[0]) == "smallest_dt"]
            if len(d) == 1 and unparse(d[0].value) in ("min(dt_with_count.keys())", "min(dt_with_count)"):
                ck.ok(P + "R2", fq, norm_key(d[0]), detail="smallest time step")
            else:
                ck.violation(P + "R2", fq, "smallest time step", f"the retained time step is `{unparse(d[0].value) if d else None}`, not the smallest one", loc=f.loc(br))
        else:
            scan = [st for st in body if isinstance(st, ast.For) and unparse(st.iter) == "dt_with_count.items()"]
            good = False
            if len(scan) == 1 and isinstance(scan[0].target, ast.Tuple):
                pdt, pc = [unparse(e) for e in scan[0].target.elts]
                ifs = [x for x in scan[0].body if isinstance(x, ast.If)]
                if len(ifs) == 1 and isinstance(ifs[0].test, ast.Compare) and isinstance(ifs[0].test.ops[0], (ast.Gt, ast.GtE)) \
                        and unparse(ifs[0].test.left) == pc and unparse(ifs[0].test.comparators[0]) == "majority_count":
                    asg = {unparse(x.targets[0]): unparse(x.value) for x in ifs[0].body if isinstance(x, ast.Assign)}
                    good = asg == {"majority_dt": pdt, "majority_count": pc}
                i0 = [st for st in body if isinstance(st, ast.Assign) and unparse(st.targets[0]) == "majority_count" and unparse(st.value) == "0"]
                good = good and len(i0) == 1 and i0[0].lineno < scan[0].lineno
            if good:
                ck.ok(P + "R2", fq, "majority: running maximum of the counts", detail="a most frequent time step")
            else:
                ck.violation(P + "R2", fq, "majority time step", "the retained time step is not one with the largest count", loc=f.loc(br))


def _r4_guard(ck: Checker, prog: Program):
    f = prog.func("processing.check_nyquist_frequency")
    T = Translator()
    forward_substitute([st for st in f.node.body if isinstance(st, ast.Assign)], T)
    ifs = [st for st in f.node.body if isinstance(st, ast.If) and any(isinstance(b, ast.Raise) for b in st.body)]
    good = False
    got = None
    if len(ifs) == 1:
        got = T.tr(ifs[0].test)
        dt, fcs = T.sym(f.params[0]), T.sym(f.params[1])
        mx = [sp.Function("max")(fcs), sp.Function("amax")(fcs)]
        if isinstance(got, (sp.Gt, sp.Ge)):
            good = any(equal(got.lhs, m) for m in mx) and equal(got.rhs, 1 / (2 * dt)) and isinstance(got, sp.Gt)
        elif isinstance(got, (sp.Lt, sp.Le)):
            good = any(equal(got.rhs, m) for m in mx) and equal(got.lhs, 1 / (2 * dt)) and isinstance(got, sp.Lt)
    if good:
        ck.ok(P + "R4", f.qualname, norm_key(ifs[0]), detail="raises iff max(fcs) > 1/(2 dt)")
    else:
        ck.violation(P + "R4", f.qualname, "Nyquist test", f"the guard raises when {got}; expected max(fcs) > 1/(2*dt) (the largest requested centre frequency, "
                     f"whatever the order of fcs)", loc=f.loc())
    d = prog.func("processing.diffuse_field_hvsr_processing")
    cs = calls_in(d.node, "check_nyquist_frequency")
    if len(cs) == 1 and [unparse(a) for a in cs[0].args] == ["max(dt_with_count.keys())", "fcs"]:
        ck.ok(P + "R4", d.qualname, norm_key(cs[0]))
    else:
        ck.violation(P + "R4", d.qualname, "Nyquist guard", "diffuse-field processing does not guard the largest retained time step", loc=d.loc())


def _validation(ck: Checker, prog: Program):
    f = prog.func("hvsr_curve.HvsrCurve._check_input")
    raises = {}
    for st in f.node.body:
        if isinstance(st, ast.If) and any(isinstance(b, ast.Raise) for b in st.body):
            raises[unparse(st.test)] = st
    want = {"np.isnan(value).any()", "(value < 0).any()"}
    if want <= set(raises):
        ck.ok(P + "R6", f.qualname, "rejects NaN and negative values")
    else:
        ck.violation(P + "R6", f.qualname, "validation", f"validation guards found: {sorted(raises)}; expected {sorted(want)}", loc=f.loc())
    t = prog.func("hvsr_traditional.HvsrTraditional.__init__")
    uses = [unparse(st.value) for st in t.node.body if isinstance(st, ast.Assign) and unparse(st.targets[0]) in ("self.frequency", "self.amplitude")]
    if uses == ["HvsrCurve._check_input(frequency, 'frequency')", "np.atleast_2d(HvsrCurve._check_input(amplitude, 'amplitude'))"]:
        ck.ok(P + "R6", t.qualname, "frequency and amplitude are validated on construction")
    else:
        ck.violation(P + "R6", t.qualname, "validation on construction", f"stored as {uses}", loc=t.loc())
    shape = [st for st in t.node.body if isinstance(st, ast.If) and any(isinstance(b, ast.Raise) for b in st.body) and "shape[1]" in unparse(st.test)]
    if shape:
        ck.ok(P + "R6", t.qualname, norm_key(shape[0]), nontrivial=False)
    else:
        ck.violation(P + "R6", t.qualname, "shape check", "no check that the number of columns equals the number of frequencies", loc=t.loc())
