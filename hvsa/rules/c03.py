"""C03 - one curve per window, in input order, independent of the other windows."""
from __future__ import annotations

import ast
from typing import Dict, List, Optional

import sympy as sp

from ..astutil import call_name, calls_in, own_nodes, unparse, kwarg
from ..cfg import cfg_of, events_per_iteration
from ..dataflow import reaching, loop_carried
from ..expr import Translator, equal, forward_substitute
from ..model import AnalysisError, Program, norm_key, parent_of
from ..report import Checker
from .procmodel import ROW_BODIES, extract_body
from ..resolve import Resolver, canon
from typing import Tuple

EXPLANATION = (
    "Counter-role, pairing, ordering and locality rules over the three row-building processing bodies and the "
    "time-step policy function. Decided: (R1) the reorder table is written as order[original index] = running "
    "row counter; the counter starts at 0 outside both loops and is incremented exactly once, together with "
    "exactly one write of the record's horizontal and vertical rows (or one result row for RotDpp), on every "
    "iteration that passes the time-step filter and never otherwise; the per-group counters are reset per group "
    "and the group offset advances by the group size; the gather by the reorder table happens exactly once on "
    "every path to the return and its result is what the constructor receives; (R2) group sizes: the count "
    "returned for a time step is incremented together with the append of the record, records are appended in "
    "input order, the smallest-step policy selects min over the time steps and the majority policy a maximal "
    "count; (R3) the attribute that builds the groups is the attribute the loops filter on; (R4) each curve-"
    "producing body calls check_nyquist_frequency on the largest retained time step before any spectrum is "
    "computed, and the guard raises when max(fcs) > 1/(2 dt); (R5) inside the per-record loop no value carries "
    "over from a previous record (counters excepted); (R6) the result array has len(records) rows taken after "
    "the policy filter and len(fcs) columns, fcs are the configured centre frequencies and are what the result "
    "object receives, and result validation rejects NaN and negative values. Not decided: finiteness of "
    "amplitudes (depends on data); floating-point equality of joint and separate runs.")

RULES = {
    "C03.R1": "row-index algebra: the k-th record of a group writes rows k and count+k, the group ratio pairs them, rows land at K+k (reorder table o -> K+k, single gather) or directly at the original positions; counters in lock-step with the writes",
    "C03.R2": "count per time step == records appended; input order kept; min / maximal-count selection",
    "C03.R3": "grouping key == filter key (record.ns.dt_in_seconds); a group is smoothed against rfftfreq(n, its own dt)",
    "C03.R4": "Nyquist guard on the largest retained time step before the loops; raises when max(fcs) > 1/(2dt)",
    "C03.R5": "no loop-carried state between records (counters excepted); processing does not modify the caller's recordings (no history dependence)",
    "C03.R6": "result shape (len(records) after filtering, len(fcs)); fcs configured and passed on; validation rejects NaN/negative",
}

P = "C03."     # rule-id prefix (C01 reuses the per-body bookkeeping rules under its own ids)

COUNTERS = {"cur_idx", "hor_idx", "ver_idx", "hvsr_idx"}


def run(ck: Checker, prog: Program, tier: str):
    for q in ROW_BODIES:
        ck.guard(_body, ck, prog, q)
    ck.guard(_r2, ck, prog)
    # the azimuthal path applies the same time-step policy: every settings field read by the single-azimuth
    # body (incl. handle_dissimilar_time_steps_by) is forwarded
    from .c04 import _r4 as _azimuthal_forwarding
    ck.guard(_azimuthal_forwarding, ck, prog, P + "R2")
    ck.guard(_r4_guard, ck, prog)
    # the policy a caller constructs is the policy the pipeline reads
    from .c15 import check_delivery
    ck.guard(check_delivery, ck, prog, P + "R2", ["HvsrTraditionalProcessingSettings", "HvsrTraditionalSingleAzimuthProcessingSettings", "HvsrTraditionalRotDppProcessingSettings", "HvsrAzimuthalProcessingSettings", "HvsrDiffuseFieldProcessingSettings"],
             only=("handle_dissimilar_time_steps_by", "fft_settings"), why="records with other time steps would be handled by the default policy", floor=5)
    ck.guard(_validation, ck, prog)
    ck.guard(_history, ck, prog)
    # the FFT length in force is the caller's request or the length needed by this call's records, whichever is larger: a
    # request is not replaced by something that depends on the companions of a recording (rule of C01)
    from . import c01
    with ck.borrow(c01, P + "R5+"):
        ck.guard(c01._r7, ck, prog)
    for q in ROW_BODIES[:2]:
        ck.guard(_group_axis, ck, prog, q)
    # "sampled at exactly the requested centre frequencies", whatever their order: every smoothing column is computed from the
    # whole spectrum and from its own centre frequency alone (loop rules of C02)
    # "for a fixed FFT length ... the same whether it is processed alone, together ... or in any order": the FFT length process()
    # derives is written into a private copy of the settings, never into the caller's object (rule of C09)
    from . import c09
    with ck.borrow(c09, P + "R5+"):
        ck.guard(c09._r2c, ck, prog)
    from . import c02
    with ck.borrow(c02, P + "R6+"):
        for k in c02.LOOP_KERNELS:
            ck.guard(c02._kernel, ck, prog, k)
        ck.guard(c02._sg, ck, prog)
    from .common import check_identity_comparisons as _cic
    ck.guard(_cic, ck, prog, "C03.R1", "C03")


def _is_aug(st, name, amount: Optional[str] = "1") -> bool:
    return isinstance(st, ast.AugAssign) and isinstance(st.op, ast.Add) and unparse(st.target) == name and (amount is None or unparse(st.value) == amount)


# symbols of the row-index algebra: position of the record within its group, rows written before the group,
# size of the group, original position of the record
K_, k_, CNT_, O_ = sp.Symbol("K", integer=True), sp.Symbol("k", integer=True), sp.Symbol("count", integer=True), sp.Symbol("o", integer=True)


def _doc_order(root: ast.AST) -> Dict[int, int]:
    order: Dict[int, int] = {}

    def go(n):
        order[id(n)] = len(order)
        for c in ast.iter_child_nodes(n):
            go(c)
    go(root)
    return order


class _Counters:
    """Running counters of a row-building body as affine forms in (K, k, count)."""

    def __init__(self, b, q):
        self.b, self.q = b, q
        f = b.func
        self.order = _doc_order(f.node)
        self.c: Dict[str, dict] = {}
        aug = [n for n in own_nodes(f.node) if isinstance(n, ast.AugAssign) and isinstance(n.target, ast.Name)]
        for name in sorted({n.target.id for n in aug}):
            incs = [n for n in aug if n.target.id == name]
            inits = [n for n in own_nodes(f.node) if isinstance(n, ast.Assign) and any(isinstance(t, ast.Name) and t.id == name for t in n.targets)]
            if not any(self._within(n, b.group_loop) for n in incs):
                continue
            self.c[name] = {"incs": incs, "inits": inits}
        self.names = set(self.c)

    def _within(self, n, anc) -> bool:
        while n is not None:
            if n is anc:
                return True
            n = parent_of(n)
        return False

    def _before(self, a, b) -> bool:
        return self.order[id(a)] < self.order[id(b)]

    def value(self, name: str, use: ast.AST) -> sp.Expr:
        b = self.b
        c = self.c[name]
        T = Translator(env={b.count_var: CNT_} if b.count_var else {})
        if len(c["inits"]) != 1:
            raise AnalysisError(f"{self.q}: counter `{name}` is initialised {len(c['inits'])} times")
        init = c["inits"][0]
        par = parent_of(init)
        if par is b.func.node and self._before(init, b.group_loop):
            level = "fn"
        elif par is b.group_loop and self._before(init, b.record_loop):
            level = "grp"
        else:
            raise AnalysisError(f"{self.q}: counter `{name}` is initialised at an unexpected place (`{norm_key(init, 60)}`)")
        v = T.tr(init.value)
        in_rec = self._within(use, b.record_loop)
        if not in_rec and not self._within(use, b.group_loop):
            raise AnalysisError(f"{self.q}: counter `{name}` used outside the group loop")
        for inc in c["incs"]:
            if not isinstance(inc.op, ast.Add):
                raise AnalysisError(f"{self.q}: counter `{name}` updated by `{norm_key(inc, 60)}`")
            amt = T.tr(inc.value)
            if self._within(inc, b.record_loop):
                if amt != 1:
                    raise AnalysisError(f"{self.q}: counter `{name}` advances by {amt} per record")
                if in_rec:
                    v = v + (K_ if level == "fn" else 0) + k_ + (1 if self._before(inc, use) else 0)
                else:
                    after = self._before(b.record_loop, use) and not self._within(use, b.record_loop)
                    v = v + (K_ if level == "fn" else 0) + (CNT_ if after else 0)
            elif parent_of(inc) is b.group_loop:
                if b.org_list and amt == sp.Function("len")(T.sym(b.org_list)):
                    amt = CNT_          # the list of the group's records has `count` entries
                if amt != CNT_ or level != "fn":
                    raise AnalysisError(f"{self.q}: counter `{name}` advances by {amt} per group")
                v = v + K_ + (CNT_ if self._before(inc, use) else 0)
            else:
                raise AnalysisError(f"{self.q}: counter `{name}` updated at an unexpected place")
        return sp.expand(v)

    def env_at(self, use: ast.AST) -> Dict[str, sp.Expr]:
        b = self.b
        env: Dict[str, sp.Expr] = {}
        if b.count_var:
            env[b.count_var] = CNT_
        for name in self.c:
            try:
                env[name] = self.value(name, use)
            except AnalysisError:
                pass
        if self._within(use, b.record_loop):
            env[b.org_idx] = O_
            if b.k_var:
                env[b.k_var] = k_
            # row indices named by a temporary of the body (ver_idx = count + hor_idx)
            for st in b.record_loop.body:
                if st is use or not self._before(st, use):
                    break
                if isinstance(st, ast.Assign) and len(st.targets) == 1 and isinstance(st.targets[0], ast.Name) and st.targets[0].id not in env \
                        and st.targets[0].id not in self.c:
                    names = {n.id for n in ast.walk(st.value) if isinstance(n, ast.Name)}
                    if names and names <= set(env) and not any(isinstance(n, (ast.Call, ast.Attribute, ast.Subscript)) for n in ast.walk(st.value)):
                        try:
                            here = dict(env)
                            for cn in names & set(self.c):
                                here[cn] = self.value(cn, st)       # a counter is read where the temporary is defined, not where it is used
                            env[st.targets[0].id] = sp.expand(Translator(env=here).tr(st.value))
                        except AnalysisError:
                            pass
        return env


def raw_list_form(b, raw_name: str) -> Optional[Tuple[str, str, ast.Assign]]:
    """(X, Y, statement) when the group's raw rows are collected in two lists and stacked afterwards - `raw = np.array(X + Y)`,
    `np.vstack((X, Y))`, `np.concatenate((X, Y))`, `np.array([*X, *Y])`: row k is the k-th element of X, row len(X) + k the k-th of Y."""
    for st in b.group_loop.body:
        if not (isinstance(st, ast.Assign) and len(st.targets) == 1 and isinstance(st.targets[0], ast.Name) and st.targets[0].id == raw_name):
            continue
        v = st.value
        if isinstance(v, ast.Call) and call_name(v) in ("array", "asarray", "vstack", "concatenate", "stack", "row_stack") and v.args:
            dt = kwarg(v, "dtype")
            if dt is not None and unparse(dt) not in ("float", "np.float64", "np.double"):
                return None
            a0 = v.args[0]
            parts = None
            if isinstance(a0, ast.BinOp) and isinstance(a0.op, ast.Add) and isinstance(a0.left, ast.Name) and isinstance(a0.right, ast.Name) and call_name(v) in ("array", "asarray"):
                parts = (a0.left.id, a0.right.id)
            elif isinstance(a0, (ast.Tuple, ast.List)) and len(a0.elts) == 2:
                if all(isinstance(e, ast.Name) for e in a0.elts) and call_name(v) in ("vstack", "concatenate", "row_stack"):
                    parts = (a0.elts[0].id, a0.elts[1].id)
                elif all(isinstance(e, ast.Starred) and isinstance(e.value, ast.Name) for e in a0.elts) and call_name(v) in ("array", "asarray", "vstack", "stack"):
                    parts = (a0.elts[0].value.id, a0.elts[1].value.id)
            if parts and parts[0] != parts[1]:
                return parts[0], parts[1], st
    return None


def _smoothing(b) -> Tuple[Optional[ast.Assign], Optional[ast.Call]]:
    """The group-level statement `S = <smoothing operator>(frq, RAW, fcs, bandwidth)`."""
    for st in b.group_loop.body:
        if isinstance(st, ast.Assign) and isinstance(st.value, ast.Call) and len(st.value.args) == 4 and self_after(b, st):
            return st, st.value
    return None, None


def self_after(b, st) -> bool:
    return st.lineno > b.record_loop.lineno or True


def _body(ck: Checker, prog: Program, q: str):
    b = extract_body(prog, q)
    f = b.func
    cfg = cfg_of(f)
    rotd = q.endswith("rotdpp_hvsr_processing")
    C = _Counters(b, q)
    # ------------------------------------------------------------------ R3 filter
    want_key = f"{b.record}.ns.dt_in_seconds"
    if b.filter_key is not None and unparse(b.filter_key) == want_key:
        ck.ok(P + "R3", q, f"records with {want_key} != {b.dt_var} are skipped", detail=f"form {b.form}")
    elif b.filter_key is not None:
        ck.violation(P + "R3", q, "time-step filter",
                     f"the group's records are selected by `{unparse(b.filter_key)}`; the groups were built from `{want_key}`", loc=f.loc(b.record_loop))
    else:
        ck.violation(P + "R3", q, "time-step filter",
                     f"the per-record loop does not select the records whose `{want_key}` equals the group's time step "
                     f"(found `{unparse(b.filter_if.test) if b.filter_if is not None else None}`)", loc=f.loc(b.record_loop))
    extra_exits = [n for st in b.stmts for n in ast.walk(st) if isinstance(n, (ast.Continue, ast.Break, ast.Return))
                   and not any(isinstance(a, (ast.For, ast.While)) and a is not b.record_loop and C._within(n, a) and C._within(a, b.record_loop) for a in ast.walk(b.record_loop))]
    for n in extra_exits:
        ck.violation(P + "R1", q, f"{type(n).__name__.lower()} in the per-record body",
                     f"a processed record can leave the per-record body early (`{type(n).__name__.lower()}` at line {n.lineno}): its rows would stay unwritten", loc=f.loc(n))
    # ------------------------------------------------------------------ arrays: RAW (smoothed per group), OUT (result), ORDER (reorder table)
    out_name = None
    if b.ctor is not None and len(b.ctor.args) >= 2 and isinstance(b.ctor.args[1], ast.Name):
        out_name = b.ctor.args[1].id
    if out_name is None:
        raise AnalysisError(f"{q}: the amplitude argument of the result constructor is not a local array")
    gathers = [st for st in own_nodes(f.node) if isinstance(st, ast.Assign) and isinstance(st.value, ast.Subscript)
               and isinstance(st.value.value, ast.Name) and st.value.value.id == out_name and isinstance(st.value.slice, ast.Name)
               and not C._within(st, b.group_loop)]
    order_name = gathers[0].value.slice.id if gathers else None
    sm_stmt = sm_call = None
    raw_name = None
    if not rotd:
        for st in b.group_loop.body:
            if isinstance(st, ast.Assign) and isinstance(st.value, ast.Call) and len(st.value.args) == 4 and C._before(b.record_loop, st) \
                    and isinstance(st.value.args[1], ast.Name) and len(st.targets) == 1 and isinstance(st.targets[0], ast.Name):
                sm_stmt, sm_call, raw_name = st, st.value, st.value.args[1].id
        if sm_stmt is None:
            raise AnalysisError(f"{q}: group-level smoothing call `S = operator(frq, raw, fcs, bandwidth)` not found")
    # ------------------------------------------------------------------ R1 events per processed record
    stores: Dict[str, List[ast.Assign]] = {"raw": [], "order": [], "out": []}
    synthetic_idx: Dict[int, sp.Expr] = {}
    lists = raw_list_form(b, raw_name) if raw_name else None
    if lists is not None:
        for n in ast.walk(b.record_loop):
            if isinstance(n, ast.Expr) and isinstance(n.value, ast.Call) and call_name(n.value) == "append" and isinstance(n.value.func, ast.Attribute) \
                    and isinstance(n.value.func.value, ast.Name) and n.value.func.value.id in lists[:2] and len(n.value.args) == 1:
                stores["raw"].append(n)
                # the k-th processed record of the group appends the k-th element; the second list follows the `count` rows of the first
                synthetic_idx[id(n)] = sp.expand(k_) if n.value.func.value.id == lists[0] else sp.expand(CNT_ + k_)
    for n in ast.walk(b.record_loop):
        if isinstance(n, ast.Assign) and len(n.targets) == 1 and isinstance(n.targets[0], ast.Subscript) and isinstance(n.targets[0].value, ast.Name):
            base = n.targets[0].value.id
            if base == raw_name:
                stores["raw"].append(n)
            elif base == order_name:
                stores["order"].append(n)
            elif base == out_name:
                stores["out"].append(n)
    rec_incs = [inc for nm in sorted(C.c) for inc in C.c[nm]["incs"] if C._within(inc, b.record_loop)]
    events: List[ast.AST] = stores["raw"] + stores["order"] + stores["out"] + rec_incs
    ev_ids = {id(e): i for i, e in enumerate(events)}

    def classify(n):
        if cfg.kind(n) != "stmt":
            return None
        return ev_ids.get(id(cfg.ast_of(n)))
    res = events_per_iteration(cfg, b.record_loop, classify, max(1, len(events)))
    skip = tuple(0 for _ in events) or (0,)
    full = tuple(1 for _ in events) or (0,)
    allowed = {skip, full} if b.form == "A" else {full}
    names = [norm_key(e, 50) for e in events]
    if events and res <= allowed and full in res:
        ck.ok(P + "R1", q, "per-record bookkeeping", detail="skipped record: nothing written; processed record: each once - " + "; ".join(names))
    else:
        bad = sorted(res - allowed)
        desc = "; ".join("{" + ", ".join(f"{n} x{v}" for n, v in zip(names, t) if v) + "}" for t in bad[:3]) or str(sorted(res))
        ck.violation(P + "R1", q, "per-record bookkeeping",
                     f"an iteration of the per-record loop can end with {desc}; expected either nothing (skipped time step) or each of "
                     f"{{{'; '.join(names)}}} exactly once: rows would be permuted, dropped or duplicated", loc=f.loc(b.record_loop))

    def idx_value(node: ast.AST, at: ast.AST) -> sp.Expr:
        T = Translator(env=C.env_at(at))
        return sp.expand(T.tr(node))
    # ------------------------------------------------------------------ R1 where the rows go
    placement = None          # "block" | "scatter" | "direct"
    if not rotd:
        got = sorted((str(synthetic_idx[id(st)] if id(st) in synthetic_idx else idx_value(st.targets[0].slice, st)) for st in stores["raw"]))
        if len(stores["raw"]) == 2 and got == sorted([str(sp.expand(k_)), str(sp.expand(CNT_ + k_))]):
            ck.ok(P + "R1", q, f"{raw_name}[k] and {raw_name}[count + k] hold the rows of the group's k-th record",
                  detail="; ".join(norm_key(st, 60) for st in stores["raw"]))
        else:
            ck.violation(P + "R1", q, "per-group rows",
                         f"the group's k-th record writes rows {got} of `{raw_name}`; expected rows k and count + k (numerator and denominator "
                         f"of the same record must be paired by the group-level ratio)", loc=f.loc(b.record_loop))
        alloc = [st for st in b.group_loop.body if isinstance(st, ast.Assign) and len(st.targets) == 1 and isinstance(st.targets[0], ast.Name)
                 and st.targets[0].id == raw_name]
        T = Translator(env={b.count_var: CNT_} if b.count_var else {})
        if lists is not None:
            # list form: both lists start empty for every group, before the group's records are visited
            inits = [st for st in b.group_loop.body if isinstance(st, ast.Assign) and len(st.targets) == 1 and isinstance(st.targets[0], ast.Name)
                     and st.targets[0].id in lists[:2] and isinstance(st.value, ast.List) and not st.value.elts and C._before(st, b.record_loop)]
            others = [x for x in own_nodes(f.node) if isinstance(x, ast.Name) and x.id in lists[:2] and isinstance(x.ctx, ast.Store)]
            ok_alloc = len(inits) == 2 and len(others) == 2 and C._before(b.record_loop, lists[2])
            alloc = [lists[2]]
        else:
            ok_alloc = len(alloc) == 1 and isinstance(alloc[0].value, ast.Call) and alloc[0].value.args and isinstance(alloc[0].value.args[0], ast.Tuple) \
                and equal(T.tr(alloc[0].value.args[0].elts[0]), 2 * CNT_) and C._before(alloc[0], b.record_loop)
        if ok_alloc:
            ck.ok(P + "R1", q, norm_key(alloc[0]), detail="2*count rows per group, allocated per group")
        else:
            ck.violation(P + "R1", q, "raw spectra allocation", "the per-group array does not have 2*count rows allocated for every group", loc=f.loc(b.group_loop))
        # the ratio and where it is stored
        S = sm_stmt.targets[0].id
        blk = [st for st in b.group_loop.body if isinstance(st, ast.Assign) and len(st.targets) == 1 and isinstance(st.targets[0], ast.Subscript)
               and isinstance(st.targets[0].value, ast.Name) and st.targets[0].value.id == out_name]
        if len(blk) != 1 or not C._before(sm_stmt, blk[0]):
            raise AnalysisError(f"{q}: expected one group-level store into `{out_name}` after the smoothing call, found {len(blk)}")
        TT = Translator(env={**C.env_at(blk[0])})
        forward_substitute([st for st in b.group_loop.body if isinstance(st, ast.Assign) and C._before(sm_stmt, st) and C._before(st, blk[0])
                            and isinstance(st.targets[0], ast.Name)], TT)
        ratio = TT.tr(blk[0].value)
        Ssym = TT.sym(S)
        gi, sl, NONE = sp.Function("getitem"), sp.Function("slice"), sp.Symbol("None")
        want_ratio = gi(Ssym, sl(NONE, CNT_, NONE)) / gi(Ssym, sl(CNT_, NONE, NONE))
        if equal(ratio, want_ratio):
            ck.ok(P + "R1", q, f"group ratio = {S}[:count] / {S}[count:]", detail="row g of the ratio pairs rows g and count+g")
        else:
            ck.violation(P + "R1", q, "group ratio", f"the group's curves are {ratio}; expected {want_ratio} (row g over row count+g)", loc=f.loc(blk[0]))
        tslice = blk[0].targets[0].slice
        if isinstance(tslice, ast.Slice) and tslice.step is None and tslice.lower is not None and tslice.upper is not None:
            a, bb = idx_value(tslice.lower, blk[0]), idx_value(tslice.upper, blk[0])
            if a == sp.expand(K_) and bb == sp.expand(K_ + CNT_):
                placement = "block"
                ck.ok(P + "R1", q, norm_key(blk[0], 110), detail="group rows [K, K+count) with K the number of rows written by earlier groups")
            else:
                ck.violation(P + "R1", q, "group block", f"the group's rows are written to [{a}, {bb}); expected [K, K+count) with K the rows of earlier groups",
                             loc=f.loc(blk[0]))
                placement = "block?"
        elif isinstance(tslice, ast.Name) and b.form == "B" and tslice.id == b.org_list:
            placement = "scatter"
            ck.ok(P + "R1", q, norm_key(blk[0], 110), detail="row g of the group goes to the original position of the group's g-th record")
        else:
            raise AnalysisError(f"{q}: placement `{norm_key(blk[0], 80)}` of the group's rows not recognised")
    else:
        if len(stores["out"]) == 1 and idx_value(stores["out"][0].targets[0].slice, stores["out"][0]) == sp.expand(K_ + k_):
            placement = "block"
            ck.ok(P + "R1", q, norm_key(stores["out"][0], 90), detail="row K + k")
        elif len(stores["out"]) == 1 and idx_value(stores["out"][0].targets[0].slice, stores["out"][0]) == O_ and not stores["order"]:
            # the record's curve is written straight to the record's original position: nothing to put back in order
            placement = "scatter"
            ck.ok(P + "R1", q, norm_key(stores["out"][0], 90), detail="row = original index of the record")
        else:
            got = [str(idx_value(st.targets[0].slice, st)) for st in stores["out"]]
            ck.violation(P + "R1", q, "result row", f"the k-th record of a group writes result row(s) {got}; expected K + k", loc=f.loc(b.record_loop))
            placement = "block?"
    # ------------------------------------------------------------------ R1 back to the input order
    if placement in ("block", "block?"):
        ost = stores["order"]
        if len(ost) == 1 and idx_value(ost[0].targets[0].slice, ost[0]) == O_ and idx_value(ost[0].value, ost[0]) == sp.expand(K_ + k_):
            ck.ok(P + "R1", q, norm_key(ost[0]), detail="original index -> row K + k")
        else:
            got = [(str(idx_value(st.targets[0].slice, st)), str(idx_value(st.value, st))) for st in ost]
            ck.violation(P + "R1", q, "reorder table", f"the reorder table is written as {got} (index, value); expected (original index, K + k)", loc=f.loc(b.record_loop))
        good = len(gathers) == 1 and parent_of(gathers[0]) is f.node and C._before(b.group_loop, gathers[0]) \
            and len(gathers[0].targets) == 1 and isinstance(gathers[0].targets[0], ast.Name)
        if good:
            rd = reaching(f)
            tgt = gathers[0].targets[0].id
            good = tgt == out_name and rd.def_stmts(out_name, b.ctor) == [gathers[0]]
        if good:
            ck.ok(P + "R1", q, norm_key(gathers[0]), detail="rows gathered back to input order exactly once; the constructor receives the gathered array")
        else:
            ck.violation(P + "R1", q, "gather", f"the rows are not gathered by the reorder table exactly once before the result is built ({len(gathers)} gather statement(s))",
                         loc=f.loc())
        tbl = [st for st in own_nodes(f.node) if isinstance(st, ast.Assign) and any(isinstance(t, ast.Name) and t.id == order_name for t in st.targets)]
        R0 = Resolver(prog, f)
        ok_tbl = len(tbl) == 1 and isinstance(tbl[0].value, ast.Call) and tbl[0].value.args and kwarg(tbl[0].value, "dtype") is not None \
            and unparse(kwarg(tbl[0].value, "dtype")) in ("int", "np.int64", "np.intp") \
            and canon(R0.value(tbl[0].value.args[0], tbl[0])) == canon(R0.value(ast.parse("len(records)", mode="eval").body, tbl[0]))
        if ok_tbl:
            ck.ok(P + "R1", q, norm_key(tbl[0]), nontrivial=False)
        elif order_name is not None:
            ck.violation(P + "R1", q, "reorder table", "the reorder table is not an integer array with one entry per record", loc=f.loc())
    elif placement == "scatter":
        rd = reaching(f)
        defs = rd.def_stmts(out_name, b.ctor)
        if gathers or len(defs) != 1:
            ck.violation(P + "R1", q, "gather", "rows already stored at their original positions are permuted again before the result is built", loc=f.loc())
        else:
            ck.ok(P + "R1", q, "rows stored at their original positions; no further permutation", nontrivial=False)
    # ------------------------------------------------------------------ R5
    carried = loop_carried(f, b.record_loop, ignore=C.names | {raw_name, out_name, order_name})
    if not carried:
        ck.ok(P + "R5", q, norm_key(b.record_loop), detail="no value is carried from one record to the next")
    for (nm, use, d) in carried:
        ck.violation(P + "R5", q, f"{nm} <- {norm_key(d, 70)}",
                     f"`{nm}` read at line {use.lineno} may hold a value computed for a previous record: a curve would depend on the other recordings",
                     loc=f.loc(use))
    # ------------------------------------------------------------------ R4 / R6 preamble
    R = Resolver(prog, f)
    prep = [st for st in f.node.body if isinstance(st, ast.Assign) and calls_in(st.value, "prepare_records_with_inconsistent_dt") and C._before(st, b.group_loop)]
    good = len(prep) == 1 and isinstance(prep[0].targets[0], ast.Tuple) and [unparse(e) for e in prep[0].targets[0].elts] == ["records", "dt_with_count"] \
        and isinstance(prep[0].value, ast.Call) and [unparse(a) for a in prep[0].value.args] == ["records", "settings"]
    if not good:
        ck.violation(P + "R6", q, "time-step policy", "records, dt_with_count = prepare_records_with_inconsistent_dt(records, settings) not found before the loops", loc=f.loc())
        return
    alloc = [st for st in f.node.body if isinstance(st, ast.Assign) and any(isinstance(t, ast.Name) and t.id == out_name for t in st.targets) and C._before(st, b.group_loop)]
    fcs_want = canon(R.value(ast.parse("np.array(settings.smoothing['center_frequencies_in_hz'])", mode="eval").body, b.ctor))
    ok_alloc = False
    if len(alloc) == 1 and C._before(prep[0], alloc[0]) and isinstance(alloc[0].value, ast.Call) and call_name(alloc[0].value) in ("empty", "zeros") \
            and alloc[0].value.args and isinstance(alloc[0].value.args[0], ast.Tuple) and len(alloc[0].value.args[0].elts) == 2:
        r0, r1 = alloc[0].value.args[0].elts
        v0 = canon(R.value(r0, alloc[0]))
        v1 = canon(R.value(r1, alloc[0]))
        want0 = canon(R.value(ast.parse("len(records)", mode="eval").body, alloc[0]))
        ok_alloc = v0 == want0 and v1 == sp.Function("len")(fcs_want)
    if ok_alloc:
        ck.ok(P + "R6", q, norm_key(alloc[0]), detail="rows = records retained by the policy, columns = centre frequencies")
    else:
        ck.violation(P + "R6", q, "result allocation", "the result array is not allocated as (len(records) after the time-step policy, len(fcs))", loc=f.loc())
    if b.ctor is not None and b.ctor.args and canon(R.value(b.ctor.args[0], b.ctor)) == fcs_want:
        ck.ok(P + "R6", q, "the result's frequency vector is the configured centre frequencies", detail=str(fcs_want))
    else:
        ck.violation(P + "R6", q, "centre frequencies", "the result's frequency vector is not the configured centre frequencies", loc=f.loc())
    nyq = [st for st in f.node.body if isinstance(st, ast.Expr) and calls_in(st, "check_nyquist_frequency") and C._before(st, b.group_loop)]
    if len(nyq) == 1 and C._before(prep[0], nyq[0]):
        c = calls_in(nyq[0], "check_nyquist_frequency")[0]
        g = prog.func("processing.check_nyquist_frequency")
        from ..astutil import bind_call
        bound = bind_call(c, g.params)
        a0 = canon(R.value(bound[g.params[0]], nyq[0])) if g.params[0] in bound else None
        a1 = canon(R.value(bound[g.params[1]], nyq[0])) if g.params[1] in bound else None
        D = canon(R.value(ast.parse("dt_with_count", mode="eval").body, nyq[0]))
        wants = [sp.Function("max")(sp.Function("keys")(D)), sp.Function("max")(D)]
        if a0 in wants and a1 == fcs_want:
            ck.ok(P + "R4", q, norm_key(c), detail="guard on the largest retained time step, before any spectrum is computed")
        else:
            ck.violation(P + "R4", q, norm_key(c), f"the Nyquist guard is called with ({a0}, {a1}); expected (largest retained time step, fcs)", loc=f.loc(c))
    else:
        ck.violation(P + "R4", q, "Nyquist guard", "check_nyquist_frequency is not called once after the time-step policy and before the loops", loc=f.loc())


def _r2(ck: Checker, prog: Program):
    f = prog.func("processing.prepare_records_with_inconsistent_dt")
    fq = f.qualname
    # counting loop: one increment of dt_with_count[<record>.ns.dt_in_seconds] per record (three idioms)
    loops = [st for st in f.node.body if isinstance(st, ast.For)]
    good = False
    # the tally: the local dict that is subscripted in the counting loop (whatever it is called)
    RECS = f.params[0]
    CNT = "dt_with_count"
    if loops:
        subs = [x.value.id for x in ast.walk(loops[0]) if isinstance(x, ast.Subscript) and isinstance(x.value, ast.Name)]
        dicts = [st.targets[0].id for st in f.node.body if isinstance(st, ast.Assign) and len(st.targets) == 1 and isinstance(st.targets[0], ast.Name)
                 and ((isinstance(st.value, ast.Call) and call_name(st.value) == "dict" and not st.value.args and not st.value.keywords)
                      or (isinstance(st.value, ast.Dict) and not st.value.keys))]
        cand = [d for d in dicts if d in subs]
        if len(cand) == 1:
            CNT = cand[0]
    if loops and unparse(loops[0].iter) == RECS and isinstance(loops[0].target, ast.Name) \
            and not any(isinstance(x, (ast.Break, ast.Continue, ast.Return)) for x in ast.walk(loops[0])):
        lp = loops[0]
        rec = lp.target.id
        keytxt = f"{rec}.ns.dt_in_seconds"
        alias = {unparse(st.targets[0]) for st in lp.body if isinstance(st, ast.Assign) and unparse(st.value) == keytxt and isinstance(st.targets[0], ast.Name)}
        keys = alias | {keytxt}
        rest = [st for st in lp.body if not (isinstance(st, ast.Assign) and unparse(st.value) == keytxt and isinstance(st.targets[0], ast.Name))]

        def is_inc(x, k):
            return _is_aug(x, f"{CNT}[{k}]")

        def is_init(x, k):
            return isinstance(x, ast.Assign) and unparse(x.targets[0]) == f"{CNT}[{k}]" and unparse(x.value) == "1"
        if len(rest) == 1:
            st = rest[0]
            for k in keys:
                if isinstance(st, ast.Try) and len(st.body) == 1 and is_inc(st.body[0], k) and len(st.handlers) == 1 and unparse(st.handlers[0].type) == "KeyError" \
                        and len(st.handlers[0].body) == 1 and is_init(st.handlers[0].body[0], k) and not st.orelse and not st.finalbody:
                    good = True
                if isinstance(st, ast.Assign) and unparse(st.targets[0]) == f"{CNT}[{k}]" and unparse(st.value) in (f"{CNT}.get({k}, 0) + 1", f"1 + {CNT}.get({k}, 0)"):
                    good = True
                if isinstance(st, ast.If) and unparse(st.test) in (f"{k} in {CNT}", f"{k} in {CNT}.keys()") and len(st.body) == 1 and is_inc(st.body[0], k) \
                        and len(st.orelse) == 1 and is_init(st.orelse[0], k):
                    good = True
                if isinstance(st, ast.If) and unparse(st.test) in (f"{k} not in {CNT}", f"{k} not in {CNT}.keys()") and len(st.body) == 1 and is_init(st.body[0], k) \
                        and len(st.orelse) == 1 and is_inc(st.orelse[0], k):
                    good = True
    if good:
        ck.ok(P + "R2", fq, "dt_with_count[dt] counts the records per time step (key record.ns.dt_in_seconds)")
        ck.ok(P + "R3", fq, "group key record.ns.dt_in_seconds", nontrivial=False)
    else:
        ck.violation(P + "R2", fq, "counting loop", "records are not counted per `record.ns.dt_in_seconds` (one increment per record)", loc=f.loc())
    # policies
    branches = {}
    from ..resolve import canon as _canon
    RP = Resolver(prog, f, inline=False)
    subject = _canon(RP.expect("settings.handle_dissimilar_time_steps_by"))
    for top in [st for st in f.node.body if isinstance(st, ast.If)]:
        node = top          # an if / elif ladder, or a sequence of `if policy == ...: ...; return`
        while isinstance(node, ast.If):
            t = node.test
            if isinstance(t, ast.Compare) and len(t.ops) == 1 and isinstance(t.ops[0], ast.Eq) and isinstance(t.comparators[0], ast.Constant) \
                    and isinstance(t.comparators[0].value, str):
                try:
                    subj = _canon(RP.value(t.left, node))
                except AnalysisError:
                    subj = None
                if subj == subject:
                    branches[t.comparators[0].value] = node
            node = node.orelse[0] if len(node.orelse) == 1 and isinstance(node.orelse[0], ast.If) else None
    want = {"frequency_domain_resampling", "keeping_smallest_time_step", "keeping_majority_time_step"}
    if set(branches) != want:
        ck.violation(P + "R2", fq, "policies", f"policies handled: {sorted(branches)}; expected {sorted(want)}", loc=f.loc())
        return
    r0 = [x for x in branches["frequency_domain_resampling"].body if isinstance(x, ast.Return)]
    if len(r0) == 1 and unparse(r0[0].value) == f"({RECS}, {CNT})":
        ck.ok(P + "R2", fq, "frequency_domain_resampling keeps every record", nontrivial=False)
    else:
        ck.violation(P + "R2", fq, "frequency_domain_resampling", "the resampling policy does not return all records with their counts", loc=f.loc())
    R = Resolver(prog, f, inline=False, keep={CNT})
    for pol in ("keeping_smallest_time_step", "keeping_majority_time_step"):
        br = branches[pol]
        body = br.body
        rets = [x for x in body if isinstance(x, ast.Return)]
        if len(rets) != 1 or not isinstance(rets[0].value, ast.Tuple) or len(rets[0].value.elts) != 2 \
                or not isinstance(rets[0].value.elts[0], ast.Name) or not isinstance(rets[0].value.elts[1], ast.Dict) or len(rets[0].value.elts[1].keys) != 1:
            raise AnalysisError(f"{fq}: {pol}: `return <list>, {{<dt>: <count>}}` not found")
        ret = rets[0]
        lst = ret.value.elts[0].id
        dkey, dval = ret.value.elts[1].keys[0], ret.value.elts[1].values[0]
        # ---- which records are retained
        sel = _selection(f, body, lst, ret)
        if sel is None:
            raise AnalysisError(f"{fq}: {pol}: construction of the retained list `{lst}` not recognised")
        rec, key, chosen, counter, problems = sel
        detail = f"retains records with `{unparse(key)} == {unparse(chosen)}` in input order"
        okk = not problems and unparse(key) == f"{rec}.ns.dt_in_seconds" and unparse(chosen) == unparse(dkey)
        if unparse(key) != f"{rec}.ns.dt_in_seconds":
            problems.append(f"records are selected by `{unparse(key)}`, the groups are built from `.ns.dt_in_seconds`")
        if unparse(chosen) != unparse(dkey):
            problems.append(f"the returned time step `{unparse(dkey)}` is not the one the records were selected by (`{unparse(chosen)}`)")
        # ---- the count that is returned
        nval = unparse(dval)
        count_ok = nval == f"len({lst})" or nval == f"{CNT}[{unparse(chosen)}]" or (counter is not None and nval == counter)
        if not count_ok and isinstance(dval, ast.Name):
            ndefs = [st for st in body if isinstance(st, ast.Assign) and len(st.targets) == 1 and unparse(st.targets[0]) == dval.id]
            count_ok = len(ndefs) == 1 and unparse(ndefs[0].value) in (f"len({lst})", f"{CNT}[{unparse(chosen)}]")
        scan = _majority_scan(body) if pol == "keeping_majority_time_step" else None
        if scan is not None and nval == scan[1] and unparse(chosen) == scan[0]:
            count_ok = True
        if not count_ok:
            problems.append(f"the count returned for the retained time step is `{nval}`")
        if okk and count_ok and not problems:
            ck.ok(P + "R2", fq, f"{pol}: {detail}; count `{nval}`", detail="records of the selected step kept in input order together with their number")
        else:
            ck.violation(P + "R2", fq, pol, f"{pol}: retained records/count bookkeeping broken ({'; '.join(problems)})", loc=f.loc(br))
        # ---- the selected time step
        if pol == "keeping_smallest_time_step":
            D = sp.Symbol(CNT, real=True)
            try:
                v = canon(R.value(chosen, ret))
            except AnalysisError:
                v = None
            if v in (sp.Function("min")(sp.Function("keys")(D)), sp.Function("min")(D)):
                ck.ok(P + "R2", fq, f"{unparse(chosen)} = {v}", detail="smallest time step")
            else:
                ck.violation(P + "R2", fq, "smallest time step", f"the retained time step is `{v}`, not the smallest one", loc=f.loc(br))
        else:
            good = scan is not None and scan[0] == unparse(chosen)
            if not good:
                try:
                    v = canon(R.value(chosen, ret))
                except AnalysisError:
                    v = None
                txt = str(v)
                good = txt in (f"max({CNT}, attr_get({CNT}))", f"max({CNT}, {CNT}.get)")
            if good:
                ck.ok(P + "R2", fq, "majority: a time step with the largest count", detail="a most frequent time step")
            else:
                ck.violation(P + "R2", fq, "majority time step", "the retained time step is not one with the largest count", loc=f.loc(br))


def _selection(f, body, lst, ret):
    """How the retained list is built: (record var, key expr, chosen expr, counter name or None, problems)."""
    # (a) comprehension
    def single_def(name):
        ds = [x for x in body if isinstance(x, ast.Assign) and len(x.targets) == 1 and isinstance(x.targets[0], ast.Name) and x.targets[0].id == name]
        return ds[0].value if len(ds) == 1 else None
    for st in body:
        if isinstance(st, ast.Assign) and len(st.targets) == 1 and isinstance(st.targets[0], ast.Name) and st.targets[0].id == lst:
            c = st.value
            limit = None
            # list(<generator>) and list(islice(<generator>, total)) - the generator possibly held in a local first
            if isinstance(c, ast.Call) and call_name(c) == "list" and len(c.args) == 1 and not c.keywords:
                c = c.args[0]
                if isinstance(c, ast.Call) and call_name(c) == "islice" and len(c.args) == 2 and not c.keywords:
                    c, limit = c.args
                if isinstance(c, ast.Name) and c.id != lst:
                    c = single_def(c.id)
            if not isinstance(c, (ast.ListComp, ast.GeneratorExp)) or (isinstance(c, ast.GeneratorExp) and c is st.value):
                continue
            if len(c.generators) != 1 or unparse(c.generators[0].iter) != "records" or not isinstance(c.generators[0].target, ast.Name):
                return None
            rec = c.generators[0].target.id
            problems = []
            if unparse(c.elt) != rec:
                problems.append(f"the list holds `{unparse(c.elt)}`, not the records")
            if len(c.generators[0].ifs) != 1 or not isinstance(c.generators[0].ifs[0], ast.Compare) or not isinstance(c.generators[0].ifs[0].ops[0], ast.Eq):
                return None
            t = c.generators[0].ifs[0]
            key, chosen = t.left, t.comparators[0]
            if rec not in unparse(key):
                key, chosen = chosen, key
            if limit is not None:
                scan = _majority_scan(body)
                total = unparse(limit)
                if not (total == f"dt_with_count[{unparse(chosen)}]" or (scan is not None and total == scan[1] and unparse(chosen) == scan[0])):
                    problems.append(f"the selection stops after `{total}` records")
            return rec, key, chosen, None, problems
    # (b) append loop
    lp = [st for st in body if isinstance(st, ast.For) and unparse(st.iter) == "records" and isinstance(st.target, ast.Name)]
    init = [st for st in body if isinstance(st, ast.Assign) and len(st.targets) == 1 and isinstance(st.targets[0], ast.Name) and st.targets[0].id == lst]
    if len(lp) != 1 or len(init) != 1 or unparse(init[0].value) != "[]":
        return None
    lp = lp[0]
    rec = lp.target.id
    sel = [st for st in lp.body if isinstance(st, ast.If)]
    if len(sel) != 1 or len(lp.body) != 1 or not isinstance(sel[0].test, ast.Compare) or not isinstance(sel[0].test.ops[0], ast.Eq) or sel[0].orelse:
        return None
    key, chosen = sel[0].test.left, sel[0].test.comparators[0]
    if rec not in unparse(key):
        key, chosen = chosen, key
    blk = sel[0].body
    problems = []
    app = [x for x in blk if isinstance(x, ast.Expr) and isinstance(x.value, ast.Call) and call_name(x.value) == "append"
           and unparse(x.value.func.value) == lst]
    if len(app) != 1 or unparse(app[0].value.args[0]) != rec:
        problems.append(f"a selected record is appended {len(app)} time(s)")
    incs = [x for x in blk if isinstance(x, ast.AugAssign) and isinstance(x.target, ast.Name) and isinstance(x.op, ast.Add) and unparse(x.value) == "1"]
    counter = incs[0].target.id if len(incs) == 1 else None
    if counter is not None:
        ci = [st for st in body if isinstance(st, ast.Assign) and len(st.targets) == 1 and unparse(st.targets[0]) == counter]
        if len(ci) != 1 or unparse(ci[0].value) != "0":
            problems.append(f"the counter `{counter}` does not start at 0")
    for x in blk:
        if isinstance(x, ast.If):
            # the running number of selected records: an explicit counter, or the length of the list they are appended to
            fine = isinstance(x.test, ast.Compare) and isinstance(x.test.ops[0], ast.Eq) \
                and ((counter is not None and unparse(x.test.left) == counter) or unparse(x.test.left) == f"len({lst})") \
                and all(isinstance(y, ast.Break) for y in x.body) and not x.orelse
            total = unparse(x.test.comparators[0]) if isinstance(x.test, ast.Compare) else "?"
            scan = _majority_scan(body)
            if not fine or not (total == f"dt_with_count[{unparse(chosen)}]" or (scan is not None and total == scan[1] and unparse(chosen) == scan[0])):
                problems.append(f"the selection stops early at `{unparse(x.test)}`")
        elif x not in app and x not in incs:
            if any(isinstance(y, (ast.Break, ast.Continue, ast.Return)) for y in ast.walk(x)):
                problems.append(f"the selection loop exits at `{norm_key(x, 50)}`")
    return rec, key, chosen, counter, problems


def _majority_scan(body):
    """(name of the selected dt, name of its count) of a running-maximum scan over dt_with_count.items()."""
    scan = [st for st in body if isinstance(st, ast.For) and unparse(st.iter) == "dt_with_count.items()" and isinstance(st.target, ast.Tuple) and len(st.target.elts) == 2]
    if len(scan) != 1:
        return None
    pdt, pc = [unparse(e) for e in scan[0].target.elts]
    ifs = [x for x in scan[0].body if isinstance(x, ast.If)]
    if len(ifs) != 1 or len(scan[0].body) != 1 or ifs[0].orelse or not isinstance(ifs[0].test, ast.Compare) or len(ifs[0].test.ops) != 1:
        return None
    t = ifs[0].test
    l, r, op = unparse(t.left), unparse(t.comparators[0]), t.ops[0]
    asg = {unparse(x.value): unparse(x.targets[0]) for x in ifs[0].body if isinstance(x, ast.Assign) and len(x.targets) == 1}
    if set(asg) != {pdt, pc} or len(ifs[0].body) != 2:
        return None
    mdt, mc = asg[pdt], asg[pc]
    if not ((l == pc and r == mc and isinstance(op, (ast.Gt, ast.GtE))) or (l == mc and r == pc and isinstance(op, (ast.Lt, ast.LtE)))):
        return None
    i0 = [st for st in body if isinstance(st, ast.Assign) and len(st.targets) == 1 and unparse(st.targets[0]) == mc]
    if len(i0) != 1 or unparse(i0[0].value) not in ("0", "-1") or i0[0].lineno > scan[0].lineno:
        return None
    return mdt, mc


def _history(ck: Checker, prog: Program):
    """A recording processed a second time (alone, with others, in another order) gives the same curve only if
    processing leaves the caller's recordings untouched (interprocedural effect summaries)."""
    from .common import engine, group_effects, describe_effect, chain_text
    eng = engine(prog)
    for q in ["processing.process"] + ROW_BODIES + ["processing.azimuthal_hvsr_processing", "processing.diffuse_field_hvsr_processing"]:
        f = prog.func(q)
        s = eng.summary(f)
        on_records = [e for e in s.effects if (e.origin[0] == "P" and e.origin[1] == 0) or e.origin[0] == "G"]
        groups = group_effects(prog, on_records)
        if not groups:
            ck.ok(P + "R5", q, f"neither the caller's recordings nor module-level state are modified ({len(s.effects)} effects in the summary)")
        for (func, text), effs in groups.items():
            e = effs[0]
            ck.violation(P + "R5", func, text,
                         f"processing modifies {'module-level state' if e.origin[0] == 'G' else 'a recording of the caller'} ({describe_effect(e)}): the curve of a "
                         f"recording would depend on what has been processed before; entry {q}", loc=f.loc(), path=chain_text(e))


def _group_axis(ck: Checker, prog: Program, q: str):
    """The spectra of a time-step group are smoothed against the frequency axis of that group's time step."""
    b = extract_body(prog, q)
    f = b.func
    C = _Counters(b, q)
    sm = [st for st in b.group_loop.body if isinstance(st, ast.Assign) and isinstance(st.value, ast.Call) and len(st.value.args) == 4
          and C._before(b.record_loop, st)]
    if len(sm) != 1:
        raise AnalysisError(f"{q}: group-level smoothing call not found")
    R = Resolver(prog, f, keep={b.dt_var})
    got = canon(R.value(sm[0].value.args[0], sm[0]))
    want = canon(R.expect(f"np.fft.rfftfreq(settings.fft_settings['n'], {b.dt_var})"))
    if equal(got, want):
        ck.ok(P + "R3", q, f"frequency axis of the group = rfftfreq(n, {b.dt_var})", detail=str(got))
    else:
        ck.violation(P + "R3", q, "frequency axis of the group",
                     f"the group's spectra are smoothed against {got}; expected {want} (the axis of the group's own time step)", loc=f.loc(sm[0]))


def _baseline():
    from ..normalize import load_baseline
    return load_baseline()


def _r4_guard(ck: Checker, prog: Program):
    from ..pathtable import PathTable, literals, same_rel, negate
    f = prog.func("processing.check_nyquist_frequency")
    if len(f.params) < 2:
        raise AnalysisError(f"{f.qualname}: expected (dt, fcs)")
    T = Translator()
    dt, fcs = T.sym(f.params[0]), T.sym(f.params[1])
    leaves = PathTable(prog, f.module).leaves(f.node.body)
    alts = [sp.Gt(m, 1 / (2 * dt), evaluate=False) for m in (sp.Function("max")(fcs), sp.Function("amax")(fcs))]
    raising = [l for l in leaves if l.exit == "raise"]
    passing = [l for l in leaves if l.exit != "raise"]
    ok_r = bool(raising) and all(any(same_rel(x, a) for x in literals(l) for a in alts) for l in raising)
    ok_p = bool(passing) and all(any(same_rel(x, negate(a)) or (isinstance(x, sp.Not) and any(same_rel(x.args[0], a) for a in alts)) for x in literals(l) for a in alts) for l in passing)
    if ok_r and ok_p:
        ck.ok(P + "R4", f.qualname, "raises iff max(fcs) > 1/(2 dt)", detail=f"{len(raising)} raising / {len(passing)} passing path(s)")
    else:
        got = [[str(x) for x in literals(l)] for l in raising][:2]
        ck.violation(P + "R4", f.qualname, "Nyquist test", f"the guard raises when {got}; expected max(fcs) > 1/(2*dt) (the largest requested centre frequency, "
                     f"whatever the order of fcs)", loc=f.loc())
    d = prog.func("processing.diffuse_field_hvsr_processing")
    cs = calls_in(d.node, "check_nyquist_frequency")
    good = False
    if len(cs) == 1:
        from ..astutil import bind_call
        RD = Resolver(prog, d, inline=False)
        bound = bind_call(cs[0], f.params)
        at = enclosing_stmt(cs[0]) if "enclosing_stmt" in globals() else None
        from ..model import enclosing_stmt as _encl
        at = _encl(cs[0])
        try:
            a0 = canon(RD.value(bound[f.params[0]], at)) if f.params[0] in bound else None
            a1 = canon(RD.value(bound[f.params[1]], at)) if f.params[1] in bound else None
            D = canon(RD.value(ast.parse("dt_with_count", mode="eval").body, at))
            FCSV = canon(RD.value(ast.parse("settings.smoothing['center_frequencies_in_hz']", mode="eval").body, at))
            good = a0 in (sp.Function("max")(sp.Function("keys")(D)), sp.Function("max")(D), sp.Function("max")(sp.Function("list")(D))) and a1 == FCSV
        except AnalysisError:
            good = False
    if good:
        ck.ok(P + "R4", d.qualname, norm_key(cs[0]))
    else:
        ck.violation(P + "R4", d.qualname, "Nyquist guard", "diffuse-field processing does not guard the largest retained time step", loc=d.loc())
    # sweep: the guard is only ever applied to time steps that survived the dissimilar-time-step policy - a call in a function
    # that has not applied the policy (before the call) refuses requests because of recordings that would have been discarded
    n_sites = 0
    for g in prog.funcs.values():
        if g.module.name.startswith("test") or g is f:
            continue
        for c in calls_in(g.node, "check_nyquist_frequency"):
            n_sites += 1
            preps = [x for x in calls_in(g.node, "prepare_records_with_inconsistent_dt")]
            before = [x for x in preps if (x.lineno, x.col_offset) < (c.lineno, c.col_offset)]
            if before:
                ck.ok(P + "R4", g.qualname, "guard applied after the time-step policy", nontrivial=False)
            elif g.qualname not in _baseline():
                raise AnalysisError(f"{g.qualname}: a helper outside the pinned vocabulary applies the Nyquist guard; which recordings it sees is not decided")
            else:
                ck.violation(P + "R4", g.qualname, norm_key(c, 90),
                             f"`{norm_key(c, 80)}` tests the Nyquist frequency of recordings before the dissimilar-time-step policy has been applied: under the "
                             f"keeping policies a request the retained recordings resolve is refused because of a recording that would be discarded", loc=g.loc(c))
    ck.floor(P + "R4", n_sites, 4, "call sites of the Nyquist guard")


def _validation(ck: Checker, prog: Program):
    """Results are validated on construction, by decision table: _check_input refuses NaN and negative values (any spelling of
    `any(isnan(value))` / `any(value < 0)`), the constructor stores what _check_input returns, and it refuses an amplitude matrix
    whose number of columns differs from the number of frequencies."""
    from ..pathtable import PathTable, literals
    from .common import pkg_call_hook
    f = prog.func("hvsr_curve.HvsrCurve._check_input")
    fnm = lambda x: getattr(getattr(x, "func", None), "__name__", "")      # noqa: E731
    leaves = PathTable(prog, f.module).leaves(f.node.body)
    refuses_nan = refuses_neg = False
    seen = []
    for l in leaves:
        if l.exit != "raise":
            continue
        for x in literals(l):
            seen.append(str(x))
            atoms = list(sp.preorder_traversal(x))
            under_any = any(fnm(a) in ("any", "attr_any", "sum", "count_nonzero") for a in atoms)
            if under_any and any(fnm(a) == "isnan" for a in atoms):
                refuses_nan = True
            for a in atoms:
                rel = None
                if isinstance(a, (sp.Lt, sp.Gt)):
                    rel = (a.lhs, a.rhs) if isinstance(a, sp.Lt) else (a.rhs, a.lhs)        # (smaller, larger)
                elif fnm(a) == "less" and len(a.args) == 2:
                    rel = (a.args[0], a.args[1])
                elif fnm(a) == "greater" and len(a.args) == 2:
                    rel = (a.args[1], a.args[0])
                if rel is not None and under_any and rel[1] == 0 and not getattr(rel[0], "is_number", False):
                    refuses_neg = True
    if refuses_nan and refuses_neg:
        ck.ok(P + "R6", f.qualname, "rejects NaN and negative values")
    else:
        ck.violation(P + "R6", f.qualname, "validation", f"validation guards found: {sorted(set(seen))[:4]}; expected refusals of any(isnan(value)) and any(value < 0)", loc=f.loc())
    t = prog.func("hvsr_traditional.HvsrTraditional.__init__")
    tleaves = PathTable(prog, t.module, call_hook=pkg_call_hook(prog, t.module, prog.cls("HvsrCurve"), self_name="HvsrCurve"), unroll=True, opaque=("update_peaks_bounded",)).leaves(t.node.body)
    R = lambda n: sp.Symbol(n, real=True)   # noqa: E731
    HC = R("HvsrCurve")
    # the validation routine under any of its names (the method, or the module function the class binds under that name)
    ck_names = ["_check_input"] + sorted({g.name for g in prog.funcs.values() if g.node is f.node and g.name != "_check_input"}
                                         | {g.node.name for g in [f] if g.node.name != "_check_input"})
    want_f, want_a = [], []
    for nm_ in ck_names:
        CK = sp.Function(nm_)
        want_f += [CK(HC, R("frequency"), sp.Symbol("'frequency'")), CK(R("frequency"), sp.Symbol("'frequency'"))]
        want_a += [sp.Function("atleast_2d")(CK(HC, R("amplitude"), sp.Symbol("'amplitude'"))), sp.Function("atleast_2d")(CK(R("amplitude"), sp.Symbol("'amplitude'")))]
    stored_ok = bool(tleaves)
    any_normal = False
    shape_refusal = False
    got = (None, None)
    for l in tleaves:
        last = {}
        for e in l.events:
            if e[0] == "store":
                last[e[1]] = e[2]
        if l.exit == "raise":
            for x in literals(l):
                names = {fnm(a) for a in sp.preorder_traversal(x)} | {str(a) for a in x.free_symbols}
                if isinstance(x, sp.Ne) and any("frequency" in n_ for n_ in names) and any("amplitude" in n_ or "shape" in n_ for n_ in names):
                    shape_refusal = True
            continue
        any_normal = True
        if last.get("self.frequency") not in want_f or last.get("self.amplitude") not in want_a:
            stored_ok = False
            got = (last.get("self.frequency"), last.get("self.amplitude"))
    if stored_ok and any_normal:
        ck.ok(P + "R6", t.qualname, "frequency and amplitude are validated on construction")
    else:
        ck.violation(P + "R6", t.qualname, "validation on construction", f"stored as {[str(x)[:80] for x in got]}", loc=t.loc())
    if shape_refusal:
        ck.ok(P + "R6", t.qualname, "refuses an amplitude matrix whose columns do not match the frequencies", nontrivial=False)
    else:
        ck.violation(P + "R6", t.qualname, "shape check", "no check that the number of columns equals the number of frequencies", loc=t.loc())
