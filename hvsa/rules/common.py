"""Helpers shared by the rule modules (effect queries, finding keys)."""
from __future__ import annotations

from typing import Dict, Iterable, List, Optional, Set, Tuple

from ..effects import AV, ELEM, Effect, Effects, Summary, fmt_origin, State, _Interp
from ..model import AnalysisError, Func, Program, norm_key

def engine(prog: Program) -> Effects:
    """One effect engine per program model (cached on the model object)."""
    e = getattr(prog, "_hvsa_engine", None)
    if e is None:
        e = Effects(prog)
        prog._hvsa_engine = e
    return e


def client_step(prog: Program, eff: Effect, entry: Optional[Func] = None):
    """The step of the witness chain used as the identity of a finding: the last call site that is
    not inside a method of a data class (i.e. the statement in client code that hands the object
    to the mutating method), else the mutating statement itself."""
    chain = eff.chain
    pick = None
    for st in chain:
        f = prog.funcs.get(st.func)
        in_method = f is not None and f.cls is not None
        if not in_method:
            pick = st
    if pick is None:
        pick = chain[0]
    # skip a bare registry dispatch (``return REG[key](records, settings)``): use the next step
    return pick


def describe_effect(eff: Effect) -> str:
    what = {"attr-store": f"rebinds attribute '{eff.fld}' of", "elem-store": "stores into",
            "inplace": "modifies in place", "call-mutator": f"calls mutating method '{eff.fld}' on",
            "del": "deletes from"}.get(eff.kind, eff.kind)
    return f"{what} {fmt_origin(eff.origin)} at {eff.site.loc} ({eff.site.text})"


def group_effects(prog: Program, effs: Iterable[Effect]) -> Dict[Tuple[str, str], List[Effect]]:
    out: Dict[Tuple[str, str], List[Effect]] = {}
    for e in effs:
        st = client_step(prog, e)
        out.setdefault((st.func, st.text), []).append(e)
    return out


def reachable_nonlocal(eng: Effects, s: Summary, v: AV, exclude_fields: Set[str] = frozenset(),
                       max_depth: int = 5) -> List[Tuple[Tuple[str, ...], tuple]]:
    """Non-local origins (parameters, globals) reachable from value ``v`` through the final heap of
    ``s`` by attribute/element steps, skipping ``exclude_fields``.  Returns (path, origin)."""
    out = []
    seen = set()
    work: List[Tuple[Tuple[str, ...], AV]] = [((), v)]
    while work:
        path, av = work.pop()
        if av.items is not None:
            for i, it in enumerate(av.items):
                work.append((path + (f"#{i}",), it))
        for o in av.origins:
            if o[0] in ("P", "G"):
                out.append((path, o))
                continue
            if o[0] != "F" or (o, len(path)) in seen or len(path) >= max_depth:
                continue
            seen.add((o, len(path)))
            for (ko, step), (val, _strong) in s.heap.items():
                if ko == o and step not in exclude_fields:
                    work.append((path + (step,), val))
    return out


def summary_of(prog: Program, qualname: str) -> Summary:
    return engine(prog).summary(prog.func(qualname))


def chain_text(eff: Effect) -> List[str]:
    return [str(s) for s in eff.chain]


def pkg_call_hook(prog: Program, mod, self_cls=None, self_name: str = "self"):
    """Translator call hook: calls of package functions / methods of ``self_cls`` become
    Function(name)(args in parameter order, defaults filled in) - independent of keyword order."""
    import ast as _ast
    import sympy as _sp
    from ..astutil import bind_call

    def hook(call, T):
        f, skip, recv = None, False, None
        if isinstance(call.func, _ast.Name):
            r = prog.resolve_name(mod, call.func.id)
            if r and r[0] == "func":
                f = r[1]
        elif isinstance(call.func, _ast.Attribute) and self_cls is not None:
            base = call.func.value
            m = self_cls.find_method(call.func.attr)
            if m is not None and isinstance(base, _ast.Name) and base.id == self_name:
                f, skip, recv = m, m.kind in ("method", "classmethod"), T.tr(base)
        if f is None:
            return None
        names = f.params[1:] if skip else list(f.params)
        names = names + [k for k in f.kwonly if k not in names]       # keyword-only parameters follow, in declaration order
        bound = bind_call(call, f.params, skip_first=skip)
        defaults = f.defaults()
        args = [recv] if recv is not None else []
        for p in names:
            if p in bound and p in defaults and _ast.dump(bound[p]) == _ast.dump(defaults[p]):
                # an argument spelled out with the default's own literal is the default
                args.append(_sp.Function("default")(T.tr(defaults[p])))
            elif p in bound:
                args.append(T.tr(bound[p]))
            elif p in defaults:
                args.append(_sp.Function("default")(T.tr(defaults[p])))
            else:
                args.append(_sp.Symbol("<missing>"))
        extra = [k for k in bound if k not in names]
        for k in sorted(extra):
            args.append(_sp.Function("kw_" + k)(T.tr(bound[k])))
        return _sp.Function(f.name)(*args)
    return hook


def family(prog, f):
    """``f`` together with the *new* helpers (not part of the pinned vocabulary, and not already analysed at
    their call sites by the normaliser) that it calls, transitively.  A sweep that asks "does this routine
    contain X" has to look there too: a refactoring may have moved X into such a helper."""
    import ast as _ast
    from ..normalize import load_baseline
    base = load_baseline()
    absorbed = getattr(prog, "absorbed", set())
    out, work = [f], [f]
    while work:
        g = work.pop()
        for c in _ast.walk(g.node):
            if not isinstance(c, _ast.Call):
                continue
            h = None
            if isinstance(c.func, _ast.Name):
                r = prog.resolve_name(g.module, c.func.id)
                if r and r[0] == "func":
                    h = r[1]
                elif g.qualname:
                    h = prog.funcs.get(f"{g.qualname}.<locals>.{c.func.id}")
            elif isinstance(c.func, _ast.Attribute) and isinstance(c.func.value, _ast.Name) and c.func.value.id in ("self", "cls") and getattr(g, "cls", None) is not None:
                h = g.cls.find_method(c.func.attr)
            if h is None or h.qualname in base or h.qualname in absorbed or any(h is x for x in out):
                continue
            out.append(h)
            work.append(h)
    return out


def family_nodes(prog, f):
    from ..astutil import own_nodes
    for g in family(prog, f):
        yield from own_nodes(g.node)


def componentwise_calls(prog, method, ts_method: str):
    """The calls `<component>.<ts_method>(...)` a SeismicRecording3C method makes, by value: a list of
    (component attribute, {TimeSeries parameter: value}) in execution order, or None when the method body is not a
    straight sequence of such calls (loops over the component names are unrolled, helpers are inlined)."""
    import ast as _ast
    import sympy as _sp
    from ..astutil import bind_call
    from ..pathtable import PathTable
    ts = prog.cls("TimeSeries").methods[ts_method]
    calls = []

    def hook(call, T):
        if isinstance(call.func, _ast.Attribute) and call.func.attr == ts_method:
            b = bind_call(call, ts.params, skip_first=True)
            vals = {p: T.tr(v) for p, v in b.items()}
            recv = T.tr(call.func.value)
            return _sp.Function("<ts>" + ts_method)(recv, *[vals.get(p, _sp.Function("default")(_sp.Symbol(p))) for p in ts.params[1:]])
        return None
    leaves = PathTable(prog, method.module, call_hook=hook, unroll=True, structured=True).leaves(method.node.body)
    leaves = [l for l in leaves if l.exit != "raise"]
    if len(leaves) > 1 and len(leaves) <= 8:
        # several ways through the method: when one of them makes the calls and another one makes none, that other one skips the
        # operation for some arguments / state (reported by the caller); anything else is not a component-wise method
        def n_calls(l):
            return sum(1 for e in l.events if e[0] == "call" and getattr(getattr(e[2], "func", None), "__name__", "") == "<ts>" + ts_method)
        with_calls = [l for l in leaves if n_calls(l)]
        without = [l for l in leaves if not n_calls(l) and not any(e[0] == "loop" for e in l.events)]
        if len(with_calls) == 1 and len(without) == len(leaves) - 1:
            componentwise_calls.skipping = [str(l.cond()) for l in without]
            leaves = with_calls
    if len(leaves) != 1:
        return None
    for e in leaves[0].events:
        v = e[2]
        if e[0] == "loop":
            import ast as _a
            if any(isinstance(x, _a.Attribute) and x.attr == ts_method for x in _a.walk(e[3])):
                return None        # a loop that was not unrolled hides the calls
        if e[0] == "call" and getattr(getattr(v, "func", None), "__name__", "") == "<ts>" + ts_method:
            recv = v.args[0]
            comp = getattr(recv.func, "__name__", "")[5:] if getattr(getattr(recv, "func", None), "__name__", "").startswith("attr_") and recv.args[0] == _sp.Symbol(method.params[0], real=True) else str(recv)
            calls.append((comp, dict(zip(ts.params[1:], v.args[1:]))))
    return calls


componentwise_calls.skipping = []


def check_componentwise(ck, prog, rule: str, name: str, label: str = None):
    """SeismicRecording3C.<name> applies TimeSeries.<name> to ns, ew and vt, each exactly once, with the caller's arguments."""
    import sympy as _sp
    m = prog.cls("SeismicRecording3C").methods[name]
    componentwise_calls.skipping = []
    calls = componentwise_calls(prog, m, name)
    if calls is None:
        raise AnalysisError(f"{m.qualname}: the component-wise calls of {name}() were not recognised")
    comps = sorted(c for c, _a in calls)
    problems = []
    for cond in componentwise_calls.skipping:
        problems.append(f"a path through {name} returns without touching any component (when {cond[:120]})")
    if comps != ["ew", "ns", "vt"]:
        problems.append(f"{name} is applied to {comps}")
    for c, args in calls:
        for p, v in args.items():
            if p in m.params:
                if v != _sp.Symbol(p, real=True):
                    problems.append(f"{c}.{name} receives {p}={v}, not the caller's `{p}`")
            elif getattr(getattr(v, "func", None), "__name__", "") != "default":
                problems.append(f"{c}.{name} receives {p}={v}")
    if not problems:
        ck.ok(rule, m.qualname, label or f"{name} applied to ns, ew, vt with the caller's arguments")
    else:
        ck.violation(rule, m.qualname, f"component-wise {name}", f"{name} is not applied to all three components with the caller's arguments: " + "; ".join(sorted(set(problems))[:3]), loc=m.loc())


def dispatch_table(prog, qualname: str, subject: str, keys):
    """Which package function a dispatcher hands `(records, settings)` to for each literal value of `settings.<subject>`, by
    value: {key: (callee name, argument terms)} with callee None when the key is refused - whether the dispatcher looks the key
    up in a module-level table of functions or walks an if-ladder (`==`, `in (...)`, `in <TABLE>`)."""
    import sympy as _sp
    from ..pathtable import PathTable, outcomes, specialise, tidy_items
    f = prog.func(qualname)
    leaves = PathTable(prog, f.module, unroll=True, structured=True, inline_depth=0).leaves(f.node.body)
    SUBJ = _sp.Function("attr_" + subject)(_sp.Symbol("settings", real=True))
    fn = lambda x: getattr(getattr(x, "func", None), "__name__", "")      # noqa: E731
    out = {}
    for k in list(keys) + ["<an unknown name>"]:
        world = {SUBJ: _sp.Symbol(f"'{k}'")}
        # a private copy of the settings (copy.deepcopy(settings), ...) has the same method name
        for l_ in leaves:
            terms = [c_ for c_, _t in l_.conds] + ([l_.value] if l_.value is not None else [])
            for t_ in terms:
                for a_ in _sp.preorder_traversal(_sp.sympify(t_)):
                    if fn(a_) == "attr_" + subject and len(a_.args) == 1 and fn(a_.args[0]) in ("deepcopy", "copy") and a_.args[0].args \
                            and a_.args[0].args[-1] == _sp.Symbol("settings", real=True):
                        world[a_] = _sp.Symbol(f"'{k}'")
        rows = outcomes(leaves, world)
        rets = [r for r in rows if r["exit"] == "return" and not r["failed"]]
        if not rets:
            out[k] = (None, ())
            continue
        vals = {tidy_items(specialise(r["value"], world)) for r in rets}
        if len(vals) != 1:
            raise AnalysisError(f"{qualname}: {len(vals)} different results for '{k}'")
        v = next(iter(vals))
        if fn(v) == "call" and getattr(v.args[0], "is_Symbol", False):
            out[k] = (v.args[0].name, tuple(v.args[1:]))
        elif isinstance(v, _sp.Function) and not fn(v).startswith(("getitem", "get")):
            out[k] = (fn(v), tuple(v.args))
        else:
            raise AnalysisError(f"{qualname}: for '{k}' the dispatcher returns {str(v)[:120]}")
    return out


# modules whose code a property's behaviour runs through (for package-wide sweeps that are the same rule for every property)
MODULES_OF = {
    "C01": ("processing", "smoothing", "timeseries"), "C02": ("smoothing",), "C03": ("processing", "smoothing", "hvsr_curve", "hvsr_traditional"),
    "C04": ("processing", "seismic_recording_3c", "data_wrangler"), "C05": ("hvsr_traditional", "statistics", "hvsr_curve"),
    "C06": ("window_rejection", "hvsr_traditional", "hvsr_azimuthal", "statistics"), "C07": ("data_wrangler", "regex", "timeseries"),
    "C08": ("hvsr_curve", "hvsr_traditional", "hvsr_azimuthal", "hvsr_diffuse_field"), "C09": ("processing", "settings"),
    "C10": ("preprocessing", "timeseries", "seismic_recording_3c"), "C11": ("hvsr_azimuthal", "statistics"),
    "C12": ("object_io", "hvsr_traditional", "hvsr_azimuthal", "hvsr_diffuse_field", "hvsr_curve"), "C13": ("window_rejection",),
    "C14": ("hvsr_spatial",), "C15": ("settings", "object_io", "preprocessing", "processing"), "C16": ("sesame",),
    "C17": ("processing", "preprocessing", "instrument_response", "timeseries"), "C18": ("seismic_recording_3c", "timeseries"),
    "C19": ("cli", "processing", "preprocessing", "timeseries", "seismic_recording_3c", "data_wrangler", "object_io"), "C20": ("postprocessing",),
}


def check_identity_comparisons(ck, prog, rule: str, pid: str):
    """`is` / `is not` compares identities.  The package uses it for `None` only; against a string, a number or a name bound to one
    (`x is LOGNORMAL`, `dt is majority_dt`) the outcome depends on whether two equal values happen to be the same object - a
    string read from a file, a float of another recording, a numpy bool are equal but not identical - and against `True` / `False`
    it fails for numpy booleans.  Every identity comparison in the modules the property runs through has `None` on one side."""
    import ast as _ast
    from ..astutil import unparse as _unparse
    from ..model import norm_key as _nk
    n = 0
    for f in prog.funcs.values():
        if f.module.name not in MODULES_OF.get(pid, ()) or f.kind == "lambda":
            continue
        for c in _ast.walk(f.node):
            if not isinstance(c, _ast.Compare):
                continue
            sides = [c.left] + list(c.comparators)
            for i, op in enumerate(c.ops):
                if not isinstance(op, (_ast.Is, _ast.IsNot)):
                    continue
                n += 1
                a, b = sides[i], sides[i + 1]
                if any(isinstance(x, _ast.Constant) and x.value is None for x in (a, b)):
                    continue
                ck.violation(rule, f.qualname, _nk(c, 80), f"`{_unparse(c)[:90]}` compares identities, not values: equal values that are different objects (a string "
                             f"read from a file, a number computed elsewhere, a numpy boolean) take the other branch", loc=f.loc(c))
    ck.ok(rule, f"identity comparisons ({pid})", f"{n} identity comparisons, all against None", nontrivial=False)



NARROW_FLOATS = {"np.float32", "numpy.float32", "np.single", "np.float16", "np.half", "np.complex64", "'float32'", "'f4'", "'f'", "'float16'", "'f2'", "'single'",
                 "'complex64'", "np.csingle", '"float32"', '"f4"', '"f"', '"float16"', '"single"'}


def check_no_narrow_float_buffers(ck, prog, rule: str, modules, why: str):
    """No array of the numerical pipeline is allocated or converted with a reduced-precision floating-point type: values written into such
    a buffer are rounded to about 7 significant digits (and overflow beyond 3e38) before the ratio is formed."""
    import ast as _ast
    from ..astutil import call_name as _cn, kwarg as _kw, unparse as _un
    n = 0
    for f in prog.funcs.values():
        if f.module.name not in modules or f.kind == "lambda":
            continue
        for c in _ast.walk(f.node):
            if not isinstance(c, _ast.Call):
                continue
            dt = _kw(c, "dtype")
            if dt is None and _cn(c) == "astype" and c.args:
                dt = c.args[0]
            if dt is None:
                continue
            n += 1
            if _un(dt) in NARROW_FLOATS:
                ck.violation(rule, f.qualname, f"reduced precision: {_un(dt)}", f"`{norm_key(c, 80)}` holds its values as {_un(dt)}: {why}", loc=f.loc(c))
    ck.ok(rule, "buffer element types", f"{n} explicit element types, none of reduced floating-point precision", nontrivial=False)
