"""C17 - power spectral densities are correctly normalised; diffuse-field HVSR agrees."""
from __future__ import annotations

import ast
from typing import Dict, List

import sympy as sp

from ..astutil import bind_call, call_name, calls_in, own_nodes, unparse, kwarg
from ..cfg import cfg_of
from ..dataflow import reaching
from ..expr import Translator, equal, forward_substitute, degree
from ..model import AnalysisError, Program, norm_key, parent_of
from ..report import Checker
from .common import engine, group_effects, describe_effect, chain_text
from . import c01 as C01

EXPLANATION = (
    "Factor-inventory, role, ordering and formula rules over processing._rpds_single_component / rpsd / "
    "diffuse_field_hvsr_processing, preprocessing.psd_preprocess and instrument_response. Decided: (R1) per window "
    "the accumulated term is Re(conj(F) F) of F = rfft(tapered copy, **fft_settings) (degree 2 in the amplitude), "
    "and after the loop the accumulator is multiplied by exactly 2 / (mean(w^2) * L * fs * K) with w the taper "
    "applied to ones using the same settings expression as the data taper, L the window length, fs the sampling "
    "rate and K the number of windows (Welch 1967); the routine writes neither its inputs nor module state (no "
    "memoised scaling); (R2) the three component PSDs are computed from the same records, component k feeds key "
    "k of the result, and the optional smoothing keeps rows and keys aligned; (R3) diffuse field = "
    "sqrt(smooth(Pns+Pew)/smooth(Pvt)) with the configured operator, bandwidth and centre frequencies; (R4) PSD "
    "preprocessing order per record: orient, filter, (demean then taper when a response or differentiation is "
    "requested), response removal, re-filter, differentiation, split, per-window detrend; the spectral derivative "
    "multiplies by 2 pi f j, response removal multiplies by 1/H with zero-response bins and the DC bin set to 0, "
    "both return a new series of the original length. Not decided: Parseval to machine precision; "
    "scipy.signal.freqs.")

RULES = {
    "C17.R1": "Welch scaling: psd * 2/(mean(w^2) L fs K); term Re(conj(F)F); taper of ones with the data taper's settings; pure",
    "C17.R2": "component k -> key k; same records; smoothing rows aligned with keys",
    "C17.R3": "diffuse field = sqrt(smooth(Pns+Pew)/smooth(Pvt)) with the configured smoothing",
    "C17.R4": "PSD preprocessing order; derivative = 2 pi f j; response removal = 1/H with DC/zero bins zeroed; fresh series of original length",
}
RULES.update({f"C17.R3#{k[4:]}": "(shared with C01) " + v for k, v in C01.RULES.items() if k in ("C01.R3", "C01.R4", "C01.R5", "C01.R6")})


def run(ck: Checker, prog: Program, tier: str):
    ck.guard(_r1, ck, prog)
    from .procmodel import taper_rule
    ck.guard(taper_rule, ck, prog, "C17.R1")
    ck.guard(_r2, ck, prog)
    ck.guard(_r3, ck, prog)
    ck.guard(_r4, ck, prog)
    ck.guard(_transforms, ck, prog)
    # Parseval / normalisation needs the whole window in the transform: zero padding, never truncation
    with ck.borrow(C01, "C17.R1+"):
        ck.guard(C01._r7, ck, prog)
    ck.guard(_settings_delivery, ck, prog)
    # a density is reported at the frequency it was computed for: the container keeps both vectors as given
    from .c15 import check_stored_as_given
    ck.guard(check_stored_as_given, ck, prog, "C17.R2", ["Psd"], ("frequency", "amplitude"), "frequency / density pairs would be mismatched")
    # "with the mean removed", tapered, filtered: the recording-level operations reach all three components on every path
    from .common import check_componentwise
    for name in ("detrend", "window", "butterworth_filter"):
        ck.guard(check_componentwise, ck, prog, "C17.R4", name)
    # the density is divided by the sampling rate: 1/dt exactly (rule of C10)
    from . import c10
    with ck.borrow(c10, "C17.R1+"):
        ck.guard(c10._filter_design, ck, prog)
    with ck.borrow(c10, "C17.R4+"):
        ck.guard(c10._detrend_unconditional, ck, prog)        # "with the mean removed": for every series, not only the ones that vary enough
    # the density accounts for the mean-square of the windows that were given: processing does not alter them first
    from . import c09
    with ck.borrow(c09, "C17.R1+"):
        ck.guard(c09._entry_effects, ck, prog, ("R1",))
    from .common import check_identity_comparisons as _cic
    ck.guard(_cic, ck, prog, "C17.R1", "C17")


def _settings_delivery(ck: Checker, prog: Program):
    """The diffuse-field and PSD settings constructors store what they are given (taper, smoothing, ...): the two spectral
    paths agree only if both honour the same requested settings."""
    from .c15 import delivers
    n = 0
    for cname in ("HvsrDiffuseFieldProcessingSettings", "PsdProcessingSettings"):
        c = prog.cls(cname)
        init = c.methods.get("__init__")
        if init is None:
            continue
        for p_ in init.params[1:]:
            n += 1
            if delivers(prog, c, p_):
                ck.ok("C17.R3", init.qualname, f"constructor argument {p_} is stored")
            else:
                ck.violation("C17.R3", init.qualname, f"constructor argument {p_}",
                             f"`{p_}` handed to {cname}(...) is not stored (the base-class default is used instead): the diffuse-field / PSD paths would not use the requested setting",
                             loc=init.loc())
    ck.floor("C17.R3", n, 6, "constructor arguments of the diffuse-field / PSD settings")


def _r1(ck: Checker, prog: Program):
    """Welch estimate by canonicalisation with an object heap (copies, in-place tapers): psd = 2 sum_k Re(conj(F_k) F_k) /
    (mean(w^2) L fs K), F_k = rfft(taper(copy of window k)), w = the same taper applied to ones of the window length."""
    from .procmodel import RowExec, Body, taper as TAPER, rfft_ as RFFT
    f = prog.func("processing._rpds_single_component")
    q = f.qualname
    loops = [st for st in f.node.body if isinstance(st, ast.For)]
    from .procmodel import COMPONENT_PARAMS, psd_data_param
    data_param = psd_data_param(prog)
    series_name = data_param
    comp_param = next((p_ for p_ in list(f.params) + list(f.kwonly) if p_ in COMPONENT_PARAMS), None)
    if comp_param is not None:
        # the helper receives the records and the name of a component: the series it works on are exactly that component of
        # every record, in order
        ext = [st for st in f.node.body if isinstance(st, ast.Assign) and len(st.targets) == 1 and isinstance(st.targets[0], ast.Name)
               and isinstance(st.value, (ast.ListComp, ast.GeneratorExp))]
        good = None
        for st in ext:
            c = st.value
            if len(c.generators) == 1 and not c.generators[0].ifs and unparse(c.generators[0].iter) == data_param and isinstance(c.generators[0].target, ast.Name) \
                    and isinstance(c.elt, ast.Call) and call_name(c.elt) == "getattr" and len(c.elt.args) == 2 \
                    and unparse(c.elt.args[0]) == c.generators[0].target.id and unparse(c.elt.args[1]) == comp_param:
                good = st
        if good is None:
            ck.violation("C17.R1", q, "component extraction", f"the helper is given the records and `{comp_param}` but does not work on `getattr(record, {comp_param})` of every record", loc=f.loc())
            raise AnalysisError(f"{q}: component extraction not recognised")
        series_name = good.targets[0].id
        ck.ok("C17.R1", q, f"works on getattr(record, {comp_param}) of every record, in order", nontrivial=False)
    if len(loops) != 1 or unparse(loops[0].iter) != series_name or not isinstance(loops[0].target, ast.Name):
        raise AnalysisError(f"{q}: loop over the windows not found")
    lp = loops[0]
    ts = lp.target.id
    A = sp.Symbol("A", positive=True)
    body = Body(f, lp, lp, "<none>", ts, "<dt>", None, None)
    ex = RowExec(prog, body)
    ex.heap[ex.rec_obj]["amplitude"] = A
    acc_names = [st.target.id for st in lp.body if isinstance(st, ast.AugAssign) and isinstance(st.target, ast.Name) and isinstance(st.op, ast.Add)]
    if len(acc_names) != 1:
        raise AnalysisError(f"{q}: expected one accumulator in the loop over the windows, found {acc_names}")
    acc_name = acc_names[0]
    # values named before the loop (number of windows, FFT length, ...)
    for st in f.node.body[:f.node.body.index(lp)]:
        if isinstance(st, ast.Assign) and len(st.targets) == 1 and isinstance(st.targets[0], ast.Name) and st.targets[0].id != acc_name:
            try:
                ex.T.env[st.targets[0].id] = ex.T.tr(st.value)
            except AnalysisError:
                pass
    P = sp.Symbol("P", positive=True)
    ex.T.env[acc_name] = P
    ex.run(lp.body)
    for st in ex.inplace_on_record:
        ck.violation("C17.R1", q, norm_key(st), "the taper is applied to the caller's window instead of a copy", loc=f.loc(st))
    for n in ex.notes:
        ck.violation("C17.R1", q, n[:80], n, loc=f.loc(lp))
    acc = sp.expand(ex.T.env[acc_name] - P)
    F = RFFT(TAPER(A))
    want = sp.Function("real")(sp.conjugate(F) * F)
    if equal(acc, want):
        d = degree(acc, {A: 1}, {"taper": 1, "rfft": 1, "real": 1})
        ck.ok("C17.R1", q, "psd += Re(conj(F) F), F = rfft(taper(copy))", detail=f"degree {d} in the amplitude")
        if d != 2:
            ck.violation("C17.R1", q, "degree of the periodogram", f"the accumulated term has degree {d} in the amplitude, expected 2", loc=f.loc(lp))
    else:
        ck.violation("C17.R1", q, "periodogram term", f"the accumulated term is {acc}; expected {want}", loc=f.loc(lp))
    # scaling chain after the loop
    order = {id(n): i for i, n in enumerate(ast.walk(f.node))}
    idx = f.node.body.index(lp)
    after = f.node.body[idx + 1:]
    P0 = sp.Symbol("P0", positive=True)
    ex.T.env[acc_name] = P0
    n_notes = len(ex.notes)
    ex.run([st for st in after if not isinstance(st, ast.Return)])
    final = ex.T.env.get(acc_name)
    # every copy of the window has the window's length and sampling rate
    L, fs, K = sp.Symbol("L", positive=True), sp.Symbol("fs", positive=True), sp.Function("len")(ex.T.sym(data_param))
    if series_name != data_param and final is not None:
        # one series per record: as many windows as records
        final = final.xreplace({sp.Function("len")(ex.T.sym(series_name)): K})
        for v_ in list(final.free_symbols):
            pass
    if final is not None:
        final = final.replace(lambda e: e.is_Symbol and e.name.startswith("<") and e.name.endswith(".n_samples"), lambda e: L)
        final = final.replace(lambda e: e.is_Symbol and e.name.startswith("<") and e.name.endswith(".fs"), lambda e: fs)
        # a name for the last window of the series (`last = windows[-1]`, bound once): what the loop variable is after the loop
        last_names = [st.targets[0].id for st in own_nodes(f.node) if isinstance(st, ast.Assign) and len(st.targets) == 1 and isinstance(st.targets[0], ast.Name)
                      and isinstance(st.value, ast.Subscript) and isinstance(st.value.value, ast.Name) and st.value.value.id in (series_name, data_param)
                      and unparse(st.value.slice) == "-1"
                      and sum(1 for x in own_nodes(f.node) if isinstance(x, ast.Name) and x.id == st.targets[0].id and isinstance(x.ctx, ast.Store)) == 1]
        for nm_ in last_names:
            final = final.xreplace({sp.Symbol(f"{nm_}.n_samples", real=True): L, sp.Symbol(f"{nm_}.fs", real=True): fs})
    ones = sp.Function("ones_like")
    mean = sp.Function("mean")
    cands = [mean(TAPER(ones(X)) ** 2) for X in (A, TAPER(A))] + [mean(TAPER(sp.Function("ones")(L)) ** 2)]
    ratio = sp.simplify(final / P0) if final is not None else None
    hit = ratio is not None and any(equal(ratio, 2 / (w2 * L * fs * K)) for w2 in cands)
    if hit:
        ck.ok("C17.R1", q, "psd *= 2 / (mean(w^2) * n_samples * fs * len(windows))", detail=str(ratio))
        ck.ok("C17.R1", q, "mean(w^2) of the taper applied to ones with the data taper's settings")
    else:
        uses_taper = ratio is not None and any(getattr(getattr(a, "func", None), "__name__", "") == "taper" for a in sp.preorder_traversal(ratio))
        if ratio is not None and not uses_taper:
            ck.violation("C17.R1", q, "taper power", "the taper's mean-square is not computed from the same taper (same settings expression) applied to ones of the window length, on every call",
                         loc=f.loc())
        ck.violation("C17.R1", q, "Welch scaling",
                     f"the accumulated spectrum is scaled by {ratio}; the one-sided density requires 2/(mean(w^2) * L * fs * K) with w the data taper applied to ones",
                     loc=f.loc())
    for n in ex.notes[n_notes:]:
        ck.violation("C17.R1", q, "taper power", "the taper's mean-square is not computed from the same taper (same settings expression) applied to ones of the window length, on every call: " + n,
                     loc=f.loc())
    init = [st for st in f.node.body[:idx] if isinstance(st, ast.Assign) and unparse(st.targets[0]) == acc_name]
    if len(init) == 1 and call_name(init[0].value) == "zeros":
        ck.ok("C17.R1", q, "accumulator starts at zero", nontrivial=False)
    else:
        ck.violation("C17.R1", q, "accumulator initialisation", "the accumulator is not initialised to zeros before the loop", loc=f.loc())
    rets = [r for r in own_nodes(f.node) if isinstance(r, ast.Return)]
    if len(rets) == 1 and unparse(rets[0].value) == acc_name:
        ck.ok("C17.R1", q, "returns the scaled accumulator", nontrivial=False)
    else:
        ck.violation("C17.R1", q, "return", "does not return the scaled accumulator", loc=f.loc())
    # purity
    s = engine(prog).summary(f)
    effs = [e for e in s.effects if e.origin[0] in ("P", "G")]
    if not effs:
        ck.ok("C17.R1", q, "writes neither its arguments nor module-level state")
    for (func, text), es in group_effects(prog, effs).items():
        ck.violation("C17.R1", func, text, f"the PSD routine has a side effect: {describe_effect(es[0])} (results would depend on earlier calls)",
                     loc=es[0].chain[0].loc, path=chain_text(es[0]))
    for g in prog.funcs.values():
        if g.module.name == "processing" and g.kind == "function":
            extra = [d for d in g.decorators if d not in ()]
            if extra:
                ck.violation("C17.R1", g.qualname, f"decorator {extra[0]}", f"`@{extra[0]}` on a processing function may cache results across settings", loc=g.loc())


def _r2(ck: Checker, prog: Program):
    """rpsd as a decision table (with / without smoothing): key c carries the PSD of component c of every record; through
    the smoothing call the components keep their rows and the frequency axis becomes the centre frequencies."""
    from ..pathtable import PathTable, literals
    f = prog.func("processing.rpsd")
    q = f.qualname
    R = lambda n: sp.Symbol(n, real=True)   # noqa: E731
    RECS, SET = R("records"), R("settings")
    pt = PathTable(prog, f.module, unroll=True, structured=True, opaque=("prepare_fft_settings", "_rpds_single_component"))
    leaves = [l for l in pt.leaves(f.node.body) if l.exit == "return"]
    if not leaves:
        raise AnalysisError(f"{q}: no returning path")
    it0 = sp.Symbol("_it0")
    comp, gen = sp.Function("comp"), sp.Function("gen")
    gi = sp.Function("getitem")

    from .procmodel import psd_source
    PSD_SRC = psd_source(prog)

    def psd_of(c):
        return pt._T({}).tr(ast.parse(PSD_SRC.format(c=c), mode="eval").body)
    comps = ("ns", "ew", "vt")
    no_sm = sp.Eq(sp.Function("attr_smoothing")(SET), sp.Symbol("None"), evaluate=False)
    seen = set()
    for l in leaves:
        from ..pathtable import same_rel, negate
        ls = literals(l)
        smoothing = None
        if any(same_rel(x, no_sm) for x in ls):
            smoothing = False
        elif any(same_rel(x, negate(no_sm)) for x in ls):
            smoothing = True
        if smoothing is None:
            raise AnalysisError(f"{q}: a path does not decide whether smoothing is configured ({[str(x) for x in ls]})")
        seen.add(smoothing)
        v = l.value
        entries = {}
        if getattr(getattr(v, "func", None), "__name__", "") == "dict":
            for a in v.args:
                nm = getattr(a.func, "__name__", "")
                if nm.startswith("kv_"):
                    entries[nm[3:]] = a.args[0]
        label = "with smoothing" if smoothing else "without smoothing"
        if set(entries) != set(comps):
            ck.violation("C17.R2", q, f"result keys ({label})", f"the result holds keys {sorted(entries)}; expected ns, ew, vt", loc=f.loc())
            continue
        bad = []
        frqs = set()
        sm_call = None
        for i, c in enumerate(comps):
            e = entries[c]
            if getattr(getattr(e, "func", None), "__name__", "") != "Psd" or len(e.args) < 2:
                bad.append(f"{c}: {e}")
                continue
            frqs.add(e.args[0])
            val = e.args[1]
            if not smoothing:
                if val != psd_of(c):
                    bad.append(f"key '{c}' carries {val}")
            else:
                if getattr(val, "func", None) == gi and val.args[1] == sp.Integer(i):
                    call = val.args[0]
                    sm_call = call
                    rows = call.args[2] if len(call.args) >= 5 else (call.args[1] if len(call.args) >= 2 else None)
                    # call(<operator>, frq, rows, fcs, bandwidth)
                    if not (isinstance(rows, sp.Tuple) and list(rows) == [psd_of(x) for x in comps]):
                        bad.append(f"the smoothing receives rows {rows}")
                else:
                    bad.append(f"key '{c}' carries {val} (expected row {i} of the smoothed spectra)")
        if len(frqs) != 1:
            bad.append(f"the three results carry different frequency axes {sorted(map(str, frqs))}")
        if not bad:
            ck.ok("C17.R2", q, f"{label}: key k carries component k" + (" (row k in and out of the smoothing)" if smoothing else ""), detail=str(next(iter(frqs)))[:120])
        else:
            ck.violation("C17.R2", q, f"component alignment ({label})", "the result keys ns/ew/vt do not carry the matching component PSDs: " + "; ".join(bad[:3]), loc=f.loc())
    if seen != {True, False}:
        ck.violation("C17.R2", q, "optional smoothing", f"the routine does not distinguish configured from absent smoothing (cases {sorted(seen)})", loc=f.loc())
    old = C01.P
    C01.P = "C17.R3#"
    try:
        C01._smoothing_call(ck, f, f.node.body, "spectra", "records[0].vt.dt_in_seconds", "psd smoothing", prog)
    finally:
        C01.P = old


def _r3(ck: Checker, prog: Program):
    old = C01.P
    C01.P = "C17.R3#"
    try:
        C01._diffuse(ck, prog)
    finally:
        C01.P = old
    f = prog.func("processing.diffuse_field_hvsr_processing")
    g = [st for st in f.node.body if isinstance(st, ast.If) and "len(dt_with_count" in unparse(st.test) and any(isinstance(b, ast.Raise) for b in st.body)]
    if g:
        ck.ok("C17.R3", f.qualname, norm_key(g[0]), detail="mixed time steps are refused (equal-length windows)")
    else:
        ck.violation("C17.R3", f.qualname, "mixed time steps", "diffuse-field processing does not refuse records of different time steps", loc=f.loc())


STEPS = ["orient_sensor_to", "butterworth_filter", "detrend", "window", "_remove_instrument_response", "butterworth_filter#2", "_differentiate", "split", "detrend#2"]


def _r4(ck: Checker, prog: Program):
    """One pass of psd_preprocess's per-record loop as the ordered list of steps taken in each world of the settings
    (orientation target None / given; transfer function None / given; differentiate off / on; window length None / given;
    detrend None / 'none' / given).  The list is compared with the documented order:
    orient?; filter; [demean (constant), taper(*window settings); response removal on ns, ew, vt (stored back) + filter again;
    differentiation on ns, ew, vt (stored back)]; split?; per-window detrend?"""
    from ..pathtable import PathTable, outcomes, specialise
    f = prog.func("preprocessing.psd_preprocess")
    q = f.qualname
    loops = [st for st in f.node.body if isinstance(st, ast.For)]
    if len(loops) != 1:
        raise AnalysisError(f"{q}: per-record loop not found")
    lp = loops[0]
    rec = lp.target.elts[1].id if isinstance(lp.target, ast.Tuple) else (lp.target.id if isinstance(lp.target, ast.Name) else None)
    if rec is None:
        raise AnalysisError(f"{q}: per-record loop target")
    F = sp.Function
    R_ = lambda n: sp.Symbol(n, real=True)   # noqa: E731
    SET, REC, NONE = R_("settings"), R_("<record>"), sp.Symbol("None")
    A = lambda n: F("attr_" + n)(SET)   # noqa: E731
    ORI, ITF, DIFF, WL, DET, CORN, WIN, FFT = (A(n) for n in ("orient_to_degrees_from_north", "instrument_transfer_function", "differentiate", "window_length_in_seconds",
                                                             "detrend", "filter_corner_frequencies_in_hz", "window_type_and_width", "fft_settings"))

    def hook(call, T):
        nm = call_name(call)
        if isinstance(call.func, ast.Name) and nm in ("_remove_instrument_response", "_differentiate"):
            # by role, whatever the order / keyword style of the helper's signature: (series, [transfer function,] fft settings)
            g = prog.func(f"instrument_response.{nm}")
            names = list(g.params) + [k for k in g.kwonly if k not in g.params]
            b = bind_call(call, names)
            role = {}
            for p_ in names[1:]:
                role["fft" if "fft" in p_ else "itf" if ("transfer" in p_ or "response" in p_) else p_] = p_
            order = [names[0]] + ([role["itf"]] if nm == "_remove_instrument_response" and "itf" in role else []) + ([role["fft"]] if "fft" in role else [])
            if len(order) != len(names) or any(p_ not in b for p_ in order) or any(isinstance(a_, ast.Starred) for a_ in call.args):
                raise AnalysisError(f"{q}: the arguments of {nm} could not be matched with its parameters {names}")
            return F(nm)(*[T.tr(b[p_]) for p_ in order])
        if isinstance(call.func, ast.Name) and nm == "setattr":
            return F(nm)(*[T.tr(a_) for a_ in call.args], *[F("kw_" + k.arg)(T.tr(k.value)) for k in call.keywords if k.arg])
        if isinstance(call.func, ast.Attribute) and nm in ("detrend", "window", "butterworth_filter", "orient_sensor_to", "split"):
            return F(nm)(T.tr(call.func.value), *[T.tr(a_) for a_ in call.args], *[F("kw_" + k.arg)(T.tr(k.value)) for k in call.keywords if k.arg])
        return None
    top = [l for l in PathTable(prog, f.module, call_hook=hook, structured=True, unroll=True).leaves(f.node.body) if id(lp) in l.snaps]
    if not top:
        raise AnalysisError(f"{q}: the per-record loop is not reached")
    env = dict(top[0].snaps[id(lp)][0])
    env[rec] = REC
    leaves = [l for l in PathTable(prog, f.module, call_hook=hook, env=env, structured=True, unroll=True).leaves(lp.body) if l.exit != "raise"]
    G = {k: sp.Symbol(f"'<given {n}>'") for k, n in ((ORI, "orientation"), (ITF, "response"), (WL, "window length"), (DET, "detrend type"))}
    interesting = ("orient_sensor_to", "butterworth_filter", "detrend", "window", "_remove_instrument_response", "_differentiate", "setattr", "split")
    problems: Dict[str, List[str]] = {"step order": [], "demean/taper block": [], "_remove_instrument_response": [], "_differentiate": [], "re-filter": []}
    n_worlds = 0
    for ori in (NONE, G[ORI]):
        for itf in (NONE, G[ITF]):
            for diff in (sp.false, sp.true):
                for wl in (NONE, G[WL]):
                    for det in (NONE, sp.Symbol("'none'"), G[DET]):
                        world = {ORI: ori, ITF: itf, WL: wl, DET: det, F("truth")(DIFF): diff, DIFF: diff}
                        rows = [r for r in outcomes(leaves, world) if r["exit"] in ("fall", "continue")]
                        if not rows:
                            raise AnalysisError(f"{q}: no pass of the per-record loop for settings {world}")
                        n_worlds += 1
                        comp = lambda c: F("attr_" + c)(REC)   # noqa: E731
                        want = []
                        if ori != NONE:
                            want.append(F("orient_sensor_to")(REC, ori))
                        want.append(F("butterworth_filter")(REC, CORN))
                        if itf != NONE or diff == sp.true:
                            want.append(F("detrend")(REC, F("kw_type")(sp.Symbol("'constant'"))))
                            want.append(("window", REC))
                        if itf != NONE:
                            for c in ("ns", "ew", "vt"):
                                call_ = F("_remove_instrument_response")(comp(c), itf, FFT)
                                want.append(call_)
                                want.append(F("setattr")(REC, sp.Symbol(f"'{c}'"), call_))
                            want.append(F("butterworth_filter")(REC, CORN))
                        if diff == sp.true:
                            for c in ("ns", "ew", "vt"):
                                call_ = F("_differentiate")(comp(c), FFT)
                                want.append(call_)
                                want.append(F("setattr")(REC, sp.Symbol(f"'{c}'"), call_))
                        if wl == NONE and det not in (NONE, sp.Symbol("'none'")):
                            # no splitting: the record itself is the only window, and it is detrended as one
                            want.append(F("detrend")(REC, F("kw_type")(det)))
                        for r in rows:
                            got = []
                            for e in r["events"]:
                                v = e[2]
                                if e[0] == "call" and getattr(getattr(v, "func", None), "__name__", "") in interesting:
                                    got.append(v)
                                # calls nested in a stored value (new_tseries = f(...)) are evaluated when stored
                            # calls that only appear as arguments of setattr are listed before it
                            seq = []
                            for v in got:
                                if v.func.__name__ == "setattr" and len(v.args) == 3 and getattr(getattr(v.args[2], "func", None), "__name__", "") in ("_remove_instrument_response", "_differentiate") \
                                        and v.args[2] not in seq:
                                    seq.append(v.args[2])
                                seq.append(v)
                            seq = [x for x in seq if x.func.__name__ != "split" and not (x.func.__name__ == "detrend" and x.args[0] != REC)]
                            final_opaque = wl == NONE and det not in (NONE, sp.Symbol("'none'")) and len(seq) == len(want) - 1 and \
                                any(e[0] == "loop" and any(isinstance(x_, ast.Attribute) and x_.attr == "detrend" for x_ in ast.walk(e[3])) for e in r["events"])
                            if final_opaque:
                                want = want[:-1]        # the per-window detrend sits in a loop over a list that is not a display here (checked by C10)
                            ok = len(seq) == len(want)
                            if ok:
                                for g_, w_ in zip(seq, want):
                                    if isinstance(w_, tuple):
                                        # taper of the whole record with the configured window settings (starred or spelled out)
                                        ok = ok and g_.func.__name__ == "window" and g_.args[0] == REC and \
                                            (list(g_.args[1:]) in ([F("splat")(WIN)], [F("getitem")(WIN, sp.Integer(0)), F("getitem")(WIN, sp.Integer(1))]))
                                    else:
                                        ok = ok and g_ == w_
                            if not ok:
                                names_g = [x.func.__name__ for x in seq]
                                names_w = [w_[0] if isinstance(w_, tuple) else w_.func.__name__ for w_ in want]
                                key = "step order"
                                if names_g == names_w:
                                    bad_i = [i for i, (g_, w_) in enumerate(zip(seq, want)) if (isinstance(w_, tuple) and not (g_.func.__name__ == "window" and g_.args[0] == REC)) or (not isinstance(w_, tuple) and g_ != w_)]
                                    nm0 = names_w[bad_i[0]] if bad_i else "window"
                                    key = {"detrend": "demean/taper block", "window": "demean/taper block", "_remove_instrument_response": "_remove_instrument_response",
                                           "_differentiate": "_differentiate", "setattr": "_remove_instrument_response" if itf != NONE else "_differentiate",
                                           "butterworth_filter": "re-filter"}.get(nm0, "step order")
                                problems[key].append(f"with settings (orientation {ori}, response {itf}, differentiate {diff}) the steps are {[str(x)[:70] for x in seq]}; documented: {names_w}")
    texts = {"step order": ("step order: orient < filter < demean < taper < response removal < filter < differentiate < split < detrend", "step order"),
             "demean/taper block": ("demean then taper the whole record when a response or differentiation is requested", "demean/taper block"),
             "_remove_instrument_response": ("_remove_instrument_response applied to ns, ew, vt exactly when a transfer function is configured, and stored back", "_remove_instrument_response"),
             "_differentiate": ("_differentiate applied to ns, ew, vt exactly when differentiation is configured, and stored back", "_differentiate"),
             "re-filter": ("filter repeated after response removal", "re-filter")}
    for k, (oktext, key) in texts.items():
        if not problems[k]:
            ck.ok("C17.R4", q, oktext, detail=f"{n_worlds} settings combinations, {len(leaves)} paths through one pass of the loop")
        else:
            ck.violation("C17.R4", q, key, sorted(set(problems[k]))[0][:2500], loc=f.loc(lp))
    # split / per-window detrend: the wiring table of the HVSR preprocessing (same shape)
    first = f.node.body[0]
    if isinstance(first, ast.Expr) and call_name(first.value) == "prepare_fft_settings":
        ck.ok("C17.R4", q, "fft length prepared first", nontrivial=False)
    else:
        ck.violation("C17.R4", q, "fft length", "the FFT length is not prepared before the records are transformed", loc=f.loc())


def _elementwise_inverse(r):
    """Per-bin value of the array that multiplies the spectrum in _remove_instrument_response, as a table over
    (|h| > 0, bin is the DC bin).  Masked stores are interpreted elementwise: X[m] = v -> X_i = v_i if m_i else X_i.
    Values are kept as functions of the two bin predicates and tabulated on their four combinations."""
    H = sp.Symbol("h_i")
    UNDEF = sp.Symbol("<undefined>")
    vals: Dict[str, object] = {}          # name -> callable(nz, dc) -> sympy value | bool
    hname = hsrc = None

    def const(c):
        return lambda nz, dc, c=c: c

    def ev(e):
        if isinstance(e, ast.Constant):
            if isinstance(e.value, bool):
                return const(e.value)
            return const(sp.nsimplify(e.value))
        if isinstance(e, ast.Call) and call_name(e) == "complex" and all(isinstance(a, ast.Constant) and a.value == 0 for a in e.args):
            return const(sp.Integer(0))
        if isinstance(e, ast.Name) and e.id == hname:
            return const(H)
        if isinstance(e, ast.Name) and e.id in vals:
            return vals[e.id]
        if isinstance(e, ast.Subscript) and isinstance(e.value, ast.Name):
            return ev(e.value)            # x[mask]: the element itself
        if isinstance(e, ast.BinOp) and isinstance(e.op, ast.Div):
            a, b = ev(e.left), ev(e.right)
            return None if a is None or b is None else (lambda nz, dc, a=a, b=b: a(nz, dc) / b(nz, dc))
        if isinstance(e, ast.UnaryOp) and isinstance(e.op, (ast.Invert, ast.Not)):
            a = ev(e.operand)
            return None if a is None else (lambda nz, dc, a=a: not a(nz, dc))
        if isinstance(e, ast.Compare) and len(e.ops) == 1 and isinstance(e.ops[0], ast.Gt) and isinstance(e.left, ast.Call) and call_name(e.left) in ("abs", "absolute") \
                and isinstance(e.left.args[0], ast.Name) and e.left.args[0].id == hname and isinstance(e.comparators[0], ast.Constant) and e.comparators[0].value == 0:
            return lambda nz, dc: nz
        return None
    for st in r.node.body:
        if not (isinstance(st, ast.Assign) and len(st.targets) == 1):
            continue
        t, v = st.targets[0], st.value
        if isinstance(t, ast.Name):
            if isinstance(v, ast.Call) and call_name(v) == "_h":
                hname, hsrc = t.id, unparse(v)
            elif isinstance(v, ast.Call) and call_name(v) in ("empty_like", "empty") and hname:
                vals[t.id] = const(UNDEF)
            elif isinstance(v, ast.Call) and call_name(v) in ("zeros_like", "zeros") and hname:
                vals[t.id] = const(sp.Integer(0))
            elif hname:
                x = ev(v)
                if x is not None:
                    vals[t.id] = x
        elif isinstance(t, ast.Subscript) and isinstance(t.value, ast.Name) and t.value.id in vals:
            x = ev(v)
            if x is None:
                return None
            ix = t.slice
            if isinstance(ix, ast.Constant) and ix.value == 0 and not isinstance(ix.value, bool):
                cond = lambda nz, dc: dc      # noqa: E731
            else:
                cond = ev(ix)
                if cond is None:
                    return None
            cur = vals[t.value.id]
            vals[t.value.id] = lambda nz, dc, cond=cond, x=x, cur=cur: x(nz, dc) if cond(nz, dc) else cur(nz, dc)
    mult = [st for st in r.node.body if isinstance(st, ast.AugAssign) and isinstance(st.op, ast.Mult) and isinstance(st.value, ast.Name) and st.value.id in vals]
    if mult:
        name = mult[0].value.id
    else:
        # spectrum * X written as an expression: X is an array filled by masked stores above
        filled = {st.targets[0].value.id for st in r.node.body if isinstance(st, ast.Assign) and len(st.targets) == 1
                  and isinstance(st.targets[0], ast.Subscript) and isinstance(st.targets[0].value, ast.Name) and st.targets[0].value.id in vals}
        prods = [b for st in r.node.body for b in ast.walk(st) if isinstance(b, ast.BinOp) and isinstance(b.op, ast.Mult)
                 and any(isinstance(o, ast.Name) and o.id in filled for o in (b.left, b.right))]
        names = {o.id for b in prods for o in (b.left, b.right) if isinstance(o, ast.Name) and o.id in filled}
        if len(names) != 1:
            return None
        name = names.pop()
    tab = {}
    for nz in (True, False):
        for z in (True, False):
            v = vals[name](nz, z)
            tab[(nz, z)] = None if (hasattr(v, "has") and v.has(UNDEF)) or isinstance(v, bool) else sp.simplify(v)
    return name, tab, hsrc


def _transforms(ck: Checker, prog: Program):
    from ..pathtable import PathTable, literals, same_rel, negate
    R = lambda n: sp.Symbol(n, real=True)   # noqa: E731
    gi, sl, NONE = sp.Function("getitem"), sp.Function("slice"), sp.Symbol("None")
    TS, FS, TT_ = R("timeseries"), R("fft_settings"), R("transform_type")
    AMP, NSAMP, DT = sp.Function("attr_amplitude")(TS), sp.Function("attr_n_samples")(TS), sp.Function("attr_dt_in_seconds")(TS)
    N = sp.Function("get")(FS, sp.Symbol("'n'"), NSAMP)
    FFT = sp.Function("rfft")(AMP)
    FRQ = sp.Function("rfftfreq")(N, DT)

    def pipeline_ok(v, mult_of):
        """v == TimeSeries(irfft(rfft(amplitude)*X, n)[:n_samples], dt) -> X"""
        if getattr(getattr(v, "func", None), "__name__", "") != "TimeSeries" or len(v.args) < 2 or v.args[1] != DT:
            return None
        d = v.args[0]
        if getattr(d, "func", None) != gi or d.args[1] != sl(NONE, NSAMP, NONE):
            return None
        inv = d.args[0]
        if getattr(getattr(inv, "func", None), "__name__", "") != "irfft" or len(inv.args) != 2 or inv.args[1] != N:
            return None
        x = sp.simplify(inv.args[0] / FFT)
        return None if x.has(FFT) else x

    def zero(v):
        return v == 0 or (getattr(getattr(v, "func", None), "__name__", "") == "complex" and all(a == 0 for a in v.args))
    # ---- derivative / integral
    f = prog.func("instrument_response._domain_transform")
    q = f.qualname
    leaves = PathTable(prog, f.module, structured=True).leaves(f.node.body)
    want = {"derivative": 2 * sp.pi * FRQ * sp.I, "integral": 1 / (2 * sp.pi * FRQ * sp.I)}
    seen = set()
    pipe_ok = True
    from ..pathtable import holds
    pairs = []
    for k in list(want) + ["<other>"]:
        assign = {TT_: sp.Symbol(f"'{k}'")}
        for l in leaves:
            vals = [holds(x, assign) for x in literals(l) if x.has(TT_)]
            if any(v is None for v in vals):
                raise AnalysisError(f"{q}: a condition on the transform type could not be evaluated ({[str(x) for x in literals(l)]})")
            if all(vals):
                pairs.append((k, l))
    for kind, l in pairs:
        if kind == "<other>":
            if l.exit != "raise":
                ck.violation("C17.R4", q, "unknown transform", "an unknown transform type does not raise", loc=f.loc())
            continue
        if l.exit != "return":
            ck.violation("C17.R4", q, f"{kind} transfer function", f"{kind}: no series is returned", loc=f.loc())
            continue
        seen.add(kind)
        x = pipeline_ok(l.value, None)
        if x is None:
            pipe_ok = False
            continue
        dc = [e for e in l.events if e[0] == "store" and id(e[3]) in l.store_at and l.store_at[id(e[3])][1] == 0]
        dc_ok = (kind == "derivative" and not dc) or (kind == "integral" and len(dc) == 1 and zero(dc[0][2]) and sp.simplify(l.store_at[id(dc[0][3])][0] - x) == 0)
        if sp.simplify(x - want[kind]) == 0 and dc_ok:
            ck.ok("C17.R4", q, f"{kind}: transfer = {want[kind]}" + (" with the DC bin set to 0" if kind == "integral" else ""))
        else:
            ck.violation("C17.R4", q, f"{kind} transfer function", f"{kind} multiplies the spectrum by {x} (DC bin handled: {dc_ok}); expected {want[kind]}", loc=f.loc())
    for k in want:
        if k not in seen:
            ck.violation("C17.R4", q, f"{k} transfer function", f"{k} multiplies the spectrum by None; expected {want[k]}", loc=f.loc())
    if pipe_ok:
        ck.ok("C17.R4", q, "rfft -> multiply -> irfft(n) -> first n_samples -> new TimeSeries with the same dt")
    else:
        ck.violation("C17.R4", q, "transform pipeline", "the series is not transformed as rfft(**fft_settings) -> multiply -> irfft(n)[:n_samples] into a new TimeSeries of the same time step", loc=f.loc())
    # ---- response removal: elementwise value of the multiplier over (|h| > 0, bin is DC)
    r = prog.func("instrument_response._remove_instrument_response")
    leaves = [l for l in PathTable(prog, r.module, structured=True).leaves(r.node.body) if l.exit == "return"]
    x = pipeline_ok(leaves[0].value, None) if len(leaves) == 1 else None
    if x is not None:
        ck.ok("C17.R4", r.qualname, "rfft -> multiply -> irfft(n) -> first n_samples -> new TimeSeries with the same dt")
    else:
        ck.violation("C17.R4", r.qualname, "transform pipeline", "the series is not transformed as rfft(**fft_settings) -> multiply -> irfft(n)[:n_samples] into a new TimeSeries of the same time step", loc=r.loc())
    table = _elementwise_inverse(r)
    if table is None:
        raise AnalysisError(f"{r.qualname}: construction of the inverse response not recognised")
    mult_name, tab, hsrc = table
    H = sp.Symbol("h_i")
    want_t = {(True, False): 1 / H, (True, True): sp.Integer(0), (False, False): sp.Integer(0), (False, True): sp.Integer(0)}
    mul = [st for st in r.node.body if isinstance(st, ast.AugAssign) and isinstance(st.op, ast.Mult) and isinstance(st.value, ast.Name) and st.value.id == mult_name]
    # the response is evaluated on the frequencies of the transform that is corrected (by value)
    from ..resolve import Resolver as _Res, canon as _canon
    h_ok = False
    hcalls = [c for c in calls_in(r.node, "_h")]
    if len(hcalls) == 1 and hcalls[0].args and unparse(hcalls[0].func.value) == "instrument_transfer_function" and "instrument_transfer_function" in list(r.params) + list(r.kwonly):
        RR = _Res(prog, r, inline=False)
        got_f = _canon(RR.value(hcalls[0].args[0], hcalls[0]))
        want_f = [_canon(RR.expect(src)) for src in ("np.fft.rfftfreq(fft_settings.get('n', timeseries.n_samples), d=timeseries.dt_in_seconds)",
                                                     "np.fft.rfftfreq(fft_settings.get('n', timeseries.n_samples), timeseries.dt_in_seconds)")]
        h_ok = got_f in want_f
    mul = mul or [b for st in r.node.body for b in ast.walk(st) if isinstance(b, ast.BinOp) and isinstance(b.op, ast.Mult)
                  and any(isinstance(o, ast.Name) and o.id == mult_name for o in (b.left, b.right))]
    if all(sp.simplify(tab[k] - want_t[k]) == 0 if tab[k] is not None else False for k in want_t) and mul and h_ok:
        ck.ok("C17.R4", r.qualname, "spectrum multiplied by 1/H; zero-response bins and the DC bin set to 0")
    else:
        ck.violation("C17.R4", r.qualname, "inverse response",
                     f"the inverse response is not 1/H with zero-response and DC bins zeroed (per bin, (|H|>0, DC) -> value: { {k: str(v) for k, v in tab.items()} }; H = {hsrc})", loc=r.loc())
    h = prog.func("instrument_response.InstrumentTransferFunction._h")
    d = [unparse(st) for st in h.node.body]
    good = any("signal.zpk2tf(self.zeros, self.poles, 1.0)" in x for x in d) and any("signal.freqs(b, a, frequencies * 2 * np.pi)" in x for x in d) \
        and any(x == "h *= self.normalization_factor" for x in d) and any(x == "h *= self.instrument_sensitivity" for x in d)
    if good:
        ck.ok("C17.R4", h.qualname, "H(f) = sensitivity * A0 * zpk response at 2 pi f")
    else:
        ck.violation("C17.R4", h.qualname, "transfer function", "H is not sensitivity * normalisation * zpk(zeros, poles) evaluated at 2 pi f", loc=h.loc())
