"""C17 - power spectral densities are correctly normalised; diffuse-field HVSR agrees."""
from __future__ import annotations

import ast
from typing import Dict, List

import sympy as sp

from ..astutil import call_name, calls_in, own_nodes, unparse, kwarg
from ..cfg import cfg_of
from ..dataflow import reaching
from ..expr import Translator, equal, forward_substitute, degree
from ..model import AnalysisError, Program, norm_key, parent_of
from ..report import Checker
from .common import engine, group_effects, describe_effect, chain_text
from . import c01 as C01

EXPLANATION = (
    "Factor-inventory, role, ordering and formula rules over processing._rpds_single_component / rpsd / "
    "diffuse_field_hvsr_processing, preprocessing.psd_preprocess and instrument_response. Decided: (R1) per window "
    "the accumulated term is Re(conj(F) F) of F = rfft(tapered copy, **fft_settings) (degree 2 in the amplitude), "
    "and after the loop the accumulator is multiplied by exactly 2 / (mean(w^2) * L * fs * K) with w the taper "
    "applied to ones using the same settings expression as the data taper, L the window length, fs the sampling "
    "rate and K the number of windows (Welch 1967); the routine writes neither its inputs nor module state (no "
    "memoised scaling); (R2) the three component PSDs are computed from the same records, component k feeds key "
    "k of the result, and the optional smoothing keeps rows and keys aligned; (R3) diffuse field = "
    "sqrt(smooth(Pns+Pew)/smooth(Pvt)) with the configured operator, bandwidth and centre frequencies; (R4) PSD "
    "preprocessing order per record: orient, filter, (demean then taper when a response or differentiation is "
    "requested), response removal, re-filter, differentiation, split, per-window detrend; the spectral derivative "
    "multiplies by 2 pi f j, response removal multiplies by 1/H with zero-response bins and the DC bin set to 0, "
    "both return a new series of the original length. Not decided: Parseval to machine precision; "
    "scipy.signal.freqs.")

RULES = {
    "C17.R1": "Welch scaling: psd * 2/(mean(w^2) L fs K); term Re(conj(F)F); taper of ones with the data taper's settings; pure",
    "C17.R2": "component k -> key k; same records; smoothing rows aligned with keys",
    "C17.R3": "diffuse field = sqrt(smooth(Pns+Pew)/smooth(Pvt)) with the configured smoothing",
    "C17.R4": "PSD preprocessing order; derivative = 2 pi f j; response removal = 1/H with DC/zero bins zeroed; fresh series of original length",
}
RULES.update({f"C17.R3#{k[4:]}": "(shared with C01) " + v for k, v in C01.RULES.items() if k in ("C01.R3", "C01.R4", "C01.R5", "C01.R6")})


def run(ck: Checker, prog: Program, tier: str):
    ck.guard(_r1, ck, prog)
    from .procmodel import taper_rule
    ck.guard(taper_rule, ck, prog, "C17.R1")
    ck.guard(_r2, ck, prog)
    ck.guard(_r3, ck, prog)
    ck.guard(_r4, ck, prog)
    ck.guard(_transforms, ck, prog)


def _r1(ck: Checker, prog: Program):
    f = prog.func("processing._rpds_single_component")
    q = f.qualname
    loops = [st for st in f.node.body if isinstance(st, ast.For)]
    if len(loops) != 1 or unparse(loops[0].iter) != f.params[0]:
        raise AnalysisError(f"{q}: loop over the windows not found")
    lp = loops[0]
    ts = unparse(lp.target)
    # per-window term
    A = sp.Symbol("A", positive=True)
    taper, rfft_ = sp.Function("taper"), sp.Function("rfft")
    state = {"amp": A, "copied": False}
    T = Translator()

    def hook(call, TT):
        nm = call_name(call)
        if nm == "rfft" and call.args:
            if not any(k.arg is None and unparse(k.value) == "settings.fft_settings" for k in call.keywords):
                ck.violation("C17.R1", q, norm_key(call), "rfft is not called with **settings.fft_settings", loc=f.loc(call))
            return rfft_(TT.tr(call.args[0]))
        if nm == "real" and call.args:
            return sp.Function("Re")(TT.tr(call.args[0]))
        return None
    T.call_hook = hook
    T.symbol_hook = lambda name: state["amp"] if name == f"{ts}.amplitude" else None
    acc = None
    for st in lp.body:
        if isinstance(st, ast.Assign) and unparse(st.targets[0]) == ts and isinstance(st.value, ast.Call) and call_name(st.value) == "from_timeseries" \
                and unparse(st.value.args[0]) == ts:
            state["copied"] = True
        elif isinstance(st, ast.Expr) and isinstance(st.value, ast.Call) and call_name(st.value) == "window" and unparse(st.value.func.value) == ts:
            if not state["copied"]:
                ck.violation("C17.R1", q, norm_key(st), "the taper is applied to the caller's window instead of a copy", loc=f.loc(st))
            if [unparse(a) for a in st.value.args] != ["*settings.window_type_and_width"]:
                ck.violation("C17.R1", q, norm_key(st), "the data taper does not use *settings.window_type_and_width", loc=f.loc(st))
            state["amp"] = taper(state["amp"])
        elif isinstance(st, ast.Assign) and isinstance(st.targets[0], ast.Name):
            T.env[st.targets[0].id] = T.tr(st.value)
        elif isinstance(st, ast.AugAssign) and unparse(st.target) == "psd" and isinstance(st.op, ast.Add):
            acc = T.tr(st.value)
    F = rfft_(taper(A))
    want = sp.Function("Re")(sp.conjugate(F) * F)
    if acc is not None and equal(acc, want):
        d = degree(acc, {A: 1}, {"taper": 1, "rfft": 1, "Re": 1})
        ck.ok("C17.R1", q, "psd += Re(conj(F) F), F = rfft(taper(copy))", detail=f"degree {d} in the amplitude")
        if d != 2:
            ck.violation("C17.R1", q, "degree of the periodogram", f"the accumulated term has degree {d} in the amplitude, expected 2", loc=f.loc(lp))
    else:
        ck.violation("C17.R1", q, "periodogram term", f"the accumulated term is {acc}; expected {want}", loc=f.loc(lp))
    # scaling chain after the loop
    after = [st for st in f.node.body if st.lineno > lp.end_lineno]
    P0 = sp.Symbol("P0", positive=True)
    T2 = Translator(env={"psd": P0})
    forward_substitute([st for st in after if isinstance(st, (ast.Assign, ast.AugAssign))], T2)
    final = T2.env.get("psd")
    wsf = T2.sym("window_scaling_factor") if "window_scaling_factor" not in T2.env else T2.env["window_scaling_factor"]
    L, fs, K = T2.sym(f"{ts}.n_samples"), T2.sym(f"{ts}.fs"), sp.Function("len")(T2.sym(f.params[0]))
    want_final = P0 * 2 / (wsf * L * fs * K)
    if final is not None and equal(final, want_final):
        ck.ok("C17.R1", q, "psd *= 2 / (mean(w^2) * n_samples * fs * len(windows))", detail=str(sp.simplify(final / P0)))
    else:
        ck.violation("C17.R1", q, "Welch scaling",
                     f"the accumulated spectrum is scaled by {sp.simplify(final / P0) if final is not None else None}; "
                     f"the one-sided density requires 2/(mean(w^2) * L * fs * K)", loc=f.loc())
    # window scaling factor = mean(w^2) of the taper applied to ones, same settings expression
    wdef = [st for st in after if isinstance(st, ast.Assign) and unparse(st.targets[0]) == "window"]
    wtap = [st for st in after if isinstance(st, ast.Expr) and isinstance(st.value, ast.Call) and call_name(st.value) == "window" and unparse(st.value.func.value) == "window"]
    wsf_def = [st for st in after if isinstance(st, ast.Assign) and unparse(st.targets[0]) == "window_scaling_factor"]
    good = len(wdef) == 1 and len(wtap) == 1 and len(wsf_def) == 1
    if good:
        c = wdef[0].value
        amp = kwarg(c, "amplitude") or (c.args[0] if c.args else None)
        good = call_name(c) == "TimeSeries" and amp is not None and unparse(amp) == f"np.ones_like({ts}.amplitude)" \
            and [unparse(a) for a in wtap[0].value.args] == ["*settings.window_type_and_width"] \
            and unparse(wsf_def[0].value) in ("np.mean(window.amplitude ** 2)", "np.mean(window.amplitude * window.amplitude)", "np.mean(np.square(window.amplitude))") \
            and wdef[0].lineno < wtap[0].lineno < wsf_def[0].lineno
    if good:
        ck.ok("C17.R1", q, "mean(w^2) of the taper applied to ones with the data taper's settings")
    else:
        ck.violation("C17.R1", q, "taper power", "the taper's mean-square is not computed from the same taper (same settings expression) applied to ones of the window length, on every call",
                     loc=f.loc())
    init = [st for st in f.node.body if isinstance(st, ast.Assign) and unparse(st.targets[0]) == "psd"]
    if len(init) == 1 and call_name(init[0].value) == "zeros" and init[0].lineno < lp.lineno:
        ck.ok("C17.R1", q, "accumulator starts at zero", nontrivial=False)
    else:
        ck.violation("C17.R1", q, "accumulator initialisation", "the accumulator is not initialised to zeros before the loop", loc=f.loc())
    rets = [r for r in own_nodes(f.node) if isinstance(r, ast.Return)]
    if len(rets) == 1 and unparse(rets[0].value) == "psd":
        ck.ok("C17.R1", q, "returns the scaled accumulator", nontrivial=False)
    else:
        ck.violation("C17.R1", q, "return", "does not return the scaled accumulator", loc=f.loc())
    # purity
    s = engine(prog).summary(f)
    effs = [e for e in s.effects if e.origin[0] in ("P", "G")]
    if not effs:
        ck.ok("C17.R1", q, "writes neither its arguments nor module-level state")
    for (func, text), es in group_effects(prog, effs).items():
        ck.violation("C17.R1", func, text, f"the PSD routine has a side effect: {describe_effect(es[0])} (results would depend on earlier calls)",
                     loc=es[0].chain[0].loc, path=chain_text(es[0]))
    for g in prog.funcs.values():
        if g.module.name == "processing" and g.kind == "function":
            extra = [d for d in g.decorators if d not in ()]
            if extra:
                ck.violation("C17.R1", g.qualname, f"decorator {extra[0]}", f"`@{extra[0]}` on a processing function may cache results across settings", loc=g.loc())


def _r2(ck: Checker, prog: Program):
    f = prog.func("processing.rpsd")
    q = f.qualname
    env = {unparse(st.targets[0]): st for st in f.node.body if isinstance(st, ast.Assign) and isinstance(st.targets[0], ast.Name)}
    for c in ("ns", "ew", "vt"):
        st = env.get(f"psd_{c}")
        want = f"_rpds_single_component([record.{c} for record in records], settings)"
        if st is not None and unparse(st.value) == want:
            ck.ok("C17.R2", q, f"psd_{c} <- component {c}")
        else:
            ck.violation("C17.R2", q, f"psd_{c}", f"`psd_{c}` is computed as `{unparse(st.value) if st is not None else None}`; expected {want}", loc=f.loc())
    rets = [r for r in own_nodes(f.node) if isinstance(r, ast.Return)]
    good = False
    if len(rets) == 1 and isinstance(rets[0].value, ast.Call) and call_name(rets[0].value) == "dict":
        kws = {k.arg: unparse(k.value) for k in rets[0].value.keywords}
        good = kws == {c: f"Psd(fft_frq, psd_{c})" for c in ("ns", "ew", "vt")}
    if good:
        ck.ok("C17.R2", q, norm_key(rets[0], 110), detail="key k carries component k")
    else:
        ck.violation("C17.R2", q, "result keys", "the result keys ns/ew/vt do not carry the matching component PSDs", loc=f.loc())
    sm = [st for st in f.node.body if isinstance(st, ast.If) and unparse(st.test) == "settings.smoothing is not None"]
    if len(sm) != 1:
        raise AnalysisError(f"{q}: optional smoothing block not found")
    body = sm[0].body
    rows_in = {unparse(st.targets[0]): unparse(st.value) for st in body if isinstance(st, ast.Assign) and unparse(st.targets[0]).startswith("spectra[")}
    rows_out = {unparse(st.targets[0]): unparse(st.value) for st in body if isinstance(st, ast.Assign) and unparse(st.targets[0]).startswith("psd_")}
    good = rows_in == {"spectra[0]": "psd_ns", "spectra[1]": "psd_ew", "spectra[2]": "psd_vt"} and \
        rows_out == {"psd_ns": "smooth_spectra[0]", "psd_ew": "smooth_spectra[1]", "psd_vt": "smooth_spectra[2]"}
    frq = [st for st in body if isinstance(st, ast.Assign) and unparse(st.targets[0]) == "fft_frq"]
    good = good and len(frq) == 1 and unparse(frq[0].value) == "fcs"
    if good:
        ck.ok("C17.R2", q, "smoothing rows 0,1,2 = ns,ew,vt in and out; frequency axis becomes fcs")
    else:
        ck.violation("C17.R2", q, "smoothing rows", f"rows in {rows_in}, rows out {rows_out}: components are not kept aligned through the smoothing", loc=f.loc(sm[0]))
    old = C01.P
    C01.P = "C17.R3#"
    try:
        C01._smoothing_call(ck, f, f.node.body, "spectra", "records[0].vt.dt_in_seconds", "psd smoothing", prog)
    finally:
        C01.P = old


def _r3(ck: Checker, prog: Program):
    old = C01.P
    C01.P = "C17.R3#"
    try:
        C01._diffuse(ck, prog)
    finally:
        C01.P = old
    f = prog.func("processing.diffuse_field_hvsr_processing")
    g = [st for st in f.node.body if isinstance(st, ast.If) and "len(dt_with_count" in unparse(st.test) and any(isinstance(b, ast.Raise) for b in st.body)]
    if g:
        ck.ok("C17.R3", f.qualname, norm_key(g[0]), detail="mixed time steps are refused (equal-length windows)")
    else:
        ck.violation("C17.R3", f.qualname, "mixed time steps", "diffuse-field processing does not refuse records of different time steps", loc=f.loc())


STEPS = ["orient_sensor_to", "butterworth_filter", "detrend", "window", "_remove_instrument_response", "butterworth_filter#2", "_differentiate", "split", "detrend#2"]


def _r4(ck: Checker, prog: Program):
    f = prog.func("preprocessing.psd_preprocess")
    q = f.qualname
    loops = [st for st in f.node.body if isinstance(st, ast.For)]
    if len(loops) != 1:
        raise AnalysisError(f"{q}: per-record loop not found")
    lp = loops[0]
    rec = lp.target.elts[1].id if isinstance(lp.target, ast.Tuple) else lp.target.id
    seq = []
    for c in sorted(calls_in(lp), key=lambda x: (x.lineno, x.col_offset)):
        nm = call_name(c)
        if nm in ("orient_sensor_to", "butterworth_filter", "detrend", "window", "_remove_instrument_response", "_differentiate", "split"):
            seq.append((nm, c))
    names = [n for n, _ in seq]
    want = ["orient_sensor_to", "butterworth_filter", "detrend", "window", "_remove_instrument_response", "butterworth_filter", "_differentiate", "split", "detrend"]
    if names == want:
        ck.ok("C17.R4", q, "step order: " + " < ".join(want))
    else:
        ck.violation("C17.R4", q, "step order", f"PSD preprocessing steps appear as {names}; documented order is {want}", loc=f.loc(lp))
        return
    cfg = cfg_of(f)
    h = cfg.node(lp)

    def node_of(c):
        st = c
        while not isinstance(st, ast.stmt):
            st = parent_of(st)
        return cfg.node(st)
    for (n1, c1), (n2, c2) in zip(seq, seq[1:]):
        a, b = node_of(c1), node_of(c2)
        if a is None or b is None or a == b:
            continue
        if cfg.exists_path_avoiding(b, a, [h]):
            ck.violation("C17.R4", q, f"{n1} before {n2}", f"`{n2}` can run before `{n1}` within one record", loc=f.loc(c2))
    # details: receivers, guards, arguments
    d = dict()
    for i, (n, c) in enumerate(seq):
        d[f"{n}@{i}"] = c
    det, win = seq[2][1], seq[3][1]
    blk = parent_of(parent_of(det))
    good = isinstance(blk, ast.If) and unparse(blk.test) == "settings.instrument_transfer_function is not None or settings.differentiate" \
        and unparse(det.func.value) == rec and unparse(kwarg(det, "type")) == "'constant'" and unparse(win.func.value) == rec \
        and [unparse(a) for a in win.args] == ["*settings.window_type_and_width"] and parent_of(parent_of(win)) is blk
    if good:
        ck.ok("C17.R4", q, "demean then taper the whole record when a response or differentiation is requested")
    else:
        ck.violation("C17.R4", q, "demean/taper block", "the record is not de-meaned and then tapered (in that order, whole record) exactly when a response removal or differentiation is requested",
                     loc=f.loc(det))
    for idx, nm, guard in ((4, "_remove_instrument_response", "settings.instrument_transfer_function is not None"), (6, "_differentiate", "settings.differentiate")):
        c = seq[idx][1]
        p = parent_of(c)
        g = None
        while p is not None and p is not lp:
            if isinstance(p, ast.If):
                g = p
            p = parent_of(p)
        loop = parent_of(parent_of(c))
        ok = g is not None and unparse(g.test) == guard
        # applied to each component and stored back
        fl = None
        p = parent_of(c)
        while p is not None and p is not lp:
            if isinstance(p, ast.For):
                fl = p
            p = parent_of(p)
        ok = ok and fl is not None and sorted(e.value for e in fl.iter.elts if isinstance(e, ast.Constant)) == ["ew", "ns", "vt"]
        a0 = unparse(c.args[0]) if c.args else ""
        ok = ok and a0 == f"getattr({rec}, {unparse(fl.target)})" if fl is not None else False
        sets = [x for x in calls_in(fl, "setattr")] if fl is not None else []
        ok = ok and len(sets) == 1 and [unparse(a) for a in sets[0].args[:2]] == [rec, unparse(fl.target)]
        ok = ok and unparse(c.args[-1]) == "settings.fft_settings"
        if ok:
            ck.ok("C17.R4", q, f"{nm} applied to ns, ew, vt under `{guard}` and stored back")
        else:
            ck.violation("C17.R4", q, nm, f"`{nm}` is not applied to each of ns/ew/vt (and stored back) exactly under `{guard}`", loc=f.loc(c))
    refil = seq[5][1]
    p = parent_of(refil)
    g = None
    while p is not None and p is not lp:
        if isinstance(p, ast.If):
            g = p
        p = parent_of(p)
    if g is not None and unparse(g.test) == "settings.instrument_transfer_function is not None" and unparse(refil.args[0]) == "settings.filter_corner_frequencies_in_hz":
        ck.ok("C17.R4", q, "filter repeated after response removal", nontrivial=False)
    else:
        ck.violation("C17.R4", q, "re-filter", "the filter is not repeated after the response removal", loc=f.loc(refil))
    first = f.node.body[0]
    if isinstance(first, ast.Expr) and call_name(first.value) == "prepare_fft_settings":
        ck.ok("C17.R4", q, "fft length prepared first", nontrivial=False)
    else:
        ck.violation("C17.R4", q, "fft length", "the FFT length is not prepared before the records are transformed", loc=f.loc())


def _transforms(ck: Checker, prog: Program):
    f = prog.func("instrument_response._domain_transform")
    q = f.qualname
    T = Translator()
    frq = T.sym("frq")
    br = {}
    for st in own_nodes(f.node):
        if isinstance(st, ast.If) and isinstance(st.test, ast.Compare) and unparse(st.test.left) == "transform_type":
            for b in st.body:
                if isinstance(b, ast.Assign) and isinstance(b.targets[0], ast.Name):
                    br[st.test.comparators[0].value] = T.tr(b.value)
    want = {"derivative": 2 * sp.pi * frq * sp.I, "integral": 1 / (2 * sp.pi * frq * sp.I)}
    for k, w in want.items():
        g = br.get(k)
        if g is not None and sp.simplify(g - w) == 0:
            ck.ok("C17.R4", q, f"{k}: transfer = {w}")
        else:
            ck.violation("C17.R4", q, f"{k} transfer function", f"{k} multiplies the spectrum by {g}; expected {w}", loc=f.loc())
    for g_ in (f, prog.func("instrument_response._remove_instrument_response")):
        d = {unparse(st.targets[0]): unparse(st.value) for st in g_.node.body if isinstance(st, ast.Assign)}
        rets = [r for r in own_nodes(g_.node) if isinstance(r, ast.Return)]
        good = d.get("fft") == "np.fft.rfft(timeseries.amplitude, **fft_settings)" and d.get("frq") == "np.fft.rfftfreq(n, d=timeseries.dt_in_seconds)" \
            and d.get("n") == "fft_settings.get('n', timeseries.n_samples)" and d.get("ifft") == "ifft[:timeseries.n_samples]" \
            and len(rets) == 1 and unparse(rets[0].value) == "TimeSeries(ifft, dt_in_seconds=timeseries.dt_in_seconds)"
        first_ifft = [st for st in g_.node.body if isinstance(st, ast.Assign) and unparse(st.targets[0]) == "ifft"]
        good = good and first_ifft and unparse(first_ifft[0].value) == "np.fft.irfft(fft, n)"
        mul = [st for st in g_.node.body if isinstance(st, ast.AugAssign) and unparse(st.target) == "fft" and isinstance(st.op, ast.Mult)]
        good = good and len(mul) == 1
        if good:
            ck.ok("C17.R4", g_.qualname, "rfft -> multiply -> irfft(n) -> first n_samples -> new TimeSeries with the same dt")
        else:
            ck.violation("C17.R4", g_.qualname, "transform pipeline", "the series is not transformed as rfft(**fft_settings) -> multiply -> irfft(n)[:n_samples] into a new TimeSeries of the same time step",
                         loc=g_.loc())
    r = prog.func("instrument_response._remove_instrument_response")
    d = [(unparse(st.targets[0]), unparse(st.value)) for st in r.node.body if isinstance(st, ast.Assign)]
    need = [("h", "instrument_transfer_function._h(frq)"), ("non_zero_hs", "np.abs(h) > 0.0"), ("invh[non_zero_hs]", "1 / h[non_zero_hs]"),
            ("invh[~non_zero_hs]", "complex(0.0, 0.0)"), ("invh[0]", "complex(0.0, 0.0)")]
    missing = [n for n in need if n not in d]
    mul = [st for st in r.node.body if isinstance(st, ast.AugAssign) and unparse(st.target) == "fft"]
    if not missing and mul and unparse(mul[0].value) == "invh":
        ck.ok("C17.R4", r.qualname, "spectrum multiplied by 1/H; zero-response bins and the DC bin set to 0")
    else:
        ck.violation("C17.R4", r.qualname, "inverse response", f"the inverse response is not 1/H with zero-response and DC bins zeroed (missing {missing})", loc=r.loc())
    h = prog.func("instrument_response.InstrumentTransferFunction._h")
    d = [unparse(st) for st in h.node.body]
    good = any("signal.zpk2tf(self.zeros, self.poles, 1.0)" in x for x in d) and any("signal.freqs(b, a, frequencies * 2 * np.pi)" in x for x in d) \
        and any(x == "h *= self.normalization_factor" for x in d) and any(x == "h *= self.instrument_sensitivity" for x in d)
    if good:
        ck.ok("C17.R4", h.qualname, "H(f) = sensitivity * A0 * zpk response at 2 pi f")
    else:
        ck.violation("C17.R4", h.qualname, "transfer function", "H is not sensitivity * normalisation * zpk(zeros, poles) evaluated at 2 pi f", loc=h.loc())
