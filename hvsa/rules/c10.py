"""C10 - preprocessing applies the documented steps in order; windows tile the record."""
from __future__ import annotations

import ast
from typing import Dict, List, Optional, Set

import sympy as sp

from ..astutil import call_name, calls_in, own_nodes, unparse, kwarg, bind_call
from ..cfg import cfg_of
from ..dataflow import reaching, value_sources
from ..expr import Translator, equal, forward_substitute
from ..model import AnalysisError, Program, norm_key, parent_of
from ..report import Checker

EXPLANATION = (
    "CFG ordering, def-use and affine-recurrence rules over preprocessing.hvsr_preprocess, TimeSeries.split and "
    "SeismicRecording3C.split. Decided: (R1) per record the steps are orient (guarded by `is not None`) before "
    "butterworth_filter on the whole record before split before detrend on each element of the split result; no "
    "detrend of the record, no filter of a window; the filter is the forward-backward sosfiltfilt; every "
    "component-wise method visits ns, ew and vt; (R2) the three components are split with the same argument and "
    "zipped in (ns, ew, vt) order into the window constructor with the record's orientation and meta; (R3) tiling "
    "by recurrence: S = k+1 samples per window, start_0 = 0, slice [start, start+S) of self.amplitude itself, "
    "start' = start + S - 1 (so start_j = j*k and consecutive windows share exactly one sample), n_windows = "
    "floor(n/k), fewer than one window raises, windows appended in order with the record's time step; (R4) the "
    "expression that yields k from window_length/dt is the exact quotient of the two given quantities followed "
    "by a rounding/tolerance construct before truncation - never a bare int()/floor() of the float quotient. "
    "R4 is a necessary condition only: whether the tolerance is adequate is not decided. Not decided: filter and "
    "detrend numerics.")

RULES = {
    "C10.R1#R1": "(orientation step, shared with C04) orient_sensor_to is the rotation by (target - current orientation)",
    "C10.R1#R3": "(orientation step, shared with C04) the rotation preserves ns^2 + ew^2",
    "C10.R1": "orient < filter(record) < split < detrend(window) on every path; sosfiltfilt; all three components",
    "C10.R2": "components split identically and zipped in (ns, ew, vt) order with orientation and meta",
    "C10.R3": "tiling recurrence: S=k+1, start'=start+S-1, slice of self.amplitude, n_windows=floor(n/k), refusal",
    "C10.R4": "no bare truncation of the float quotient window_length/dt",
}


def run(ck: Checker, prog: Program, tier: str):
    ck.guard(_filter_design, ck, prog)
    ck.guard(_r1, ck, prog)
    ck.guard(_orientation_step, ck, prog)
    ck.guard(_detrend_unconditional, ck, prog)
    ck.guard(_r2, ck, prog)
    ck.guard(_r3_r4, ck, prog)
    # the corner frequencies / window length / detrend type a run reads are its own settings object's, not state shared through
    # a default argument (rule of C15)
    from . import c15
    # "orienting the sensor": the recorded orientation is the one given and the rotation is by the difference (rules of C04)
    from . import c04
    with ck.borrow(c04, "C10.R1+"):
        ck.guard(c04._r1_r3, ck, prog)
        ck.guard(c04._orientation_carried, ck, prog)
    with ck.borrow(c15, "C10.R1+"):
        ck.guard(c15.check_constructors, ck, prog, [prog.cls(cname) for cname in ("Settings", "PreProcessingSettings", "HvsrPreProcessingSettings", "PsdPreProcessingSettings")])
    # k is computed from the series' own time step: the constructor keeps the time step it is given (a rounded step changes k at 150 / 300 Hz)
    from .c15 import check_stored_as_given
    ck.guard(check_stored_as_given, ck, prog, "C10.R4", ["TimeSeries"], ("dt_in_seconds",), "the number of whole intervals per window is computed from another time step than the record's")
    from .common import check_identity_comparisons as _cic
    ck.guard(_cic, ck, prog, "C10.R1", "C10")


def _detrend_unconditional(ck: Checker, prog: Program, rule: str = "C10.R1"):
    """TimeSeries.detrend removes the trend of every series it is asked to: one path, which stores
    scipy.signal.detrend(self.amplitude, type=type) - no shortcut that depends on the samples (a "flat enough" test is a
    tolerance on the data, and windows that differ by less than it would come back untouched)."""
    from ..pathtable import PathTable
    f = prog.func("timeseries.TimeSeries.detrend")
    q = f.qualname
    leaves = PathTable(prog, f.module, structured=True).leaves([st for st in f.node.body if not (isinstance(st, ast.Expr) and isinstance(st.value, ast.Constant))])
    live = [l for l in leaves if l.exit != "raise"]
    F = sp.Function
    S_, TY = sp.Symbol(f.params[0], real=True), sp.Symbol(f.params[1] if len(f.params) > 1 else "type", real=True)
    AMP = F("attr_amplitude")(S_)
    good = []
    for l in live:
        stores = [e for e in l.events if e[0] == "store" and e[1] == "self.amplitude"]
        v = stores[-1][2] if stores else None
        ok_v = v is not None and getattr(getattr(v, "func", None), "__name__", "") == "detrend" and v.args and v.args[0] == AMP \
            and any(a == F("kw_type")(TY) or a == TY for a in v.args[1:])
        good.append(ok_v)
    data_conds = [str(c) for l in live for c, _t in l.conds if sp.sympify(c).has(AMP)]
    if live and all(good) and not data_conds:
        ck.ok(rule, q, "self.amplitude = detrend(self.amplitude, type=type) on every path", detail=f"{len(live)} path(s)")
    else:
        why = f"a path depends on the samples ({data_conds[0][:80]})" if data_conds else "a path does not store detrend(self.amplitude, type=type)"
        ck.violation(rule, q, "detrend applied", f"TimeSeries.detrend does not detrend every series it is given: {why}", loc=f.loc())


def _orientation_step(ck: Checker, prog: Program):
    """The first documented step: orienting rotates by (target - current orientation of the record)."""
    from . import c04
    old = c04.P
    c04.P = "C10.R1#"
    try:
        c04._r1_r3(ck, prog)
    finally:
        c04.P = old


def _stmt_of(n):
    while n is not None and not isinstance(n, ast.stmt):
        n = parent_of(n)
    return n


def _butterworth(ck: Checker, prog: Program):
    """TimeSeries.butterworth_filter as a decision table over which corners are given: the samples become
    sosfiltfilt(butter(order, corners, type, fs=self.fs, output='sos'), samples) - designed on this call, for this series."""
    from ..pathtable import PathTable, consistent
    from .common import engine
    bf = prog.func("timeseries.TimeSeries.butterworth_filter")
    q = bf.qualname
    if bf.params[:3] != ["self", "fcs_in_hz", "order"]:
        raise AnalysisError(f"{q}: parameters are {bf.params}")
    for nm in ("sosfiltfilt", "butter"):
        r = prog.resolve_name(bf.module, nm)
        if not (r is not None and r[0] == "ext" and r[1].startswith("scipy.signal") and r[1].endswith(nm)):
            ck.violation("C10.R1", q, "zero-phase filter", f"`{nm}` is not scipy.signal.{nm}", loc=bf.loc())
            return
    F = sp.Function

    SIGS = {"butter": ["N", "Wn", "btype", "analog", "output", "fs"], "sosfiltfilt": ["sos", "x", "axis", "padtype", "padlen"]}   # scipy.signal

    # defaults of the scipy.signal signatures: an argument spelled out with its default value is the default
    SCIPY_DEFAULTS = {"butter": {"btype": "'low'", "analog": "False", "output": "'ba'", "fs": "None"},
                      "sosfiltfilt": {"axis": "-1", "padtype": "'odd'", "padlen": "None"}}

    def hook(call, T):
        if isinstance(call.func, ast.Name) and call.func.id in SIGS:
            b = bind_call(call, SIGS[call.func.id])
            dfl = SCIPY_DEFAULTS[call.func.id]
            return F(call.func.id)(*[T.tr(b[p_]) if p_ in b and not (p_ in dfl and unparse(b[p_]) == dfl[p_]) else sp.Symbol("<default>") for p_ in SIGS[call.func.id]])
        return None
    leaves = PathTable(prog, bf.module, call_hook=hook, unroll=True).leaves(bf.node.body)
    R_ = lambda n: sp.Symbol(n, real=True)   # noqa: E731
    FCS, ORD, AMP, FS, NONE = R_("fcs_in_hz"), R_("order"), R_("self.amplitude"), R_("self.fs"), sp.Symbol("None")
    gi = F("getitem")
    LO, HI = gi(FCS, sp.Integer(0)), gi(FCS, sp.Integer(1))
    GIVEN = sp.Symbol("'<given>'")
    problems = []
    n = 0
    for lo_given in (False, True):
        for hi_given in (False, True):
            world = {LO: GIVEN if lo_given else NONE, HI: GIVEN if hi_given else NONE}
            live = [l for l in leaves if consistent(l, world) and l.exit != "raise"]
            if not live:
                raise AnalysisError(f"{q}: no path when the corners are {world}")
            n += 1
            for l in live:
                store = None
                for e in l.events:
                    if e[0] == "store" and e[1] == "self.amplitude":
                        store = e[2]
                if not lo_given and not hi_given:
                    if store is not None:
                        problems.append("samples are filtered although no corner is given")
                    continue
                kind, wn = (("'bandpass'", sp.Tuple(LO, HI)) if lo_given and hi_given else ("'highpass'", LO) if lo_given else ("'lowpass'", HI))
                DF = sp.Symbol("<default>")
                want = F("sosfiltfilt")(F("butter")(ORD, wn, sp.Symbol(kind), DF, sp.Symbol("'sos'"), FS), AMP, DF, DF, DF)
                if store is None:
                    problems.append(f"no filtering for corners {kind}")
                elif store != want:
                    problems.append(f"samples <- {store}; expected {want}")
    if not problems:
        ck.ok("C10.R1", q, "self.amplitude = sosfiltfilt(butter(order, corners, type, fs=self.fs, output='sos'), self.amplitude)",
              detail=f"{n} corner combinations; forward-backward (zero-phase) filtering of the whole series, designed for this series on this call")
    else:
        ck.violation("C10.R1", q, "zero-phase filter", "; ".join(sorted(set(problems))[:2]), loc=bf.loc())
    # no state kept between calls (a remembered design would be applied to a series with another sampling rate)
    eng = engine(prog)
    s = eng.summary(bf)
    glob = [e for e in s.effects if e.origin[0] == "G"]
    if not glob:
        ck.ok("C10.R1", q, "no module-level state is written", nontrivial=False)
    else:
        from .common import describe_effect
        ck.violation("C10.R1", q, "module state", f"the filter step writes module-level state ({describe_effect(glob[0])}): what one series leaves behind is used for the next", loc=bf.loc())


def _wiring_table(ck: Checker, prog: Program, f, fq: str, lp: ast.For, rec: str):
    """One pass of the per-record loop as a decision table over the settings: which steps run, on what, with which values."""
    from ..pathtable import PathTable
    R = lambda n: sp.Symbol(n, real=True)   # noqa: E731
    F = sp.Function
    SET, REC, NONE = R("settings"), R("<record>"), sp.Symbol("None")
    ORI, CORN, WL, DET = (F("attr_" + a)(SET) for a in ("orient_to_degrees_from_north", "filter_corner_frequencies_in_hz", "window_length_in_seconds", "detrend"))
    top = [l for l in PathTable(prog, f.module, structured=True, unroll=True).leaves(f.node.body) if id(lp) in l.snaps]
    if not top:
        raise AnalysisError(f"{fq}: the per-record loop is not reached")
    env = dict(top[0].snaps[id(lp)][0])
    env[rec] = REC
    leaves = [l for l in PathTable(prog, f.module, env=env, structured=True, unroll=True).leaves(lp.body) if l.exit == "fall"]
    if not leaves:
        raise AnalysisError(f"{fq}: no complete pass of the per-record loop")

    from ..pathtable import outcomes, specialise
    bad = {"orientation guard": [], "receivers": [], "settings wiring": [], "detrend": [], "detrend type": []}
    G_ORI, G_WL, G_DET, G_CORN = (sp.Symbol(f"'<given {n_}>'") for n_ in ("orientation", "window length", "detrend type", "corners"))
    worlds = [{ORI: o, WL: w, DET: d, CORN: G_CORN} for o in (NONE, G_ORI) for w in (NONE, G_WL) for d in (NONE, sp.Symbol("'none'"), G_DET)]
    covered = 0
    for world in worlds:
        rows = [r for r in outcomes(leaves, world) if r["exit"] == "fall"]
        if not rows:
            bad["settings wiring"].append(f"no pass of the loop for settings {world}")
        for r in rows:
            l = r["leaf"]
            covered += 1
            calls = [e for e in r["events"] if e[0] == "call"]
            named = lambda nm: [e[2] for e in calls if getattr(getattr(e[2], "func", None), "__name__", "") == nm]   # noqa: E731
            # orientation
            o = named("orient_sensor_to")
            if bool(o) != (world[ORI] != NONE):
                bad["orientation guard"].append(f"orientation {'applied' if o else 'skipped'} when the configured target is {'given' if world[ORI] != NONE else 'None'}")
            for x in o:
                if x.args[0] != REC:
                    bad["receivers"].append(f"orient_sensor_to acts on {x.args[0]}")
                if len(x.args) < 2 or x.args[1] != world[ORI]:
                    bad["orientation guard"].append(f"orientation target is {x.args[1:]}")
            # filter
            fl = named("butterworth_filter")
            if len(fl) != 1 or fl[0].args[0] != REC:
                bad["receivers"].append(f"the filter acts on {[str(x.args[0]) for x in fl]}")
            elif len(fl[0].args) < 2 or fl[0].args[1] != G_CORN:
                bad["settings wiring"].append(f"filter corners are {fl[0].args[1:]}")
            # windows handed on
            ext = named("extend")
            fused = None
            if not ext:
                # one pass over the windows that detrends (when configured) and collects each window: `for w in V: ...; out.append(w)`
                for e in r["events"]:
                    if e[0] == "loop" and isinstance(e[3], ast.For) and isinstance(e[3].target, ast.Name) and any(True for _ in calls_in(e[3], "append")):
                        st_ = e[3]
                        env_f = dict(l.snaps[id(st_)][0])
                        seq_f = specialise(PathTable(prog, f.module, structured=True, unroll=True)._T(env_f).tr(st_.iter), world)
                        env_f[st_.target.id] = R("<window>")
                        sub_f = [x for x in outcomes(PathTable(prog, f.module, env=env_f, structured=True, unroll=True).leaves(st_.body), world) if x["exit"] == "fall"]
                        if len(sub_f) != 1:
                            raise AnalysisError(f"{fq}: the pass over the windows is not decided by the settings")
                        calls_f = [x for x in sub_f[0]["events"] if x[0] == "call"]
                        apps = [x[2] for x in calls_f if getattr(getattr(x[2], "func", None), "__name__", "") == "append"]
                        dets = [specialise(x[2], world) for x in calls_f if getattr(getattr(x[2], "func", None), "__name__", "") == "detrend"]
                        if len(apps) == 1 and apps[0].args[-1] == R("<window>"):
                            # the window must be detrended before it is handed on
                            names_f = [getattr(getattr(x[2], "func", None), "__name__", "") for x in calls_f]
                            if dets and names_f.index("detrend") > names_f.index("append"):
                                bad["receivers"].append("a window is handed on before it is detrended")
                            fused = (seq_f, dets)
            if fused is not None:
                V, dets = fused
                if isinstance(V, sp.Piecewise):
                    raise AnalysisError(f"{fq}: the windows handed on ({V}) are not decided by the settings")
                if world[WL] != NONE and V != F("split")(REC, G_WL):
                    bad["settings wiring" if getattr(getattr(V, "func", None), "__name__", "") == "split" and V.args[0] == REC else "receivers"].append(f"with a window length the windows are {V}")
                elif world[WL] == NONE and V != sp.Tuple(REC):
                    bad["receivers"].append(f"without a window length the windows are {V}")
                wanted = world[DET] == G_DET
                if bool(dets) != wanted:
                    bad["detrend"].append(f"windows are {'detrended' if dets else 'not detrended'} when the configured type is {world[DET]}")
                for d_ in dets:
                    if d_.args[0] != R("<window>"):
                        bad["receivers"].append("detrend is not applied once to each window")
                    elif len(d_.args) < 2 or d_.args[1] != G_DET:
                        bad["detrend type"].append(f"detrend type is {d_.args[1:]}")
                if len(dets) > 1:
                    bad["receivers"].append("detrend is not applied once to each window")
                continue
            if len(ext) != 1:
                raise AnalysisError(f"{fq}: expected one extend() of the output list per record")
            V = ext[0].args[1]
            if isinstance(V, sp.Piecewise):
                raise AnalysisError(f"{fq}: the windows handed on ({V}) are not decided by the settings")
            if world[WL] != NONE and V != F("split")(REC, G_WL):
                bad["settings wiring" if getattr(getattr(V, "func", None), "__name__", "") == "split" and V.args[0] == REC else "receivers"].append(f"with a window length the windows are {V}")
            elif world[WL] == NONE and V != sp.Tuple(REC):
                bad["receivers"].append(f"without a window length the windows are {V}")
            # detrend: each window of that same list, with the configured type, exactly when a type is configured
            wanted = world[DET] == G_DET
            dl = [e for e in r["events"] if e[0] == "loop" and isinstance(e[3], ast.For) and calls_in(e[3], "detrend")]
            if bool(dl) != wanted:
                bad["detrend"].append(f"windows are {'detrended' if dl else 'not detrended'} when the configured type is {world[DET]}")
            for e in dl:
                st = e[3]
                env2 = dict(l.snaps[id(st)][0])
                Tn = PathTable(prog, f.module, structured=True, unroll=True)._T(env2)
                seq = specialise(Tn.tr(st.iter), world)
                if seq != V:
                    bad["receivers"].append(f"detrend runs over {seq}, not over the windows handed on")
                if not isinstance(st.target, ast.Name):
                    raise AnalysisError(f"{fq}: detrend loop target")
                env2[st.target.id] = R("<window>")
                sub = PathTable(prog, f.module, env=env2, structured=True, unroll=True).leaves(st.body)
                dcalls = [specialise(x[2], world) for sl in sub for x in sl.events if x[0] == "call" and getattr(getattr(x[2], "func", None), "__name__", "") == "detrend"]
                if len(sub) != 1 or len(dcalls) != 1 or dcalls[0].args[0] != R("<window>"):
                    bad["receivers"].append("detrend is not applied once to each window")
                elif len(dcalls[0].args) < 2 or dcalls[0].args[1] != G_DET:
                    bad["detrend type"].append(f"detrend type is {dcalls[0].args[1:]}")
    names = {"orientation guard": "orientation applied exactly when a target is configured (0 included), with that target",
             "receivers": f"orient/filter/split act on the whole record; detrend on each window of the split result",
             "settings wiring": "filter/split use the configured corners and window length",
             "detrend": "windows detrended exactly when a detrend type is configured",
             "detrend type": "detrend type from settings"}
    for k, v in bad.items():
        if not v:
            ck.ok("C10.R1", fq, names[k], detail=f"{len(leaves)} paths through one pass of the loop, {len(worlds)} settings combinations")
        else:
            ck.violation("C10.R1", fq, k, "; ".join(sorted(set(v))[:3]), loc=f.loc(lp))


def _r1(ck: Checker, prog: Program):
    f = prog.func("preprocessing.hvsr_preprocess")
    fq = f.qualname
    loops = [st for st in f.node.body if isinstance(st, ast.For)]
    if len(loops) != 1:
        raise AnalysisError(f"{fq}: expected one per-record loop")
    lp = loops[0]
    rec = lp.target.elts[1].id if isinstance(lp.target, ast.Tuple) else (lp.target.id if isinstance(lp.target, ast.Name) else None)
    if rec is None or "records" not in unparse(lp.iter):
        raise AnalysisError(f"{fq}: per-record loop does not iterate over records")
    cfg = cfg_of(f)
    idom = cfg.dominators()

    def calls(name):
        return [c for c in calls_in(lp, name) if isinstance(c.func, ast.Attribute)]
    orient, filt, split, detr = calls("orient_sensor_to"), calls("butterworth_filter"), calls("split"), calls("detrend")
    for nm, lst in (("orient_sensor_to", orient), ("butterworth_filter", filt), ("split", split), ("detrend", detr)):
        if len(lst) != 1:
            ck.violation("C10.R1", fq, f"{nm} call count", f"expected exactly one {nm}() call per record, found {len(lst)}", loc=f.loc(lp))
            return
    O, F, S, D = orient[0], filt[0], split[0], detr[0]
    nO, nF, nS, nD = [cfg.node(_stmt_of(x)) for x in (O, F, S, D)]
    _wiring_table(ck, prog, f, fq, lp, rec)
    # ordering on every path (within one iteration): avoid passing the loop header again
    h = cfg.node(lp)

    def precedes(a, b, what):
        # whenever both steps run in one iteration, a runs first: no path b -> a without passing the loop header
        if not cfg.exists_path_avoiding(b, a, [h]) and cfg.exists_path_avoiding(a, b, [h]):
            ck.ok("C10.R1", fq, what)
        else:
            p = cfg.path_avoiding(b, a, [h])
            ck.violation("C10.R1", fq, what, f"order violated: {what} does not hold within one pass of the per-record loop", loc=f.loc(lp),
                         path=cfg.describe_path(p)[:10] if p else [])
    precedes(nF, nS, "butterworth_filter precedes split")
    precedes(nS, nD, "split precedes detrend")
    if cfg.exists_path_avoiding(nF, nO, [h]):
        ck.violation("C10.R1", fq, "orient precedes filter", "the sensor is oriented after filtering", loc=f.loc(O))
    else:
        ck.ok("C10.R1", fq, "orient_sensor_to precedes butterworth_filter")
    # filter is unconditional within the iteration (may be wrapped in `with`)
    p = parent_of(_stmt_of(F))
    while p is not None and p is not lp:
        if isinstance(p, (ast.If, ast.For, ast.While, ast.Try)):
            ck.violation("C10.R1", fq, "filter unconditional", "the filter step is conditional or repeated", loc=f.loc(F))
        p = parent_of(p)
    # output order: windows extended per record in order
    rets = [r for r in own_nodes(f.node) if isinstance(r, ast.Return)]
    out_name = rets[0].value.id if len(rets) == 1 and isinstance(rets[0].value, ast.Name) else None
    ext = [c for c in calls_in(lp, "extend") if unparse(c.func.value) == out_name]
    # ... or appended one by one in a pass over the record's windows, in window order, none skipped
    app_loops = [x for x in lp.body if isinstance(x, ast.For) and isinstance(x.target, ast.Name) and not x.orelse
                 and [unparse(c.args[0]) for c in calls_in(x, "append") if unparse(c.func.value) == out_name and c.args] == [x.target.id]
                 and all(parent_of(_stmt_of(c)) is x for c in calls_in(x, "append") if unparse(c.func.value) == out_name)]
    collected = (len(ext) == 1 and parent_of(_stmt_of(ext[0])) is lp and not app_loops) or (not ext and len(app_loops) == 1)
    if collected and out_name is not None \
            and not any(isinstance(x, (ast.Break, ast.Continue)) for x in ast.walk(lp)):
        ck.ok("C10.R1", fq, "windows of every record collected in order", nontrivial=False)
    else:
        ck.violation("C10.R1", fq, "collection of windows", "the windows of every record are not collected in order", loc=f.loc(lp))
    # zero-phase filter
    ck.guard(_butterworth, ck, prog)
    # component-wise methods visit all three components
    from .common import check_componentwise
    for name in ("butterworth_filter", "detrend", "trim", "window"):
        ck.guard(check_componentwise, ck, prog, "C10.R1", name)



def _r2(ck: Checker, prog: Program):
    """SeismicRecording3C.split: window j = (ns_j, ew_j, vt_j) of the three component splits with one window length,
    carrying the record's orientation and meta (loop + append or comprehension)."""
    from ..pathtable import PathTable
    m = prog.func("seismic_recording_3c.SeismicRecording3C.split")
    fq = m.qualname
    R = lambda n: sp.Symbol(n, real=True)   # noqa: E731
    SELF, WL = R("self"), R("window_length_in_seconds")
    A = lambda a, o: sp.Function("attr_" + a)(o)   # noqa: E731
    comp, gen, item = sp.Function("comp"), sp.Function("gen"), sp.Function("item")
    it0 = sp.Symbol("_it0")
    S = [sp.Function("split")(A(c, SELF), WL) for c in ("ns", "ew", "vt")]
    want = comp(sp.Function("SeismicRecording3C")(item(it0, sp.Integer(0)), item(it0, sp.Integer(1)), item(it0, sp.Integer(2)), A("degrees_from_north", SELF), A("meta", SELF)),
                gen(it0, sp.Function("zip")(*S)))
    pt = PathTable(prog, m.module, unroll=True, structured=True)
    leaves = [l for l in pt.leaves(m.node.body) if l.exit == "return"]
    if len(leaves) != 1:
        raise AnalysisError(f"{fq}: expected one returning path")
    l = leaves[0]
    got = l.value
    loops = [e[3] for e in l.events if e[0] == "loop"]
    if loops and not getattr(got, "func", None) == comp:
        lp = loops[-1]
        env0 = dict(l.snaps[id(lp)][0])
        T0 = Translator(env=env0)
        T0.structured = True
        T0.unroll_comps = True
        T0.attr_of_bound = True
        seq = T0.tr(lp.iter)
        tg = lp.target
        if isinstance(tg, ast.Tuple):
            for j, e in enumerate(tg.elts):
                if isinstance(e, ast.Name):
                    env0[e.id] = item(it0, sp.Integer(j))
        elif isinstance(tg, ast.Name):
            env0[tg.id] = it0
        if any(isinstance(x, (ast.Break, ast.Continue, ast.If)) for x in ast.walk(lp)):
            ck.violation("C10.R2", fq, "window construction", "the loop over the component windows can skip windows", loc=m.loc(lp))
            return
        sub = PathTable(prog, m.module, env=env0, unroll=True, structured=True).leaves(lp.body)
        apps = [e for sl in sub for e in sl.events if e[0] == "call" and e[1].endswith(".append")]
        if len(sub) == 1 and len(apps) == 1 and isinstance(apps[0][3].value.func.value, ast.Name) and str(got) == apps[0][3].value.func.value.id:
            got = comp(apps[0][2].args[-1], gen(it0, seq))
    got = got.replace(lambda e: getattr(getattr(e, "func", None), "__name__", "") == "cls", lambda e: sp.Function("SeismicRecording3C")(*e.args)) if hasattr(got, "replace") else got
    if got == want:
        ck.ok("C10.R2", fq, "window j = (ns_j, ew_j, vt_j) with the record's orientation and meta; same window length for the three components", detail=str(got)[:200])
    else:
        ck.violation("C10.R2", fq, "window construction",
                     f"windows are built as {got}; expected {want} (components split with the same window length, zipped in the order ns, ew, vt, "
                     f"each window carrying the record's orientation and meta)", loc=m.loc())
    if not reaching(m).only_param("window_length_in_seconds", m.node.body[-1]):
        ck.violation("C10.R2", fq, "component splits", "`window_length_in_seconds` is rebound before the components are split", loc=m.loc())


def _filter_design(ck: Checker, prog: Program):
    """Zero-phase Butterworth at the requested corners: designed against the record's own sampling rate 1/dt and applied
    forwards and backwards to the whole series."""
    from ..pathtable import PathTable
    fs = prog.func("timeseries.TimeSeries.fs")
    leaves = [l for l in PathTable(prog, fs.module, structured=True).leaves(fs.node.body) if l.exit == "return"]
    DT = sp.Function("attr_dt_in_seconds")(sp.Symbol("self", real=True))
    if len(leaves) == 1 and equal(leaves[0].value, 1 / DT):
        ck.ok("C10.R1", fs.qualname, "fs = 1/dt_in_seconds (exact)")
    else:
        got = [str(l.value) for l in leaves]
        ck.violation("C10.R1", fs.qualname, "sampling rate", f"the sampling rate used to design the filter is {got}, not 1/dt_in_seconds: the corners would be normalised against the wrong Nyquist frequency",
                     loc=fs.loc())


def _int_typed(expr: ast.AST, ints: Set[str]) -> bool:
    if isinstance(expr, ast.Constant):
        return isinstance(expr.value, int) and not isinstance(expr.value, bool)
    if isinstance(expr, ast.Name):
        return expr.id in ints
    if isinstance(expr, ast.Attribute):
        return expr.attr in ("n_samples", "size") or unparse(expr) in ints
    if isinstance(expr, ast.Call):
        return call_name(expr) in ("int", "len", "round") and (call_name(expr) != "round" or len(expr.args) == 1)
    if isinstance(expr, ast.BinOp) and isinstance(expr.op, (ast.Add, ast.Sub, ast.Mult, ast.FloorDiv)):
        return _int_typed(expr.left, ints) and _int_typed(expr.right, ints)
    return False


def _strip(e: ast.AST) -> ast.AST:
    while isinstance(e, ast.Call) and call_name(e) in ("float",) and len(e.args) == 1:
        e = e.args[0]
    return e


def _r3_r4(ck: Checker, prog: Program):
    """TimeSeries.split as a tiling: window j = samples [j*k, j*k + k + 1) for j < floor(n/k), k = whole intervals per window."""
    from ..pathtable import PathTable, literals, same_rel, negate
    from ..dataflow import loop_carried
    f = prog.func("timeseries.TimeSeries.split")
    fq = f.qualname
    R = lambda n: sp.Symbol(n, real=True)   # noqa: E731
    WL, DT, NS, AMP = R("window_length_in_seconds"), R("self.dt_in_seconds"), R("self.n_samples"), R("self.amplitude")
    gi, sl, NONE = sp.Function("getitem"), sp.Function("slice"), sp.Symbol("None")
    pt = PathTable(prog, f.module)
    leaves = pt.leaves(f.node.body)
    succ = [l for l in leaves if l.exit == "return"]
    if len(succ) != 1:
        raise AnalysisError(f"{fq}: expected one returning path, found {len(succ)}")
    l = succ[0]
    J = sp.Symbol("j", integer=True, nonnegative=True)
    W = start_j = a = b = None
    site = f.node
    loops = [e[3] for e in l.events if e[0] == "loop"]
    if len(loops) == 1:
        lp = loops[0]
        site = lp
        if not (isinstance(lp, ast.For) and isinstance(lp.iter, ast.Call) and call_name(lp.iter) == "range" and len(lp.iter.args) == 1) \
                or any(isinstance(x, (ast.Break, ast.Continue, ast.If, ast.Return)) for x in ast.walk(lp)):
            ck.violation("C10.R3", fq, "tiling recurrence", f"the window loop `{norm_key(lp, 60)}` does not produce one window per index of range(n_windows)", loc=f.loc(lp))
            return
        env0 = l.snaps[id(lp)][0]
        W = Translator(env=env0).tr(lp.iter.args[0])
        carried = sorted({nm for (nm, _u, _d) in loop_carried(f, lp)})
        state = [nm for nm in carried if nm in env0]
        if len(state) != 1:
            raise AnalysisError(f"{fq}: expected one running index carried between windows, found {carried}")
        sv = state[0]
        Ssym = sp.Symbol("<start>", integer=True)
        env = dict(env0)
        env[sv] = Ssym
        sub = PathTable(prog, f.module, env=env).leaves(lp.body)
        if len(sub) != 1:
            raise AnalysisError(f"{fq}: branching window loop body")
        sl_ = sub[0]
        step = sp.simplify(sl_.env[sv] - Ssym)
        s0 = env0[sv]
        if step.has(Ssym):
            ck.violation("C10.R3", fq, "tiling recurrence", f"the next window starts at {sl_.env[sv]}: not a fixed stride", loc=f.loc(lp))
            return
        start_j = sp.expand(s0 + J * step)
        apps = [e for e in sl_.events if e[0] == "call" and e[1].endswith(".append")]
        if len(apps) != 1:
            raise AnalysisError(f"{fq}: expected one append per window, found {len(apps)}")
        win = apps[0][2].args[-1]
        lst = apps[0][2].args[0]
        recv = apps[0][3].value.func.value
        if not (isinstance(recv, ast.Name) and str(l.value) == recv.id):
            ck.violation("C10.R3", fq, "window samples", f"the list returned ({l.value}) is not the list the windows are appended to ({lst})", loc=f.loc())
        a_, b_ = _window_slice(win, AMP, DT)
        if a_ is None:
            ck.violation("C10.R3", fq, "window samples", f"a window is {win}: not TimeSeries(self.amplitude[start:end], self.dt_in_seconds)", loc=f.loc(lp))
            return
        a, b = a_.subs(Ssym, start_j), b_.subs(Ssym, start_j)
    else:
        v = l.value
        comp, gen = sp.Function("comp"), sp.Function("gen")
        if getattr(v, "func", None) != comp or len(v.args) != 2 or v.args[1].func != gen or len(v.args[1].args) != 2:
            raise AnalysisError(f"{fq}: construction of the window list not recognised ({v})")
        elt, g = v.args
        var, it = g.args
        a_, b_ = _window_slice(elt, AMP, DT)
        if a_ is None:
            ck.violation("C10.R3", fq, "window samples", f"a window is {elt}: not TimeSeries(self.amplitude[start:end], self.dt_in_seconds)", loc=f.loc())
            return
        if getattr(it, "func", None) == comp and len(it.args) == 2 and it.args[1].func == gen and len(it.args[1].args) == 2 \
                and getattr(it.args[1].args[1], "func", None) == sp.Function("range") and len(it.args[1].args[1].args) == 1:
            inner_elt, ig = it.args
            ivar = ig.args[0]
            W = ig.args[1].args[0]
            start_j = sp.expand(inner_elt.subs(ivar, J))
        elif getattr(it, "func", None) == sp.Function("range") and len(it.args) == 1:
            W = it.args[0]
            start_j = J
        elif getattr(it, "func", None) == sp.Function("range") and len(it.args) in (2, 3):
            # range(first, stop, stride): window j starts at first + j*stride, for j < (stop - first)/stride when that is whole
            first, stop = it.args[0], it.args[1]
            stride = it.args[2] if len(it.args) == 3 else sp.Integer(1)
            cnt = sp.cancel(sp.together((stop - first) / stride))
            if sp.denom(cnt) != 1:
                raise AnalysisError(f"{fq}: the number of windows produced by {it} is not a whole expression")
            W = cnt
            start_j = sp.expand(first + J * stride)
        elif getattr(getattr(it, "func", None), "__name__", "") == "islice" and len(it.args) == 2 \
                and getattr(getattr(it.args[0], "func", None), "__name__", "") == "count" and len(it.args[0].args) <= 2:
            # the first n values of the arithmetic progression count(first, stride)
            cargs = list(it.args[0].args)
            first = cargs[0] if cargs else sp.Integer(0)
            stride = cargs[1] if len(cargs) == 2 else sp.Integer(1)
            W = it.args[1]
            start_j = sp.expand(first + J * stride)
        else:
            raise AnalysisError(f"{fq}: construction of the window list not recognised (iterates {it})")
        a, b = a_.subs(var, start_j), b_.subs(var, start_j)
    # ---- k: whole intervals per window = length - 1
    length = sp.simplify(b - a)
    k = sp.simplify(length - 1)
    q = WL / DT
    fn = lambda e: getattr(getattr(e, "func", None), "__name__", "")   # noqa: E731

    def rounded(e) -> Optional[str]:
        """how the quotient is turned into a whole number: 'rounded' | 'truncated' | None"""
        if fn(e) == "int" and len(e.args) == 1:
            inner = e.args[0]
            if fn(inner) in ("round", "rint", "around") and equal(inner.args[0], q):
                # round(q, d) with d >= 1 decimals removes floating-point dust before the truncation; round(q) / rint(q) go to the
                # NEAREST whole number - 9.6 intervals would count as 10
                digits = inner.args[1] if len(inner.args) > 1 else None
                if fn(digits) in ("kw_ndigits", "kw_decimals") and len(digits.args) == 1:
                    digits = digits.args[0]
                if digits is not None and digits.is_number and digits >= 1:
                    return "rounded"
                return "nearest"
            if equal(inner, q):
                return "truncated"
            d = sp.simplify(inner - q)
            if d.is_number and 0 < d < sp.Rational(1, 2):
                return "rounded"
            return None
        if fn(e) in ("round", "rint") and len(e.args) == 1 and equal(e.args[0], q):
            return "nearest"
        if isinstance(e, sp.floor):
            inner = e.args[0]
            if equal(inner, q):
                return "truncated"
            d = sp.simplify(inner - q)
            if d.is_number and 0 < d < sp.Rational(1, 2):
                return "rounded"
        return None
    how = rounded(k)
    if how == "rounded":
        ck.ok("C10.R4", fq, f"k = {k}", detail="exact quotient window_length/dt, rounded/tolerance-adjusted before truncation")
        ck.ok("C10.R3", fq, "samples per window = k + 1", detail=f"k = {k}")
    elif how == "nearest":
        ck.violation("C10.R4", fq, f"k = {k}",
                     f"`{k}` rounds the quotient window_length/dt to the nearest whole number: a window length of 9.6 sample intervals gives k = 10, "
                     f"more than the whole intervals it holds (windows start on the wrong samples and span one sample too many)", loc=f.loc())
    elif how == "truncated":
        ck.violation("C10.R4", fq, f"k = {k}",
                     f"`{k}` truncates the raw float quotient: a window length that is an exact multiple of the time step "
                     f"can come out one interval short (e.g. 3 s at 75 Hz gives 224.99999999999997)", loc=f.loc())
    else:
        ck.violation("C10.R3", fq, "samples per window", f"a window holds {length} samples, not (whole intervals of window_length/dt) + 1", loc=f.loc(site))
        return
    if equal(a, sp.expand(J * k)):
        ck.ok("C10.R3", fq, "window j starts at sample j*k", detail="consecutive windows share exactly one sample")
    else:
        ck.violation("C10.R3", fq, "tiling recurrence", f"window j starts at sample {a}; expected j*k with k = {k} (start 0, stride k)", loc=f.loc(site))
    n_ok = W is not None and (equal(W, sp.Function("int")(NS / k)) or equal(W, sp.floor(NS / k)))
    if n_ok:
        ck.ok("C10.R3", fq, f"n_windows = {W}", detail="n_windows = floor(n_samples / k)")
    else:
        ck.violation("C10.R3", fq, "number of windows", f"n_windows is {W}, not floor(n_samples / k)", loc=f.loc())
    refused = [x for r in leaves if r.exit == "raise" for x in literals(r)]
    alts = [sp.Gt(1, W, evaluate=False), sp.Eq(W, 0, evaluate=False), sp.Ge(0, W, evaluate=False)] if W is not None else []
    if any(same_rel(x, y) for x in refused for y in alts) and any(same_rel(x, negate(y)) for x in literals(l) for y in alts):
        ck.ok("C10.R3", fq, "a window longer than the record is refused")
    else:
        ck.violation("C10.R3", fq, "refusal", "a window longer than the record is not refused", loc=f.loc())


def _window_slice(win, AMP, DT):
    gi, sl, NONE = sp.Function("getitem"), sp.Function("slice"), sp.Symbol("None")
    fn = getattr(getattr(win, "func", None), "__name__", "")
    if fn not in ("TimeSeries", "cls") or len(win.args) < 2:
        return None, None
    data, dt = win.args[0], win.args[1]
    if dt != DT or getattr(data, "func", None) != gi or data.args[0] != AMP or getattr(data.args[1], "func", None) != sl or data.args[1].args[2] != NONE:
        return None, None
    return data.args[1].args[0], data.args[1].args[1]
