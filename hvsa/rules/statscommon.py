"""Rules shared by C05 (traditional statistics) and C11 (azimuthal statistics)."""
from __future__ import annotations

import ast
from typing import Dict, List, Optional, Tuple

import sympy as sp

from ..astutil import call_name, calls_in, own_nodes, unparse, kwarg, dotted
from ..expr import Translator, forward_substitute, equal
from ..model import AnalysisError, Class, Func, Program, norm_key, parent_of
from ..report import Checker
from .common import engine, group_effects, describe_effect, chain_text, pkg_call_hook

MASKS = ("valid_window_boolean_mask", "valid_peak_boolean_mask")
NON_ACCESSORS = {"__init__", "update_peaks_bounded", "__eq__", "__repr__", "__str__", "is_similar",
                 "from_hvsr_curves", "_check_input"}


def translator_for(prog: Program, f: Func, self_cls: Optional[Class] = None) -> Translator:
    T = Translator(call_hook=pkg_call_hook(prog, f.module, self_cls))
    T.attr_of_bound = True
    return T


def expect(prog: Program, f: Func, src: str, self_cls: Optional[Class] = None, env=None) -> sp.Expr:
    T = translator_for(prog, f, self_cls)
    if env:
        T.env.update(env)
    return T.tr(ast.parse(src, mode="eval").body)


def returns_of(f: Func) -> List[ast.Return]:
    return [r for r in own_nodes(f.node) if isinstance(r, ast.Return)]


# --------------------------------------------------------------------------- purity
def check_accessor_purity(ck: Checker, prog: Program, cls: Class, rule: str, floor: int):
    eng = engine(prog)
    n = 0
    for name, m in sorted(cls.methods.items()):
        if name in NON_ACCESSORS or m.qualname in getattr(prog, "absorbed", set()) or m.kind in ("setter", "deleter"):
            continue        # (a new helper of a mutator is analysed where it is called; the write half of a property is a mutator)
        n += 1
        s = eng.summary(m)
        effs = [e for e in s.effects if e.origin[0] in ("P", "G")]
        if not effs:
            ck.ok(rule, m.qualname, "no effect on self, arguments or module state")
        for (func, text), es in group_effects(prog, effs).items():
            ck.violation(rule, func, text,
                         f"statistic accessor {m.qualname} is not read-only: {describe_effect(es[0])} "
                         f"(its result would depend on call history)", loc=es[0].chain[0].loc, path=chain_text(es[0]))
        extra = [d for d in m.decorators if d not in ("property", "staticmethod", "classmethod") and not d.endswith(".getter")]
        if extra:
            ck.violation(rule, m.qualname, f"decorator {extra[0]}", f"`@{extra[0]}` may cache the statistic across mask changes", loc=m.loc())
    ck.floor(rule, n, floor, f"statistic accessors of {cls.name}")


# --------------------------------------------------------------------------- masking
def check_masked_reads(ck: Checker, prog: Program, cls: Class, rule: str, obj_names=("self",),
                       raw: Dict[str, str] = None, floor: int = 1, exclude=()):
    """Inside accessors, every read of a raw per-window array is subscripted by its mask."""
    raw = raw or {"_main_peak_frq": "valid_peak_boolean_mask", "_main_peak_amp": "valid_peak_boolean_mask",
                  "amplitude": "valid_window_boolean_mask"}
    n = 0
    for name, m in sorted(cls.methods.items()):
        if name in NON_ACCESSORS or name in exclude or m.qualname in getattr(prog, "absorbed", set()):
            continue
        for node in own_nodes(m.node):
            if isinstance(node, ast.Attribute) and node.attr in raw and isinstance(node.ctx, ast.Load):
                base = node.value
                # only per-window arrays of HvsrTraditional objects: self.<raw> in HvsrTraditional, <hvsr>.<raw>
                # for loop variables over self.hvsrs in HvsrAzimuthal
                bname = base.id if isinstance(base, ast.Name) else None
                if bname is None:
                    continue
                if cls.name == "HvsrAzimuthal" and bname == "self":
                    continue          # HvsrAzimuthal.amplitude is a property returning the list of arrays
                n += 1
                par = parent_of(node)
                want = raw[node.attr]
                good = isinstance(par, ast.Subscript) and par.value is node and isinstance(par.slice, ast.Attribute) \
                    and par.slice.attr == want and isinstance(par.slice.value, ast.Name) and par.slice.value.id == bname
                key = f"{bname}.{node.attr}[...] in {name}"
                if good:
                    ck.ok(rule, m.qualname, norm_key(par, 90))
                else:
                    ck.violation(rule, m.qualname, norm_key(par if isinstance(par, ast.Subscript) else node, 90),
                                 f"`{bname}.{node.attr}` is read without selecting the accepted entries by `{bname}.{want}`: "
                                 f"rejected windows can influence the statistic", loc=m.loc(node))
    ck.floor(rule, n, floor, f"raw per-window array reads in accessors of {cls.name}")


# --------------------------------------------------------------------------- mask lock-step
def check_mask_lockstep(ck: Checker, prog: Program, rule: str, modules=("hvsr_traditional", "hvsr_azimuthal", "window_rejection"),
                        floor: int = 8):
    def mask_target(t: ast.AST) -> Optional[Tuple[str, str, str]]:
        """(object text, mask name, subscript text or '') for stores to a mask or one of its elements."""
        sub = ""
        if isinstance(t, ast.Subscript):
            sub = unparse(t.slice)
            t = t.value
        if isinstance(t, ast.Attribute) and t.attr in MASKS:
            return unparse(t.value), t.attr, sub
        return None
    n = 0
    for mname in modules:
        mod = prog.module(mname)
        for f in [g for g in prog.funcs.values() if g.module is mod and g.kind != "lambda" and g.qualname not in getattr(prog, "absorbed", set())]:
            for st in own_nodes(f.node):
                if not isinstance(st, ast.Assign) or len(st.targets) != 1:
                    continue
                mt = mask_target(st.targets[0])
                if mt is None:
                    continue
                obj, mask, sub = mt
                other = MASKS[1 - MASKS.index(mask)]
                block = _block_of(st)
                twins = []
                for s2 in block:
                    if s2 is st or not isinstance(s2, ast.Assign) or len(s2.targets) != 1:
                        continue
                    m2 = mask_target(s2.targets[0])
                    if m2 and m2[0] == obj and m2[1] == other and m2[2] == sub and unparse(s2.value) == unparse(st.value):
                        twins.append(s2)
                n += 1
                if not sub:
                    why = _not_boolean(f, st.value)
                    if why and why.startswith("?"):
                        raise AnalysisError(f"{f.qualname}: whether `{norm_key(st, 60)}` stores a boolean array is not decided: {why[1:]}")
                    if why:
                        ck.violation(rule, f.qualname, norm_key(st, 90) + " [dtype]",
                                     f"the value stored into `{obj}.{mask}` is not a boolean array ({why}): an integer mask selects rows "
                                     f"by position instead of filtering them", loc=f.loc(st))
                if twins:
                    ck.ok(rule, f.qualname, norm_key(st, 90), detail=f"paired with `{norm_key(twins[0], 70)}`")
                    continue
                # designed exception: all curves flat -> every *window* stays accepted
                if f.qualname.endswith("HvsrTraditional.update_peaks_bounded") and mask == "valid_window_boolean_mask" \
                        and sub == ":" and isinstance(st.value, ast.Constant) and st.value.value is True:
                    p = parent_of(st)
                    if isinstance(p, ast.If) and parent_of(p) is f.node:
                        ck.ok(rule, f.qualname, norm_key(st, 90), detail="designed exception: no curve has a peak")
                        continue
                ck.violation(rule, f.qualname, norm_key(st, 90),
                             f"`{obj}.{mask}` is written here but `{obj}.{other}` is not given the same value in the same block: "
                             f"the two accept masks drift apart", loc=f.loc(st))
    ck.floor(rule, n, floor, "stores to the accept masks")


def _scalar_is_bool(f: Func, e: ast.AST, depth: int = 0) -> bool:
    """The expression is a Python / numpy boolean whatever the data: a literal, a comparison, not / and / or of such,
    bool(...), any / all / isinstance(...), or a local name every definition of which is such an expression."""
    if depth > 4 or e is None:
        return False
    if isinstance(e, ast.Constant):
        return isinstance(e.value, bool)
    if isinstance(e, ast.Compare):
        return True
    if isinstance(e, ast.UnaryOp) and isinstance(e.op, ast.Not):
        return True
    if isinstance(e, ast.BoolOp):
        return all(_scalar_is_bool(f, v, depth + 1) for v in e.values)
    if isinstance(e, ast.IfExp):
        return _scalar_is_bool(f, e.body, depth + 1) and _scalar_is_bool(f, e.orelse, depth + 1)
    if isinstance(e, ast.Call) and call_name(e) in ("bool", "bool_", "any", "all", "isinstance"):
        return True
    if isinstance(e, ast.NamedExpr):
        return _scalar_is_bool(f, e.value, depth + 1)
    if isinstance(e, ast.Call) and isinstance(e.func, ast.Name):
        # a function defined inside this one, every return of which is such an expression (and which cannot fall off its end)
        local = [d for d in ast.walk(f.node) if isinstance(d, ast.FunctionDef) and d is not f.node and d.name == e.func.id]
        if len(local) == 1 and not any(isinstance(x, (ast.Yield, ast.YieldFrom)) for x in ast.walk(local[0])):
            from types import SimpleNamespace
            g = SimpleNamespace(node=local[0], params=[a.arg for a in local[0].args.args])
            rets = [r for r in own_nodes(local[0]) if isinstance(r, ast.Return)]
            last = local[0].body[-1]
            ends = isinstance(last, (ast.Return, ast.Raise)) or (isinstance(last, ast.If) and last.orelse and all(isinstance(b[-1], (ast.Return, ast.Raise)) for b in (last.body, last.orelse)))
            return bool(rets) and ends and all(r.value is not None and _scalar_is_bool(g, r.value, depth + 1) for r in rets)
    if isinstance(e, ast.Name):
        defs = [s_ for s_ in own_nodes(f.node) if isinstance(s_, (ast.Assign, ast.AnnAssign, ast.NamedExpr))
                and any(isinstance(t, ast.Name) and t.id == e.id for t in (s_.targets if isinstance(s_, ast.Assign) else [s_.target]))]
        others = [s_ for s_ in own_nodes(f.node) if isinstance(s_, (ast.AugAssign, ast.For, ast.With)) and e.id in {x.id for x in ast.walk(getattr(s_, "target", s_)) if isinstance(x, ast.Name) and isinstance(x.ctx, ast.Store)}]
        if not defs or others or e.id in f.params:
            return False
        return all(_scalar_is_bool(f, d.value, depth + 1) for d in defs)
    return False


def _known_non_bool(e: ast.AST) -> bool:
    """Positively not a boolean: a number literal, arithmetic, int(...) / float(...) / len(...)."""
    if isinstance(e, ast.Constant):
        return not isinstance(e.value, bool)
    if isinstance(e, ast.BinOp) and not isinstance(e.op, (ast.BitAnd, ast.BitOr, ast.BitXor)):
        return True
    if isinstance(e, ast.Call) and call_name(e) in ("int", "float", "len", "sum", "round", "abs", "max", "min"):
        return True
    if isinstance(e, ast.IfExp):
        return _known_non_bool(e.body) or _known_non_bool(e.orelse)
    return False


def _comp_elt_is_bool(f: Func, comp: ast.ListComp) -> bool:
    """`[b for _, b in pairs]` where `pairs` is (every definition) a comprehension of tuples whose matching entry is a boolean."""
    if len(comp.generators) != 1 or not isinstance(comp.elt, ast.Name):
        return False
    g = comp.generators[0]
    if not (isinstance(g.target, ast.Tuple) and isinstance(g.iter, ast.Name)):
        return False
    pos = [i for i, t in enumerate(g.target.elts) if isinstance(t, ast.Name) and t.id == comp.elt.id]
    if len(pos) != 1:
        return False
    defs = [s_ for s_ in own_nodes(f.node) if isinstance(s_, ast.Assign) and any(isinstance(t, ast.Name) and t.id == g.iter.id for t in s_.targets)]
    if not defs:
        return False
    for d in defs:
        v = d.value
        if isinstance(v, ast.List) and not v.elts:
            continue            # filled by the appends checked below
        if not (isinstance(v, (ast.ListComp, ast.GeneratorExp)) and isinstance(v.elt, ast.Tuple) and len(v.elt.elts) == len(g.target.elts)
                and _scalar_is_bool(f, v.elt.elts[pos[0]])):
            return False
    for c in calls_in(f.node):
        if isinstance(c.func, ast.Attribute) and isinstance(c.func.value, ast.Name) and c.func.value.id == g.iter.id and c.func.attr in ("append", "insert", "extend"):
            arg = c.args[-1] if c.args else None
            if c.func.attr == "extend" or not (isinstance(arg, ast.Tuple) and len(arg.elts) == len(g.target.elts) and _scalar_is_bool(f, arg.elts[pos[0]])):
                return False
    return True


def _not_boolean(f: Func, v: ast.AST) -> Optional[str]:
    """None if the expression is known to be a boolean array, else the reason."""
    if isinstance(v, ast.Constant) and isinstance(v.value, bool):
        return None
    if isinstance(v, ast.Call):
        nm = call_name(v)
        dt = kwarg(v, "dtype")
        if dt is not None:
            return None if unparse(dt) in ("bool", "np.bool_", "numpy.bool_") else f"dtype={unparse(dt)}"
        if nm in ("full_like", "full") and len(v.args) >= 2 and isinstance(v.args[1], ast.Constant) and isinstance(v.args[1].value, bool):
            return None
        if nm in ("array", "asarray", "copy") and v.args:
            a = v.args[0]
            if isinstance(a, ast.Attribute) and a.attr in MASKS:
                return None
            if isinstance(a, ast.Name):
                # every definition of the name is an empty list filled by append(<bool literal>) or a mask copy
                defs = [s for s in own_nodes(f.node) if isinstance(s, ast.Assign) and any(isinstance(t, ast.Name) and t.id == a.id for t in s.targets)]
                loopdefs = [s for s in own_nodes(f.node) if isinstance(s, ast.For) and a.id in {x.id for x in ast.walk(s.target) if isinstance(x, ast.Name)}]
                if loopdefs and not defs:
                    return None    # element of a stored mask list (reader / zip): typed where it was produced
                for d in defs:
                    if isinstance(d.value, ast.List) and not d.value.elts:
                        continue
                    if isinstance(d.value, ast.ListComp):
                        e = d.value.elt
                        if _scalar_is_bool(f, e) or _comp_elt_is_bool(f, d.value):
                            continue
                        if not _known_non_bool(e):
                            return f"?`{a.id}` is defined by `{norm_key(d, 60)}` (element type not decided)"
                        if (isinstance(e, ast.IfExp) and all(isinstance(x, ast.Constant) and isinstance(x.value, bool) for x in (e.body, e.orelse))) \
                                or isinstance(e, ast.Compare) or (isinstance(e, ast.Call) and call_name(e) == "bool") \
                                or (isinstance(e, ast.Constant) and isinstance(e.value, bool)):
                            continue
                    if isinstance(d.value, ast.Call) and _not_boolean(f, d.value) is None:
                        continue
                    return f"`{a.id}` is defined by `{norm_key(d, 60)}`"
                for c in calls_in(f.node):
                    if isinstance(c.func, ast.Attribute) and isinstance(c.func.value, ast.Name) and c.func.value.id == a.id \
                            and c.func.attr in ("append", "insert", "extend"):
                        arg = c.args[-1] if c.args else None
                        if not _scalar_is_bool(f, arg):
                            return f"`{norm_key(c, 60)}` adds a non-literal-bool entry"
                for s2 in own_nodes(f.node):
                    if isinstance(s2, ast.Assign) and isinstance(s2.targets[0], ast.Subscript) and unparse(s2.targets[0].value) == a.id:
                        if not _scalar_is_bool(f, s2.value):
                            return f"`{norm_key(s2, 60)}` stores a non-bool entry"
                return None if defs else f"`{a.id}` has no visible definition"
            return None if isinstance(a, (ast.List,)) and all(isinstance(e, ast.Constant) and isinstance(e.value, bool) for e in a.elts) else f"np.array({unparse(a)})"
        if nm in ("ones", "zeros"):
            return "np.ones/np.zeros without dtype=bool"
    if isinstance(v, ast.Name):
        return None
    return None


def _block_of(st: ast.stmt) -> List[ast.stmt]:
    p = parent_of(st)
    for fld in ("body", "orelse", "finalbody"):
        blk = getattr(p, fld, None)
        if isinstance(blk, list) and st in blk:
            return blk
    return [st]


# --------------------------------------------------------------------------- statistics.py
def _lambda_table(prog: Program, name: str) -> Dict[Tuple[str, str], ast.Lambda]:
    mod = prog.module("statistics")
    sym = mod.symbols.get(name)
    if not sym or sym[0] != "const" or not isinstance(sym[1], ast.Dict):
        raise AnalysisError(f"statistics.{name} not found as dict literal")
    out = {}
    for k, v in zip(sym[1].keys, sym[1].values):
        if not isinstance(v, ast.Dict):
            raise AnalysisError(f"statistics.{name}[{unparse(k)}] is not a dict")
        for k2, v2 in zip(v.keys, v.values):
            if not isinstance(v2, (ast.Lambda, ast.Name, ast.Attribute)):
                raise AnalysisError(f"statistics.{name}[{unparse(k)}][{unparse(k2)}] is not a function value")
            out[(k.value, k2.value)] = v2
    return out


def check_estimators(ck: Checker, prog: Program, rule: str):
    # x is any real sample: a transform that treats zeros / negative samples specially (np.where(x > 0, ...)) is not the stated one
    x = sp.Symbol("x", real=True)
    want_pre = {("normal", "mean"): x, ("normal", "std"): x, ("lognormal", "mean"): sp.log(x), ("lognormal", "std"): sp.log(x)}
    want_post = {("normal", "mean"): x, ("normal", "std"): x, ("lognormal", "mean"): sp.exp(x), ("lognormal", "std"): x}
    stat_mod = prog.module("statistics")
    for tname, want in (("PRE_PROCESS_FUNCTION_MAP", want_pre), ("POST_PROCESS_FUNCTION_MAP", want_post)):
        if tname not in stat_mod.symbols:
            continue            # no such table (e.g. a ladder in the factory): the factory is examined by value below
        tab = _lambda_table(prog, tname)
        if set(tab) != set(want):
            ck.violation(rule, f"statistics.{tname}", "keys", f"table keys {sorted(tab)} != {sorted(want)}", loc="hvsrpy/statistics.py")
            continue
        for k, lam in tab.items():
            if isinstance(lam, ast.Lambda):
                if len(lam.args.args) != 1:
                    raise AnalysisError(f"statistics.{tname}{k}: lambda arity")
                T = Translator(env={lam.args.args[0].arg: x})
                got = T.tr(lam.body)
            else:
                # a named function (np.log, a helper of the module): what it gives for x, helper bodies read in place
                from ..pathtable import PathTable as _PT, tidy_items as _tidy
                TT = _PT(prog, stat_mod, unroll=True)._T({"x__": x})
                got = TT.tr(ast.Call(func=lam, args=[ast.Name(id="x__", ctx=ast.Load())], keywords=[]))
                got = _tidy(got)
                if isinstance(got, sp.Piecewise) or (isinstance(lam, ast.Name) and getattr(getattr(got, "func", None), "__name__", "") == lam.id):
                    raise AnalysisError(f"statistics.{tname}{k}: the value of `{unparse(lam)}` for x could not be written out")
                got = got.replace(lambda e: getattr(getattr(e, "func", None), "__name__", "") in ("asarray", "array", "asanyarray") and len(e.args) >= 1,
                                  lambda e: e.args[0])
            if equal(got, want[k]):
                ck.ok(rule, f"statistics.{tname}", f"{k[0]}/{k[1]}: {unparse(lam)}", detail=f"= {want[k]}")
            else:
                ck.violation(rule, f"statistics.{tname}", f"{k[0]}/{k[1]}",
                             f"transform for ({k[0]}, {k[1]}) is {got}, expected {want[k]}", loc=f"hvsrpy/statistics.py:{lam.lineno}")
    # ---- factory wiring, by value: for every accepted spelling of the distribution and both calculations, the functions handed
    #      back apply the stated transforms (whatever the order of its parameters and of the tuple it returns); other names raise
    from ..pathtable import PathTable, outcomes, specialise, tidy_items
    fac = prog.func("statistics._distribution_factory")
    iface = factory_interface(prog)
    allp = list(fac.params) + [k for k in fac.kwonly if k not in fac.params]
    if not {"distribution", "calculation"} <= set(allp):
        raise AnalysisError(f"{fac.qualname}: parameters are {allp}")
    DIST, CALC = sp.Symbol("distribution", real=True), sp.Symbol("calculation", real=True)
    leaves = PathTable(prog, fac.module, unroll=True).leaves(fac.node.body)
    dm = prog.registry("constants", "DISTRIBUTION_MAP")
    worlds = [(k, v.value) for k, v in dm.items() if isinstance(v, ast.Constant)] + [("<other>", None)]
    X = sp.Symbol("x", real=True)
    problems = []
    for key, canon in worlds:
        for calc in ("mean", "std"):
            world = {DIST: sp.Symbol(f"'{key}'"), CALC: sp.Symbol(f"'{calc}'")}
            rows = outcomes(leaves, world)
            if canon is None:
                if any(r["exit"] == "return" and not r["failed"] for r in rows):
                    problems.append(f"the unknown name {key} is not refused")
                continue
            rets_ = [r for r in rows if r["exit"] == "return" and not r["failed"]]
            if len(rets_) != 1:
                problems.append(f"'{key}'/{calc}: {len(rets_)} returning paths")
                continue
            v = tidy_items(specialise(rets_[0]["value"], world))
            if not isinstance(v, sp.Tuple) or len(v) != iface["n"]:
                problems.append(f"'{key}'/{calc}: returns {str(v)[:80]}")
                continue
            for role, want in (("pre", want_pre[(canon, calc)]), ("post", want_post[(canon, calc)])):
                got = _apply_fn_value(prog, fac.module, v[iface[role]], X, world)
                if not equal(got, want.xreplace({x: X})):
                    problems.append(f"'{key}'/{calc}: the {role}-processing function gives {got} for x; expected {want}")
            if iface["canon"] is not None and v[iface["canon"]] != sp.Symbol(f"'{canon}'"):
                problems.append(f"'{key}': the canonical name handed back is {v[iface['canon']]}")
    if not problems:
        ck.ok(rule, fac.qualname, "returns (PRE[dist][calc], POST[dist][calc]) after alias resolution", detail=f"{len(worlds) - 1} spellings x 2 calculations; other names refused")
    else:
        ck.violation(rule, fac.qualname, "return (pre, post)",
                     f"the factory does not hand back the stated pre- / post-processing functions for every accepted name: {'; '.join(sorted(set(problems))[:3])}", loc=fac.loc())

    _weighted_estimators(ck, prog, rule)


def _leaves(prog: Program, f: Func, cls: Optional[Class] = None):
    from ..pathtable import PathTable
    hook = pkg_call_hook(prog, f.module, cls)
    return PathTable(prog, f.module, call_hook=hook).leaves([st for st in f.node.body])


def _apply_fn_value(prog: Program, module, fnval, arg, world):
    """What a function value (lambda, numpy function, package function, table entry) gives for `arg` in `world`."""
    from ..pathtable import specialise, tidy_items, apply_function_value
    got = tidy_items(specialise(sp.Function("call")(fnval, arg), world))
    if getattr(getattr(got, "func", None), "__name__", "") == "call" and getattr(got.args[0], "is_Symbol", False):
        v = apply_function_value(prog, module, got.args[0].name, [arg])
        if v is not None:
            got = tidy_items(specialise(v, world))
    return got


def factory_interface(prog: Program) -> Dict[str, Optional[int]]:
    """Positions of (pre-processing function, post-processing function, canonical distribution name) in the tuple returned by
    statistics._distribution_factory - found by what the elements *do* for the lognormal mean (the one that takes logarithms is the
    pre-processing function, the one that exponentiates the post-processing function, a name is the canonical name)."""
    from ..pathtable import PathTable, outcomes, specialise, tidy_items
    if getattr(prog, "_factory_iface", None) is not None:
        return prog._factory_iface
    f = prog.func("statistics._distribution_factory")
    allp = list(f.params) + [k for k in f.kwonly if k not in f.params]
    if not {"distribution", "calculation"} <= set(allp):
        raise AnalysisError(f"{f.qualname}: parameters are {allp}")
    leaves = PathTable(prog, f.module, unroll=True).leaves(f.node.body)
    world = {sp.Symbol("distribution", real=True): sp.Symbol("'lognormal'"), sp.Symbol("calculation", real=True): sp.Symbol("'mean'")}
    rows = [r for r in outcomes(leaves, world) if r["exit"] == "return" and not r["failed"]]
    if len(rows) != 1:
        raise AnalysisError(f"{f.qualname}: {len(rows)} returning paths for the lognormal mean")
    v = tidy_items(specialise(rows[0]["value"], world))
    if not isinstance(v, sp.Tuple):
        raise AnalysisError(f"{f.qualname}: does not return a tuple ({str(v)[:80]})")
    X = sp.Symbol("x", positive=True)
    out: Dict[str, Optional[int]] = {"pre": None, "post": None, "canon": None, "n": len(v)}
    for i, e in enumerate(v):
        if e == sp.Symbol("'lognormal'"):
            out["canon"] = i
            continue
        got = _apply_fn_value(prog, f.module, e, X, world)
        if equal(got, sp.log(X)):
            out["pre"] = i
        elif equal(got, sp.exp(X)):
            out["post"] = i
    if out["pre"] is None or out["post"] is None:
        raise AnalysisError(f"{f.qualname}: the returned tuple does not hold the pre- and post-processing functions ({str(v)[:120]})")
    try:
        prog._factory_iface = out
    except Exception:
        pass
    return out


def call_term(prog: Program, qualname: str, **given):
    """The canonical term of a call of a package function with the given arguments *by parameter name* (what pkg_call_hook
    produces for any spelling of such a call): independent of the order / keyword-only style of the callee's signature."""
    from ..expr import Translator as _T
    g = prog.func(qualname)
    names = list(g.params) + [k for k in g.kwonly if k not in g.params]
    missing = [k for k in given if k not in names]
    if missing:
        raise AnalysisError(f"{qualname}: no parameter named {missing} (parameters are {names})")
    defaults = g.defaults()
    args = []
    for p_ in names:
        if p_ in given and p_ in defaults and given[p_] == _T().tr(defaults[p_]):
            args.append(sp.Function("default")(given[p_]))       # the same normal form as a call that spells the default out
        elif p_ in given:
            args.append(given[p_])
        elif p_ in defaults:
            args.append(sp.Function("default")(_T().tr(defaults[p_])))
        else:
            args.append(sp.Symbol("<missing>"))
    return sp.Function(g.name)(*args)


def args_by_name(prog: Program, qualname: str, term) -> Dict[str, sp.Expr]:
    g = prog.func(qualname)
    names = list(g.params) + [k for k in g.kwonly if k not in g.params]
    return dict(zip(names, term.args))


def _weighted_estimators(ck: Checker, prog: Program, rule: str):
    """Decision tables of _nanmean_weighted / _nanstd_weighted / _nth_std_factory: on every returning path the value is the
    stated estimator of that path's case (default or given weights, normal or lognormal, 'nist' or 'cheng')."""
    from ..pathtable import literals, same_rel
    call, gi = sp.Function("call"), sp.Function("getitem")
    ns, NONE = sp.Function("nansum"), sp.Symbol("None")
    R = lambda n: sp.Symbol(n, real=True)   # noqa: E731
    dist, v, w, den_p = R("distribution"), R("values"), R("weights"), R("denominator")
    NAN = sp.nan

    def case(l, lit):
        # a literal about other quantities cannot be this one (cheap pre-filter before the symbolic comparison)
        ls = [x for x in literals(l) if getattr(x, "free_symbols", None) == lit.free_symbols]
        if any(same_rel(x, lit) for x in ls):
            return True
        from ..pathtable import negate
        if any(same_rel(x, negate(lit)) for x in ls):
            return False
        return None

    def weights_of(l, V, f):
        """(W, problem) for the leaf: the caller's weights, or unit weights with NaN where the value is NaN."""
        c = case(l, sp.Eq(w, NONE, evaluate=False))
        if c is None:
            return None, "the path does not decide whether weights were given"
        if c is False:
            return w, None
        W = l.env.get("weights")
        ones = [sp.Function("full_like")(V, sp.Integer(1)), sp.Function("ones_like")(V), sp.Integer(1)]     # np.ones_like(values) is read as 1 by the path table
        if W not in ones:
            return W, f"default weights are {W}, not unit weights of the shape of the values"
        hit = False
        for e in l.events:
            if e[0] == "store" and id(e[3]) in l.store_at:
                base, idx = l.store_at[id(e[3])]
                if base == W and idx == sp.Function("isnan")(V) and e[2] is NAN:
                    hit = True
        if not hit:
            return W, "default weights are not set to NaN where the (transformed) value is NaN: windows without a peak would be counted"
        return W, None

    for fname, calc in (("_nanmean_weighted", "mean"), ("_nanstd_weighted", "std")):
        f = prog.func(f"statistics.{fname}")
        allp = list(f.params) + [k for k in f.kwonly if k not in f.params]
        if not {"distribution", "values", "weights"} <= set(allp):
            raise AnalysisError(f"{f.qualname}: parameters are {allp}")
        iface = factory_interface(prog)
        fac = call_term(prog, "statistics._distribution_factory", distribution=dist, calculation=sp.Symbol(f"'{calc}'"))
        pre = lambda x: call(gi(fac, sp.Integer(iface["pre"])), x)    # noqa: E731
        post = lambda x: call(gi(fac, sp.Integer(iface["post"])), x)   # noqa: E731
        V = pre(v)
        leaves = _leaves(prog, f)
        rets = [l for l in leaves if l.exit == "return"]
        if not rets:
            raise AnalysisError(f"{f.qualname}: no returning path")
        n_ok = 0
        for l in rets:
            W, problem = weights_of(l, V, f)
            label = "default weights" if case(l, sp.Eq(w, NONE, evaluate=False)) else "given weights"
            if problem:
                ck.violation(rule, f.qualname, "default weights", f"{problem}", loc=f.loc())
                continue
            if calc == "mean":
                want = post(ns(V * W) / ns(W))
                what = "post(nansum(pre(v)*w)/nansum(w))"
            else:
                # the mean about which deviations are taken
                # the decision may be taken on the resolved name (any accepted spelling) - the raw spelling is reported by the alias rule
                DMs = R("DISTRIBUTION_MAP")
                low = sp.Function("lower")(dist)
                subjects = [dist] + [fn_(DMs, d_, *rest) for d_ in (dist, low) for fn_, rest in ((sp.Function("get"), (NONE,)), (sp.Function("get"), ()), (gi, ()))]
                if iface["canon"] is not None:
                    subjects.append(gi(fac, sp.Integer(iface["canon"])))       # the canonical name handed back by the factory
                logn = None
                for subj in subjects:
                    c_ = case(l, sp.Eq(subj, sp.Symbol("'lognormal'"), evaluate=False))
                    if c_ is not None:
                        logn = c_
                nist = case(l, sp.Eq(den_p, sp.Symbol("'nist'"), evaluate=False))
                cheng = case(l, sp.Eq(den_p, sp.Symbol("'cheng'"), evaluate=False))
                if logn is None:
                    ck.violation(rule, f.qualname, "lognormal mean in log space",
                                 "for the lognormal distribution the deviations are not taken about log(mean) (no case distinction on the distribution)", loc=f.loc())
                    continue
                M = None
                for a in sp.preorder_traversal(l.value):
                    if getattr(a, "func", None) is not None and getattr(a.func, "__name__", "") == "_nanmean_weighted":
                        M = a
                Ma = args_by_name(prog, "statistics._nanmean_weighted", M) if M is not None else {}
                # with no weights given, handing the mean the unit weights built here (NaN where the transformed value is NaN - checked
                # above as W) is the same as letting it build them itself
                w_ok = Ma.get("weights") == w or (case(l, sp.Eq(w, NONE, evaluate=False)) is True and Ma.get("weights") in (W, NONE, sp.Function("default")(NONE)))
                if M is None or [Ma.get("distribution"), Ma.get("values")] != [dist, v] or not w_ok:
                    ck.violation(rule, f.qualname, "numerator", f"deviations are not taken about _nanmean_weighted(distribution, values, weights) (found {M})", loc=f.loc())
                    continue
                Mx = sp.log(M) if logn else M
                if nist:
                    D = (1 - 1 / sp.Function("sum")(sp.Function("invert")(sp.Function("isnan")(W)))) * ns(W)
                    label += ", 'nist'"
                elif cheng:
                    D = 1 - ns(W ** 2)
                    label += ", 'cheng'"
                else:
                    ck.violation(rule, f.qualname, "denominator", f"a value is returned for a denominator that is neither 'nist' nor 'cheng'", loc=f.loc())
                    continue
                label += ", lognormal" if logn else ", other distribution"
                want = post(sp.sqrt(ns(W * (V - Mx) ** 2) / D))
                what = "post(sqrt(nansum(w*(pre(v) - mean)^2)/denominator))"
            if equal(l.value, want):
                n_ok += 1
                ck.ok(rule, f.qualname, f"{calc} [{label}] = {what}")
            else:
                ck.violation(rule, f.qualname, f"weighted {calc}", f"[{label}] returns {l.value}; expected {want}", loc=f.loc())
        ck.floor(rule, n_ok, 2 if calc == "mean" else 8, f"cases of {fname}") if False else None
        if calc == "std":
            for key in ("nist", "cheng"):
                if not any(case(l, sp.Eq(den_p, sp.Symbol(f"'{key}'"), evaluate=False)) for l in rets):
                    ck.violation(rule, f.qualname, f"denominator '{key}'", f"no branch for denominator == '{key}'", loc=f.loc())
            dflt = f.defaults().get("denominator")
            if isinstance(dflt, ast.Constant) and dflt.value == "nist":
                ck.ok(rule, f.qualname, "default denominator 'nist' (n-1 for unit weights)", nontrivial=False)
            else:
                ck.violation(rule, f.qualname, "default denominator", f"default denominator is {unparse(dflt) if dflt else None}, expected 'nist'", loc=f.loc())

    # ---- nth std: a table over the accepted spellings of the distribution
    _nth_std_table(ck, prog, rule)


def _nth_std_table(ck: Checker, prog: Program, rule: str):
    """_nth_std_factory under every key of DISTRIBUTION_MAP (and an unknown name): value = mean + n*std for the names of the normal
    assumption, exp(log(mean) + n*std) for the lognormal ones, anything else refused - whatever the layout (ladder, table of lambdas)."""
    from ..pathtable import PathTable, outcomes
    R = lambda n: sp.Symbol(n, real=True)   # noqa: E731
    f = prog.func("statistics._nth_std_factory")
    if not {"n", "distribution", "mean", "std"} <= set(list(f.params) + list(f.kwonly)):
        raise AnalysisError(f"{f.qualname}: parameters are {f.params} / {f.kwonly}")
    mean, std, n, dist = R("mean"), R("std"), R("n"), R("distribution")
    wants = {"normal": mean + n * std, "lognormal": sp.exp(sp.log(mean) + n * std)}
    leaves = PathTable(prog, f.module, call_hook=pkg_call_hook(prog, f.module, None), unroll=True).leaves(list(f.node.body))
    dm = prog.registry("constants", "DISTRIBUTION_MAP")
    worlds = [(k, v.value) for k, v in dm.items() if isinstance(v, ast.Constant)] + [("<other>", None)]
    if len(worlds) < 3:
        raise AnalysisError("DISTRIBUTION_MAP: fewer than two accepted names")
    problems: Dict[str, str] = {}
    for key, canon in worlds:
        rows = outcomes(leaves, {dist: sp.Symbol(f"'{key}'")})
        if not rows:
            raise AnalysisError(f"{f.qualname}: no path for the name '{key}'")
        for r in rows:
            if canon is None:
                if r["exit"] != "raise" and not r["failed"]:
                    problems["nth std case"] = f"a value ({r['value']}) is returned for a distribution that is neither 'normal' nor 'lognormal' after alias resolution"
                continue
            if canon not in wants:
                raise AnalysisError(f"DISTRIBUTION_MAP: canonical name '{canon}' not known")
            if r["exit"] == "raise" or r["failed"]:
                problems[f"nth std ({canon})"] = f"{canon} (spelled '{key}'): refused; expected {wants[canon]}"
            elif r["value"] is None or not equal(r["value"], wants[canon]):
                problems[f"nth std ({canon})"] = f"{canon} (spelled '{key}'): returns {r['value']}; expected {wants[canon]}"
    for k in wants:
        if f"nth std ({k})" not in problems:
            ck.ok(rule, f.qualname, f"{k}: {wants[k]}", detail=f"under every spelling of DISTRIBUTION_MAP that means {k}")
    for k, v in sorted(problems.items()):
        ck.violation(rule, f.qualname, k, v, loc=f.loc())


def _check_factory_unpack(ck: Checker, rule: str, f: Func, calc: str):
    """pre_fxn, post_fxn = _distribution_factory(distribution=distribution, calculation=<calc>)"""
    for st in f.node.body:
        if isinstance(st, ast.Assign) and isinstance(st.value, ast.Call) and call_name(st.value) == "_distribution_factory":
            t = st.targets[0]
            c = st.value
            d = kwarg(c, "distribution") or (c.args[0] if c.args else None)
            k = kwarg(c, "calculation") or (c.args[1] if len(c.args) > 1 else None)
            kval = k.value if isinstance(k, ast.Constant) else ("mean" if k is None else None)
            good = isinstance(t, ast.Tuple) and [unparse(e) for e in t.elts] == ["pre_fxn", "post_fxn"] \
                and isinstance(d, ast.Name) and d.id == "distribution" and kval == calc
            if good:
                ck.ok(rule, f.qualname, norm_key(st, 100))
            else:
                ck.violation(rule, f.qualname, norm_key(st, 100),
                             f"pre/post transforms are not those of ({unparse(d) if d else None}, calculation={kval!r}); expected calculation='{calc}'",
                             loc=f.loc(st))
            return
    ck.violation(rule, f.qualname, "_distribution_factory call", "the distribution transforms are not obtained from _distribution_factory", loc=f.loc())


def _check_default_weights(ck: Checker, rule: str, f: Func):
    blk = [st for st in f.node.body if isinstance(st, ast.If) and unparse(st.test) in ("weights is None", "weights == None")]
    if len(blk) != 1:
        ck.violation(rule, f.qualname, "default weights", "`if weights is None:` block not found", loc=f.loc())
        return
    body = blk[0].body
    ones = [st for st in body if isinstance(st, ast.Assign) and unparse(st.targets[0]) == "weights"]
    T = Translator()
    ok_ones = False
    if len(ones) == 1 and isinstance(ones[0].value, ast.Call):
        c = ones[0].value
        nm = call_name(c)
        if nm == "full_like" and len(c.args) >= 2:
            try:
                ok_ones = unparse(c.args[0]) == "values" and T.tr(c.args[1]) == 1
            except AnalysisError:
                ok_ones = False
        elif nm == "ones_like" and c.args:
            ok_ones = unparse(c.args[0]) == "values"
    # weights[isnan(values)] = nan  with values already transformed
    nan_store = False
    for st in body:
        if isinstance(st, ast.Assign) and isinstance(st.targets[0], ast.Subscript) and unparse(st.targets[0].value) == "weights":
            idx = st.targets[0].slice
            isnan_of_values = False
            if isinstance(idx, ast.Name):
                for d in f.node.body:
                    if isinstance(d, ast.Assign) and unparse(d.targets[0]) == idx.id and isinstance(d.value, ast.Call) \
                            and call_name(d.value) == "isnan" and unparse(d.value.args[0]) == "values":
                        # defined after the pre-transform of values
                        pre = [x for x in f.node.body if isinstance(x, ast.Assign) and unparse(x.targets[0]) == "values"]
                        isnan_of_values = bool(pre) and pre[0].lineno < d.lineno
            elif isinstance(idx, ast.Call) and call_name(idx) == "isnan" and unparse(idx.args[0]) == "values":
                isnan_of_values = True
            val_nan = unparse(st.value) in ("np.nan", "numpy.nan", "float('nan')", "np.NaN")
            nan_store = isnan_of_values and val_nan
    if ok_ones and nan_store:
        ck.ok(rule, f.qualname, "default weights = 1 with NaN where the value is NaN", detail="absent peaks are excluded from sums and counts")
    else:
        ck.violation(rule, f.qualname, "default weights",
                     f"default weights: unit weights={ok_ones}, NaN at NaN values={nan_store} - windows without a peak (NaN) would be "
                     f"counted in the normalisation", loc=f.loc(blk[0]))


def _string_ladder(f: Func, subject: str, returns: bool = False) -> Dict[str, ast.stmt]:
    """if subject == 'a': <assign/return> elif subject == 'b': ... -> {'a': stmt, 'b': stmt}"""
    out: Dict[str, ast.stmt] = {}
    for st in own_nodes(f.node):
        if isinstance(st, ast.If) and isinstance(st.test, ast.Compare) and isinstance(st.test.left, ast.Name) \
                and st.test.left.id == subject and isinstance(st.test.ops[0], ast.Eq) \
                and isinstance(st.test.comparators[0], ast.Constant) and isinstance(st.test.comparators[0].value, str):
            key = st.test.comparators[0].value
            for b in st.body:
                if returns and isinstance(b, ast.Return):
                    out[key] = b
                if not returns and isinstance(b, ast.Assign) and unparse(b.targets[0]) == subject:
                    out[key] = b
    return out


# --------------------------------------------------------------------------- accessor tables
def _canon_counts(e):
    """count_nonzero(mask) and sum(mask) count the accepted windows alike."""
    return e.replace(sp.Function("count_nonzero"), sp.Function("sum"))


def gather_normal_form(v):
    """One vector made of the entries of a list of 1-d vectors: np.array(_flatten_list(X)), np.concatenate(X), np.hstack(X) are the
    same vector `flat(X)`."""
    fn = lambda x: getattr(getattr(x, "func", None), "__name__", "")      # noqa: E731
    if v is None or not hasattr(v, "replace"):
        return v
    FLAT = sp.Function("flat")
    for _ in range(3):
        # [f for f in X] (also with a type-preserving conversion per element, stripped by the translator) is X
        v = v.replace(lambda x: fn(x) == "comp" and len(x.args) == 2 and fn(x.args[1]) == "gen" and len(x.args[1].args) == 2 and x.args[0] == x.args[1].args[0],
                      lambda x: x.args[1].args[1])
        v2 = v.replace(lambda x: fn(x) in ("array", "asarray") and len(x.args) >= 1 and fn(x.args[0]) in ("_flatten_list", "flat"), lambda x: FLAT(x.args[0].args[0]))
        v2 = v2.replace(lambda x: fn(x) == "_flatten_list" and len(x.args) == 1, lambda x: FLAT(x.args[0]))
        v2 = v2.replace(lambda x: fn(x) in ("concatenate", "hstack") and len(x.args) == 1, lambda x: FLAT(x.args[0]))
        if v2 == v:
            break
        v = v2
    return v


def expand_properties(e, prog: Program, cls: Class, depth: int = 0):
    """`self.<p>` where <p> is a property of the class with one returning path and no refusal is that path's value (the
    accessor may read the stored vectors directly or through the property: the same value)."""
    if e is None or not hasattr(e, "free_symbols") or depth > 3:
        return e
    cache = prog.__dict__.setdefault("_prop_values", {})
    sub = {}
    for sym in e.free_symbols:
        nm = sym.name
        if not nm.startswith("self.") or "." in nm[5:]:
            continue
        m = cls.find_method(nm[5:])
        if m is None or "property" not in m.decorators:
            continue
        key = m.qualname
        if key not in cache:
            try:
                lv = _leaves(prog, m, cls)
                cache[key] = lv[0].value if (len(lv) == 1 and lv[0].exit == "return" and lv[0].value is not None) else None
            except AnalysisError:
                cache[key] = None
        if cache[key] is not None and sym not in cache[key].free_symbols:
            sub[sym] = cache[key]
    # self.<accessor>(args) with one returning path: that path's value for these arguments
    from sympy.core.function import AppliedUndef
    for app in e.atoms(AppliedUndef):
        nm = app.func.__name__
        if not app.args or getattr(app.args[0], "name", None) != "self":
            continue
        m = cls.find_method(nm)
        if m is None or m.decorators or m.kind != "method":
            continue
        key = m.qualname
        if key not in cache:
            try:
                lv = [l for l in _leaves(prog, m, cls)]
                cache[key] = lv[0].value if (len(lv) == 1 and lv[0].exit == "return" and lv[0].value is not None) else None
            except AnalysisError:
                cache[key] = None
        val = cache[key]
        if val is None or len(app.args) - 1 > len(m.params) - 1 or val.has(app.func):
            continue
        names = list(m.params[1:])
        given = dict(zip(names, app.args[1:]))
        if len(given) != len(names):
            continue            # defaults are not guessed
        by_name = {x.name: x for x in val.free_symbols}
        sub[app] = val.xreplace({by_name[k]: v for k, v in given.items() if k in by_name})
    if not sub:
        return e
    return expand_properties(e.xreplace(sub), prog, cls, depth + 1)


def check_accessor_table(ck: Checker, prog: Program, cls: Class, rule: str, table: Dict[str, List[str]], guards: Optional[Dict[str, Dict[str, str]]] = None):
    """Every returning path of each accessor yields one of the expected expressions (all listed ones present); `guards`
    optionally names, per accessor, the condition under which an expected expression must be returned
    ({accessor: {expected source: guard source}}) and `"raise": guard` for a refusal."""
    from ..pathtable import literals, same_rel
    guards = guards or {}
    for name, wants in table.items():
        m = cls.methods.get(name)
        if m is None:
            ck.violation(rule, f"{cls.module.name}.{cls.name}", name, f"accessor {name} not found", loc="")
            continue
        leaves = _leaves(prog, m, cls)
        rets = [l for l in leaves if l.exit == "return"]
        want_exprs = [expand_properties(_canon_counts(expect(prog, m, w, cls)), prog, cls) for w in wants]
        used = set()
        g = guards.get(name, {})
        for l in rets:
            got = expand_properties(_canon_counts(l.value), prog, cls) if l.value is not None else None
            hit = None
            for i, w in enumerate(want_exprs):
                if got is not None and equal(gather_normal_form(got), gather_normal_form(w)):
                    hit = i
            if hit is None:
                ck.violation(rule, m.qualname, f"return {str(got)[:90]}",
                             f"return value `{got}` is not the stated estimator (expected one of: {'; '.join(wants)})", loc=m.loc())
                continue
            used.add(hit)
            gsrc = g.get(wants[hit])
            if gsrc is not None:
                grel = _canon_counts(expect(prog, m, gsrc, cls))
                lits = [_canon_counts(x) for x in literals(l)]
                if not any(same_rel(x, grel) for x in lits):
                    ck.violation(rule, m.qualname, "window count guard",
                                 f"{name}: `{wants[hit]}` is returned under {lits}, not exactly when `{gsrc}`", loc=m.loc())
                    continue
            ck.ok(rule, m.qualname, f"returns {wants[hit][:100]}" + (f" when {gsrc}" if gsrc else ""))
        if "raise" in g:
            grel = _canon_counts(expect(prog, m, g["raise"], cls))
            ok_r = any(l.exit == "raise" and any(same_rel(_canon_counts(x), grel) for x in literals(l)) for l in leaves)
            if ok_r:
                ck.ok(rule, m.qualname, f"refuses when {g['raise']}", nontrivial=False)
            else:
                ck.violation(rule, m.qualname, "window count guard", f"{name}: does not refuse when `{g['raise']}`", loc=m.loc())
        for i, w in enumerate(wants):
            if i not in used:
                ck.violation(rule, m.qualname, f"missing: {w}", f"no return path of {name} yields `{w}`", loc=m.loc())


CANONICAL_NAMES = ("normal", "lognormal")


def check_alias_discipline(ck: Checker, prog: Program, rule: str, modules=("statistics", "hvsr_traditional", "hvsr_azimuthal"), floor: int = 6):
    """A distribution may be named by any key of DISTRIBUTION_MAP ("log-normal" is the lognormal assumption).  Every decision
    that compares a distribution name with a canonical literal must therefore look at the *resolved* name: a value that came
    out of DISTRIBUTION_MAP, never the caller's raw spelling.  (Engler-style contradiction: the statistics helpers resolve the
    name on one path; a path that compares the raw name disagrees with them for every alias.)"""
    from ..dataflow import reaching, PARAM
    dm = prog.registry("constants", "DISTRIBUTION_MAP")
    aliases = [k for k, v in dm.items() if isinstance(v, ast.Constant) and k != v.value]
    n = 0
    for mname in modules:
        mod = prog.module(mname)
        for f in [g for g in prog.funcs.values() if g.module is mod and g.kind != "lambda" and g.qualname not in getattr(prog, "absorbed", set())]:
            sites = []
            for c in own_nodes(f.node):
                if isinstance(c, ast.Compare) and len(c.ops) == 1 and isinstance(c.ops[0], (ast.Eq, ast.NotEq)):
                    a, b = c.left, c.comparators[0]
                    for x, y in ((a, b), (b, a)):
                        if isinstance(x, ast.Name) and isinstance(y, ast.Constant) and y.value in CANONICAL_NAMES:
                            sites.append((c, x))
            if not sites:
                continue
            rd = reaching(f)
            for c, x in sites:
                n += 1
                defs = rd.def_stmts(x.id, c)

                def resolved(d, name=x.id):
                    if d is PARAM or not isinstance(d, ast.Assign):
                        return False
                    if "DISTRIBUTION_MAP" in {nn.id for nn in ast.walk(d.value) if isinstance(nn, ast.Name)}:
                        return True
                    # the canonical name handed back by _distribution_factory
                    if isinstance(d.value, ast.Call) and call_name(d.value) == "_distribution_factory" and isinstance(d.targets[0], (ast.Tuple, ast.List)):
                        try:
                            ic = factory_interface(prog)["canon"]
                        except AnalysisError:
                            return False
                        els = d.targets[0].elts
                        return ic is not None and ic < len(els) and isinstance(els[ic], ast.Name) and els[ic].id == name
                    return False
                raw = [d for d in defs if not resolved(d)]
                if not raw:
                    ck.ok(rule, f.qualname, norm_key(c), detail="compares the name resolved through DISTRIBUTION_MAP")
                else:
                    ck.violation(rule, f.qualname, f"raw distribution name compared: {norm_key(c)}",
                                 f"`{unparse(c)}` looks at the caller's spelling of the distribution, not the name resolved through DISTRIBUTION_MAP: "
                                 f"for the accepted alias(es) {aliases} this decision differs from the one taken by the helpers that do resolve it "
                                 f"(the lognormal statistic is then computed with a linear-space term)", loc=f.loc(c))
    ck.floor(rule, n, floor, "comparisons of a distribution name with a canonical literal")


MASK_ATTRS = ("valid_window_boolean_mask", "valid_peak_boolean_mask")


def check_mask_properties(ck: Checker, prog: Program, rule: str, classes=("HvsrTraditional", "HvsrAzimuthal", "HvsrDiffuseField")):
    """The accept masks are what was last stored in them.  When a mask is a property, the pair (setter, getter) must hand back the
    stored value: the setter stores its argument - as given or through a conversion of the argument alone (np.array(x, dtype=bool),
    np.asarray(x), x.copy(), list(x)) - and the getter returns that storage.  A setter that combines the argument with other state
    of the object changes the decisions of whoever assigns the mask."""
    n = 0
    for cname in classes:
        cls = prog.classes.get(cname)
        if cls is None:
            continue
        for attr in MASK_ATTRS:
            st = cls.methods.get(f"{attr}.setter")
            gt = cls.methods.get(attr)
            if st is None:
                if gt is not None and gt.kind == "property" and cname != "HvsrAzimuthal" and any(
                        isinstance(x, ast.Attribute) and x.attr == attr and isinstance(x.ctx, ast.Store) for m in cls.methods.values() for x in ast.walk(m.node)):
                    raise AnalysisError(f"{cname}.{attr} is a read-only property but is assigned in the class")
                continue
            n += 1
            body = [b for b in st.node.body if not (isinstance(b, ast.Expr) and isinstance(b.value, ast.Constant))]
            par = st.params[1] if len(st.params) > 1 else None
            stores = [b for b in body if isinstance(b, ast.Assign) and len(b.targets) == 1 and isinstance(b.targets[0], ast.Attribute)
                      and isinstance(b.targets[0].value, ast.Name) and b.targets[0].value.id == st.params[0]]
            if par is None or len(stores) != 1 or any(isinstance(b, (ast.For, ast.While, ast.Try, ast.With)) for b in body):
                raise AnalysisError(f"{st.qualname}: setter not recognised")
            slot = stores[0].targets[0].attr
            v = stores[0].value
            # local conversions of the argument before the store
            conv = {par}
            for b in body:
                if isinstance(b, ast.Assign) and len(b.targets) == 1 and isinstance(b.targets[0], ast.Name) and _converts_only(b.value, conv):
                    conv.add(b.targets[0].id)
            if _converts_only(v, conv):
                g_ok = gt is not None and any(isinstance(r.value, ast.Attribute) and r.value.attr == slot and isinstance(r.value.value, ast.Name)
                                              and r.value.value.id == gt.params[0] for r in returns_of(gt)) and len(returns_of(gt)) == 1
                if g_ok:
                    ck.ok(rule, st.qualname, f"{attr}: the setter stores its argument, the getter returns it")
                else:
                    ck.violation(rule, gt.qualname if gt else st.qualname, f"{attr} getter", f"`{attr}` does not read back what its setter stored in `{slot}`",
                                 loc=(gt or st).loc())
            else:
                names = sorted({x.attr for x in ast.walk(v) if isinstance(x, ast.Attribute) and isinstance(x.value, ast.Name) and x.value.id == st.params[0]})
                ck.violation(rule, st.qualname, f"{attr} setter",
                             f"assigning `{attr}` does not store the assigned mask: the setter stores `{ast.unparse(v)[:90]}`"
                             + (f" (combined with {names})" if names else "") + "; the accept/reject decisions of the caller are altered on the way in",
                             loc=st.loc(stores[0]))
    return n


def _converts_only(e: ast.AST, names) -> bool:
    """`e` is one of `names` or a type / container conversion of it alone."""
    if isinstance(e, ast.Name):
        return e.id in names
    if isinstance(e, ast.Call):
        nm = e.func.attr if isinstance(e.func, ast.Attribute) else (e.func.id if isinstance(e.func, ast.Name) else "")
        if nm in ("array", "asarray", "asanyarray", "ascontiguousarray", "list", "tuple", "copy", "deepcopy", "bool_", "atleast_1d") and e.args \
                and _converts_only(e.args[0], names) and all(k.arg in ("dtype", "copy") for k in e.keywords) and len(e.args) <= 2:
            return True
        if nm in ("copy", "astype") and isinstance(e.func, ast.Attribute) and _converts_only(e.func.value, names):
            return nm == "copy" or (e.args and ast.unparse(e.args[0]) in ("bool", "np.bool_"))
    return False


def check_distribution_names(ck: Checker, prog: Program, rule: str, modules=("hvsr_traditional", "hvsr_azimuthal", "hvsr_diffuse_field", "window_rejection", "object_io", "postprocessing")):
    """(a) The alias table maps every accepted spelling to the distribution it spells: a key with its hyphens, underscores and blanks
    removed is its value ("log-normal" is the lognormal assumption).  (b) Sibling consistency of defaults: every parameter named
    `distribution*` of the result classes and of the functions that report their statistics defaults to the lognormal assumption -
    an accessor with another default disagrees with its siblings for every caller that relies on the defaults (cov_fn() next to
    std_fn_frequency())."""
    dm = prog.registry("constants", "DISTRIBUTION_MAP")
    n = 0
    for k, v in dm.items():
        n += 1
        val = v.value if isinstance(v, ast.Constant) else None
        spelled = k.lower().replace("-", "").replace("_", "").replace(" ", "")
        if val in CANONICAL_NAMES and spelled == val:
            ck.ok(rule, "constants.DISTRIBUTION_MAP", f"'{k}' -> '{val}'", nontrivial=False)
        else:
            ck.violation(rule, "constants.DISTRIBUTION_MAP", f"'{k}'", f"the accepted spelling '{k}' is mapped to {val!r}: statistics asked for under that name use the other assumption",
                         loc=f"hvsrpy/constants.py:{getattr(v, 'lineno', 0)}")
    ck.floor(rule, n, 3, "accepted spellings of the distributions")
    lognormal = {k for k, v in dm.items() if isinstance(v, ast.Constant) and v.value == "lognormal"}
    m = 0
    for f in prog.funcs.values():
        if f.module.name not in modules or f.kind == "lambda":
            continue
        d = f.defaults()
        for p in list(f.params) + list(f.kwonly):
            if not p.startswith("distribution") or p not in d:
                continue
            dv = d[p]
            if not (isinstance(dv, ast.Constant) and isinstance(dv.value, str)):
                continue
            m += 1
            if dv.value in lognormal:
                continue
            ck.violation(rule, f.qualname, f"default of {p}", f"`{p}` defaults to {dv.value!r} here while every sibling defaults to the lognormal assumption: callers that rely on "
                         f"the defaults get statistics under two different assumptions", loc=f.loc())
    ck.floor(rule, m, 40, "defaults of distribution parameters")
    ck.ok(rule, "distribution defaults", f"{m} parameters default to the lognormal assumption")
    # (c) the weighted standard deviation moves the mean to log space under its own test of the distribution name while the values are
    #     moved by the transform _distribution_factory selects: both must read the alias table with the same key (same case folding),
    #     or a spelling accepted by one and not the other subtracts a linear mean from logged values
    fac, std = prog.funcs.get("statistics._distribution_factory"), prog.funcs.get("statistics._nanstd_weighted")
    if fac is not None and std is not None:
        def keys(f):
            out = []
            for c in own_nodes(f.node):
                k = None
                if isinstance(c, ast.Call) and isinstance(c.func, ast.Attribute) and c.func.attr == "get" and isinstance(c.func.value, ast.Name) \
                        and c.func.value.id == "DISTRIBUTION_MAP" and c.args:
                    k = c.args[0]
                elif isinstance(c, ast.Subscript) and isinstance(c.value, ast.Name) and c.value.id == "DISTRIBUTION_MAP" and isinstance(c.ctx, ast.Load):
                    k = c.slice
                if k is not None:
                    names = {n.id for n in ast.walk(k) if isinstance(n, ast.Name)}
                    ps = [p_ for p_ in f.params if p_ in names]
                    if len(ps) == 1:
                        out.append((Translator(env={ps[0]: sp.Symbol("<name>", real=True)}).tr(k), c))
            return out
        fk, sk = keys(fac), keys(std)
        if fk and sk:
            forms = {str(k) for k, _c in fk}
            for k, c in sk:
                if str(k) in forms:
                    ck.ok(rule, std.qualname, "the mean is moved to log space under the key the transform table is read with", nontrivial=False)
                else:
                    ck.violation(rule, std.qualname, "alias table key",
                                 f"the weighted mean is moved to log space when DISTRIBUTION_MAP[{k}] is lognormal while the values are transformed according to "
                                 f"DISTRIBUTION_MAP[{sorted(forms)[0]}]: for a spelling only one of the two accepts, a linear mean is subtracted from logged values",
                                 loc=std.loc(c))
