"""C15 - settings round-trip through files and are independent of one another."""
from __future__ import annotations

import ast

import sympy as sp
from typing import Dict, List, Optional, Set, Tuple

from ..astutil import call_name, calls_in, own_nodes, unparse, kwarg, names_loaded, dotted
from ..effects import fmt_origin
from ..model import AnalysisError, Class, Program, norm_key, parent_of
from ..report import Checker
from .common import engine, reachable_nonlocal, group_effects, describe_effect, chain_text

EXPLANATION = (
    "Table extraction over the 12 settings classes and the type-dispatching reader plus effect/freshness "
    "analysis of the constructors. Decided: (R1) in every class the names added to self.attrs equal the "
    "attributes stored by that __init__; (R2) every __init__ parameter is forwarded by keyword to "
    "super().__init__ or stored under its own name from its own value, and every base parameter is supplied; "
    "(R3) evaluating the dispatcher ladder of read_settings_object_from_file on the default key values of each "
    "of the 8 public classes constructs exactly that class, which is then load()ed and returned, with no "
    "memoising decorator on the I/O path; (R4) save dumps attr_dict, attr_dict visits every name of attrs and "
    "converts arrays (also inside dicts) with tolist, load sets every key unconditionally; attr_dict/save do "
    "not modify the object; (R5) no shared state: no object reachable from a stored attribute is a default-"
    "argument object, a module-level object, or (for parameters with mutable defaults) the argument itself, at "
    "any nesting depth. Not decided: that processing with reloaded settings is bit-identical (JSON float "
    "round trip, assumption 2).")

RULES = {
    "C15.R1": "names added to self.attrs == attributes stored in the same __init__",
    "C15.R2": "each parameter forwarded by keyword to super().__init__ or stored under its own name; base parameters all supplied",
    "C15.R3": "dispatcher constructs the class whose default keys it is given; loads and returns it; no caching decorator",
    "C15.R4": "save -> attr_dict (all attrs, arrays via tolist, also in dicts); load sets every key; both read-only on the object",
    "C15.R5": "stored attributes share no object with defaults, module state or mutable-default arguments (deep)",
}


def _settings_classes(prog: Program) -> List[Class]:
    base = prog.cls("Settings")
    return [c for c in prog.classes.values() if base in c.mro() and c.module.name == "settings"]


def _init_facts(c: Class):
    init = c.methods.get("__init__")
    if init is None:
        return None
    added: List[str] = []
    stored: Dict[str, ast.AST] = {}
    super_call = None
    for st in own_nodes(init.node):
        if isinstance(st, ast.Call) and isinstance(st.func, ast.Attribute):
            if st.func.attr in ("extend", "append") and unparse(st.func.value) == "self.attrs" and st.args:
                a = st.args[0]
                elts = a.elts if isinstance(a, (ast.List, ast.Tuple)) else [a]
                for e in elts:
                    if not isinstance(e, ast.Constant):
                        raise AnalysisError(f"{init.qualname}: non-literal attribute name in self.attrs")
                    added.append(e.value)
            if st.func.attr == "__init__" and isinstance(st.func.value, ast.Call) and call_name(st.func.value) == "super":
                super_call = st
        if isinstance(st, ast.Assign):
            for t in st.targets:
                if isinstance(t, ast.Attribute) and isinstance(t.value, ast.Name) and t.value.id == "self":
                    if t.attr == "attrs":
                        if isinstance(st.value, (ast.List, ast.Tuple)):
                            added += [e.value for e in st.value.elts if isinstance(e, ast.Constant)]
                    else:
                        stored[t.attr] = st
    return init, added, stored, super_call


def delivers(prog: Program, cls, pname: str, depth: int = 0) -> bool:
    """Does `cls(pname=X)` end with `self.pname` computed from X (stored directly or forwarded up the chain)?"""
    facts = _init_facts(cls)
    if facts is None or depth > 6:
        for b in cls.mro()[1:]:
            if "__init__" in b.methods:
                return delivers(prog, b, pname, depth + 1)
        return False
    init, _added, stored, super_call = facts
    if pname not in init.params:
        return False
    if pname in stored and _param_sources(init, stored[pname]) == {pname}:
        why = lossy_conversion(init, stored[pname])
        if why is not None:
            delivers.why = f"{init.qualname}: {why}"
            return False
        return True
    if super_call is not None:
        fwd = {k.arg: k.value for k in super_call.keywords if k.arg}
        if pname in fwd and isinstance(fwd[pname], ast.Name) and fwd[pname].id == pname:
            for b in cls.mro()[1:]:
                if "__init__" in b.methods:
                    return delivers(prog, b, pname, depth + 1)
    return False


delivers.why = ""


def check_delivery(ck: Checker, prog: Program, rule: str, class_names, only=None, why: str = "", floor: int = 1):
    """Every constructor argument of the named settings classes ends up stored on the object under its own name (directly or
    through the base-class chain).  A dropped argument silently replaces the requested setting by the base-class default."""
    n = 0
    for cname in class_names:
        c = prog.cls(cname)
        init = c.methods.get("__init__")
        if init is None:
            continue
        for p_ in init.params[1:]:
            if only is not None and p_ not in only:
                continue
            n += 1
            delivers.why = ""
            if delivers(prog, c, p_):
                ck.ok(rule, init.qualname, f"constructor argument {p_} is stored")
            elif delivers.why:
                ck.violation(rule, init.qualname, f"constructor argument {p_}",
                             f"`{p_}` handed to {cname}(...) is not stored as given ({delivers.why}){': ' + why if why else ''}", loc=init.loc())
            else:
                ck.violation(rule, init.qualname, f"constructor argument {p_}",
                             f"`{p_}` handed to {cname}(...) is not stored (the base-class default is used instead){': ' + why if why else ''}",
                             loc=init.loc())
    ck.floor(rule, n, floor, "constructor arguments of the settings classes")


def check_default_sharing(ck: Checker, prog: Program, rule: str, c, flagged=None):
    """No attribute stored by the constructor of settings class `c` shares an object with a default argument, a module-level
    object or a mutable default of one of its parameters (deep, through the effect engine's heap)."""
    eng = engine(prog)
    flagged = flagged if flagged is not None else set()
    facts = _init_facts(c)
    if facts is None:
        return
    init = facts[0]
    s = eng.summary(init)
    mutable_default_params = set()
    for pname, dnode in init.defaults().items():
        dv = eng.default_value(init, pname, dnode)
        if any(o[0] == "G" for o in dv.origins):
            mutable_default_params.add(init.params.index(pname))
    for (o, fld), (val, _strong) in sorted(s.heap.items(), key=lambda kv: str(kv[0])):
        if o != ("P", 0, ()) or fld in ("attrs",):
            continue
        if any((b.name, fld) in flagged for b in c.mro()[1:]):
            continue      # the sink lives in a base class and is reported there
        bad = []
        for (path, org) in reachable_nonlocal(eng, s, val):
            if org[0] == "G":
                bad.append((path, org))
            elif org[0] == "P" and org[1] in mutable_default_params:
                bad.append((path, org))
        if bad:
            path, org = bad[0]
            what = "the default-argument object" if org[0] == "G" and "<default" in org[1] else \
                ("a module-level object" if org[0] == "G" else f"the argument `{init.params[org[1]]}` (whose default is a shared mutable object)")
            flagged.add((c.name, fld))
            ck.violation(rule, init.qualname, f"self.{fld}",
                         f"`self.{fld}{''.join('.' + x for x in path)}` is {what} ({fmt_origin(org)}): settings objects share state",
                         loc=init.loc())
        else:
            ck.ok(rule, init.qualname, f"self.{fld}", detail=f"origin {_short(val)}")


FLOATISH = ("float", "np.float64", "np.double", "numpy.float64", "numpy.double", "np.longdouble", "np.float_", "'float64'", "'float'", '"float64"', '"float"',
            "object", "str", "bool", "complex", "np.complex128")
LOSSY_CALLS = {"int", "round", "around", "rint", "floor", "ceil", "trunc", "fix", "sort", "sorted", "unique", "abs", "fabs", "absolute", "flip", "reversed", "set",
               "frozenset", "clip", "mod", "fmod", "remainder"}


def lossy_conversion(init, st: ast.Assign) -> Optional[str]:
    """A reason when the value stored for a constructor argument goes through a conversion that can change it (integer / reduced
    precision dtype, rounding, sorting, de-duplication, absolute value, wrapping) - through local temporaries as well."""
    from ..dataflow import value_sources
    _srcs, stmts = value_sources(init, st.value, st)
    for node in [st.value] + [getattr(x, "value", x) for x in stmts]:
        if node is None:
            continue
        for c in ast.walk(node):
            if not isinstance(c, ast.Call):
                continue
            dt = kwarg(c, "dtype")
            if dt is not None and unparse(dt) not in FLOATISH:
                return f"`{norm_key(c, 70)}` converts to {unparse(dt)}"
            nm = call_name(c)
            if nm == "astype" and c.args and unparse(c.args[0]) not in FLOATISH:
                return f"`{norm_key(c, 70)}` converts to {unparse(c.args[0])}"
            if nm in LOSSY_CALLS and (isinstance(c.func, ast.Name) or (isinstance(c.func, ast.Attribute) and isinstance(c.func.value, ast.Name) and c.func.value.id in ("np", "numpy", "math"))):
                return f"`{norm_key(c, 70)}` changes the value given"
        for b in ast.walk(node):
            if isinstance(b, ast.BinOp) and isinstance(b.op, (ast.Mod, ast.FloorDiv)):
                return f"`{norm_key(b, 70)}` changes the value given"
            # `x or default` / `x if x else default`: every falsy value (0, 0.0, an empty sequence, False) is replaced, not only None
            if isinstance(b, ast.BoolOp) and isinstance(b.op, ast.Or) and isinstance(b.values[0], ast.Name) and b.values[0].id in init.params \
                    and not (isinstance(b.values[-1], (ast.Dict, ast.List, ast.Tuple, ast.Set)) and not getattr(b.values[-1], "elts", getattr(b.values[-1], "keys", None))):
                return f"`{norm_key(b, 70)}` replaces a given value of 0 / False / empty by `{unparse(b.values[-1])}`"
            if isinstance(b, ast.IfExp) and isinstance(b.test, ast.Name) and b.test.id in init.params and isinstance(b.body, ast.Name) and b.body.id == b.test.id \
                    and not (isinstance(b.orelse, (ast.Dict, ast.List, ast.Tuple, ast.Set)) and not getattr(b.orelse, "elts", getattr(b.orelse, "keys", None))):
                return f"`{norm_key(b, 70)}` replaces a given value of 0 / False / empty by `{unparse(b.orelse)}`"
    return None


def check_stored_as_given(ck: Checker, prog: Program, rule: str, class_names, fields, why: str):
    """Result containers keep the vectors they are built from as given - same values, same order, same pairing of entries."""
    n = 0
    for cname in class_names:
        c = prog.cls(cname)
        init = c.find_method("__init__")
        if init is None:
            raise AnalysisError(f"{cname}.__init__ not found")
        for fld in fields:
            sts = [st for st in own_nodes(init.node) if isinstance(st, ast.Assign) and any(unparse(t) == f"self.{fld}" for t in st.targets)]
            for st in sts:
                n += 1
                lossy = lossy_conversion(init, st)
                srcs = _param_sources(init, st)
                if lossy is not None:
                    ck.violation(rule, init.qualname, f"self.{fld} [conversion]", f"`{fld}` is not stored as given: {lossy} ({why})", loc=init.loc(st))
                elif srcs and fld in init.params and fld not in srcs:
                    ck.violation(rule, init.qualname, f"self.{fld} [source]", f"`self.{fld}` is computed from {sorted(srcs)}, not from the argument `{fld}` ({why})", loc=init.loc(st))
                else:
                    ck.ok(rule, init.qualname, f"self.{fld} stored as given", nontrivial=False)
    ck.floor(rule, n, 1, "stored vectors of result containers")


def _param_sources(init, st: ast.Assign) -> Set[str]:
    """Constructor parameters the stored value is computed from (through local temporaries)."""
    from ..dataflow import value_sources
    srcs, _stmts = value_sources(init, st.value, st)
    return set(srcs) & set(init.params)


def _plain_json_reads(ck: Checker, prog: Program):
    """What a settings file holds is what is loaded: json.load / json.loads are called without parse_int / parse_float / parse_constant /
    object_hook / object_pairs_hook / cls (an integer read back as a float is refused as an FFT length; a hook may drop or rename keys)."""
    n = 0
    for f in prog.funcs.values():
        if f.module.name not in ("settings", "object_io") or f.kind == "lambda":
            continue
        for c in own_nodes(f.node):
            if isinstance(c, ast.Call) and dotted(c.func) in ("json.load", "json.loads"):
                n += 1
                extra = [k.arg for k in c.keywords if k.arg in ("parse_int", "parse_float", "parse_constant", "object_hook", "object_pairs_hook", "cls") or k.arg is None]
                if extra:
                    ck.violation("C15.R1", f.qualname, f"{dotted(c.func)}({', '.join(str(e) for e in extra)}=...)",
                                 f"`{norm_key(c, 80)}` converts what the file holds while reading ({extra[0]}): the loaded object is not the saved one "
                                 f"(an integer FFT length comes back as a float and is refused)", loc=f.loc(c))
                else:
                    ck.ok("C15.R1", f.qualname, f"{dotted(c.func)} reads the file as it is", nontrivial=False)
    ck.floor("C15.R1", n, 2, "json reads of settings")


def run(ck: Checker, prog: Program, tier: str):
    eng = engine(prog)
    classes = _settings_classes(prog)
    ck.floor("C15.R1", len(classes), 12, "settings classes")
    public = prog.module("settings").all_names or []
    ck.floor("C15.R3", len(public), 8, "public settings classes in __all__")

    ck.guard(_plain_json_reads, ck, prog)
    flagged = set()
    check_constructors(ck, prog, classes, flagged)
    ck.guard(_r3, ck, prog, public)
    ck.guard(_r4, ck, prog)
    ck.guard(check_type_agnostic_reads, ck, prog, "C15.R4")
    ck.guard(_copy_hooks, ck, prog, classes)
    # "settings objects do not share state": what process() stores into the settings it is given (the FFT length) is an object of
    # its own, never module-level state that the next settings object would receive too (effect rules of C09)
    from . import c09
    with ck.borrow(c09, "C15.R5+"):
        ck.guard(c09._entry_effects, ck, prog, ("R2a", "R2b"))
        ck.guard(c09._r2c, ck, prog)        # ... and into a private deep copy: the caller's object keeps matching its saved file
    ck.extra["calls_resolved"] = eng.calls_resolved
    from .common import check_identity_comparisons as _cic
    ck.guard(_cic, ck, prog, "C15.R1", "C15")


def check_constructors(ck: Checker, prog: Program, classes, flagged=None):
    """R1 / R2 / R5 for the given settings classes: attrs list = stored attributes; every constructor argument stored under its
    own name or forwarded to the base class; no mutable default shared between instances."""
    flagged = set() if flagged is None else flagged
    for c in sorted(classes, key=lambda x: len(x.mro())):
        facts = _init_facts(c)
        if facts is None:
            continue
        init, added, stored, super_call = facts
        # ------------------------------------------------------------ R1
        if sorted(added) == sorted(stored) and len(set(added)) == len(added):
            ck.ok("C15.R1", init.qualname, f"attrs += {sorted(added)}")
        else:
            miss = sorted(set(stored) - set(added))
            extra = sorted(set(added) - set(stored))
            ck.violation("C15.R1", init.qualname, "attrs vs stored attributes",
                         f"stored but not listed in attrs (not saved / not compared): {miss}; listed but never stored: {extra}",
                         loc=init.loc())
        # ------------------------------------------------------------ R2
        params = init.params[1:]
        base_init = None
        for b in c.mro()[1:]:
            if "__init__" in b.methods:
                base_init = b.methods["__init__"]
                break
        fwd: Dict[str, ast.AST] = {}
        if super_call is not None:
            if super_call.args:
                ck.violation("C15.R2", init.qualname, norm_key(super_call, 80), "super().__init__ is called with positional arguments", loc=init.loc(super_call))
            fwd = {k.arg: k.value for k in super_call.keywords if k.arg}
        for p in params:
            ok_fwd = p in fwd and isinstance(fwd[p], ast.Name) and fwd[p].id == p
            ok_store = False
            if p in stored:
                srcs = _param_sources(init, stored[p])
                ok_store = srcs == {p}
                lossy = lossy_conversion(init, stored[p]) if ok_store else None
                if lossy is not None:
                    ck.violation("C15.R2", init.qualname, f"parameter {p} [conversion]",
                                 f"constructor argument `{p}` is not stored as given: {lossy} (an object saved and loaded, or built from the same arguments, would differ)",
                                 loc=init.loc(stored[p]))
                    continue
            if ok_fwd or ok_store:
                ck.ok("C15.R2", init.qualname, f"parameter {p}", nontrivial=True,
                      detail="forwarded to base" if ok_fwd else f"stored: {norm_key(stored[p], 70)}")
            else:
                why = []
                if p in fwd:
                    why.append(f"forwarded as {p}={unparse(fwd[p])}")
                if p in stored:
                    why.append(f"stored as `{norm_key(stored[p], 70)}`")
                ck.violation("C15.R2", init.qualname, f"parameter {p}",
                             f"constructor argument `{p}` is neither forwarded to the base class as {p}={p} nor stored from its own value"
                             + (f" ({'; '.join(why)})" if why else " (dropped)"), loc=init.loc())
        # stores must be named after their own parameter
        for name, st in stored.items():
            srcs = _param_sources(init, st)
            if name not in params or srcs - {name}:
                ck.violation("C15.R2", init.qualname, norm_key(st, 80),
                             f"attribute `{name}` is stored from {sorted(srcs) or 'no parameter'}", loc=init.loc(st))
        if base_init is not None and base_init.cls.name != "object":
            need = base_init.params[1:]
            missing = [q for q in need if q not in fwd]
            wrong = [q for q in fwd if q not in need]
            if not missing and not wrong and super_call is not None:
                ck.ok("C15.R2", init.qualname, f"super().__init__({', '.join(sorted(fwd))})", detail=f"all {len(need)} base parameters supplied")
            else:
                ck.violation("C15.R2", init.qualname, "super().__init__ arguments",
                             f"base parameters not supplied (fall back to defaults, the caller's value is lost): {missing}; unknown keywords: {wrong}",
                             loc=init.loc(super_call) if super_call is not None else init.loc())
        check_default_sharing(ck, prog, "C15.R5", c, flagged)


NDARRAY_ONLY = {"size", "shape", "ndim", "dtype", "T", "astype", "flatten", "ravel", "reshape", "tolist", "nbytes", "itemsize", "flat", "squeeze", "min", "max", "sum",
                "mean", "std", "any", "all", "argmin", "argmax", "round", "clip", "fill", "view", "item"}


def check_type_agnostic_reads(ck: Checker, prog: Program, rule: str):
    """A settings object read back from file holds lists where the constructor stored arrays: code that consumes settings may
    not use array-only attributes directly on a settings field (it would work with fresh settings and fail - or differ - with
    loaded ones)."""
    n = 0
    for mname in ("processing", "preprocessing", "cli", "window_rejection"):
        mod = prog.modules.get(mname)
        if mod is None:
            continue
        for g in prog.funcs.values():
            if g.module is not mod or "settings" not in g.params:
                continue
            for x in own_nodes(g.node):
                if isinstance(x, ast.Attribute) and isinstance(x.value, ast.Attribute) and isinstance(x.value.value, ast.Name) and x.value.value.id == "settings":
                    n += 1
                    if x.attr in NDARRAY_ONLY:
                        ck.violation(rule, g.qualname, f"settings.{x.value.attr}.{x.attr}",
                                     f"`{unparse(x)}` is only defined when `{x.value.attr}` is an ndarray: settings loaded from file hold a list there, so a reloaded "
                                     f"settings object would not give what the original gives", loc=g.loc(x))
    ck.ok(rule, "consumers of settings", f"{n} attribute reads of settings fields, none array-only", nontrivial=False)


COPY_HOOKS = ("__deepcopy__", "__copy__", "__reduce__", "__reduce_ex__", "__getstate__", "__setstate__", "__getnewargs__", "__getnewargs_ex__")


def _copy_hooks(ck: Checker, prog: Program, classes):
    """copy.deepcopy of a settings object (process(), the CLI worker) must give an object that shares no mutable state with the
    original.  Without copy hooks that is Python's own deep copy; a class that customises copying is examined with the effect
    engine: whatever its hook returns may not reach storage of `self`."""
    eng = engine(prog)
    n_hooks = 0
    for c in classes:
        for h in COPY_HOOKS:
            m = c.methods.get(h)
            if m is None:
                continue
            n_hooks += 1
            s = eng.summary(m)
            alias = reachable_nonlocal(eng, s, s.ret) if not s.ret.is_bottom() else []
            alias = [(p_, o) for (p_, o) in alias if o[0] == "P" and o[1] == 0]
            shallow = [e for e in s.effects if e.kind in ("call-update",)]
            upd = any(isinstance(x, ast.Call) and call_name(x) == "update" and isinstance(x.func, ast.Attribute) and unparse(x.func.value).endswith("__dict__")
                      for x in ast.walk(m.node))
            if alias or upd:
                ck.violation("C15.R5", m.qualname, f"{h}", f"{c.name}.{h} hands the attributes of the original to the copy"
                             + (f" ({'.'.join(alias[0][0]) or 'value'} is the original's)" if alias else " (`__dict__.update(self.__dict__)` copies references)")
                             + ": a deep copy still shares nested state (fft_settings, lists) with its source", loc=m.loc())
            else:
                raise AnalysisError(f"{m.qualname}: a custom copy hook; whether its result is independent of the original is not analysed")
    if n_hooks == 0:
        ck.ok("C15.R5", "settings classes", "no custom copy / pickle hooks: copy.deepcopy copies every attribute recursively", nontrivial=False)


def _stmt_of_node(n):
    cur = n
    while cur is not None and not isinstance(cur, ast.stmt):
        cur = parent_of(cur)
    return cur


def _short(av) -> str:
    t = repr(av)
    return t if len(t) < 100 else t[:97] + "..."


# --------------------------------------------------------------------------- R3
def _class_defaults(prog: Program, c: Class) -> Dict[str, object]:
    out: Dict[str, object] = {}
    for k in reversed(c.mro()):
        init = k.methods.get("__init__")
        if init is None:
            continue
        for name, d in init.defaults().items():
            if isinstance(d, ast.Constant):
                out[name] = d.value
    # only keys that are actually in attrs (saved) are visible to the dispatcher
    attrs = set()
    for k in c.mro():
        f = _init_facts(k) if k.module.name == "settings" else None
        if f:
            attrs |= set(f[1])
    return {k: v for k, v in out.items() if k in attrs}


class _Raise(Exception):
    pass


class _Dispatch:
    """Evaluation of the dispatcher's decision ladder on a finite domain: the file content is the dict of the saved
    method keys of one settings class; locals may hold the dict, its key view, constants, classes and constructed objects."""

    def __init__(self, prog: Program, dname: str, content: Dict[str, object]):
        self.prog, self.dname, self.content = prog, dname, content
        self.env: Dict[str, object] = {dname: ("dict",)}
        self.loaded: List[str] = []

    def ev(self, x: ast.AST):
        if isinstance(x, ast.Constant):
            return x.value
        if isinstance(x, ast.Name):
            if x.id in self.env:
                return self.env[x.id]
            if x.id in self.prog.classes:
                return ("class", x.id)
            mod = getattr(self, "module", None)
            r = self.prog.resolve_name(mod, x.id) if mod is not None else None
            if r and r[0] == "const" and isinstance(r[1][0], ast.Dict):
                return ("table", r[1][0])       # a module-level lookup table: its values exist once, from import time on
            raise AnalysisError(f"dispatcher: cannot evaluate name `{x.id}`")
        if isinstance(x, ast.Subscript) and not isinstance(x.slice, ast.Constant):
            b = self.ev(x.value)
            if isinstance(b, tuple) and b[0] == "table":
                key = self.ev(x.slice)
                for k, v in zip(b[1].keys, b[1].values):
                    if isinstance(k, ast.Constant) and k.value == key:
                        val = self.ev(v)
                        if isinstance(val, tuple) and val[0] == "obj":
                            return ("obj", val[1], "shared")     # constructed when the module was imported, not by this call
                        return val
                raise KeyError(key)
        if isinstance(x, ast.Subscript) and isinstance(x.slice, ast.Constant):
            b = self.ev(x.value)
            if b == ("dict",):
                if x.slice.value not in self.content:
                    raise KeyError(x.slice.value)
                return self.content[x.slice.value]
        if isinstance(x, ast.Call):
            nm = call_name(x)
            if isinstance(x.func, ast.Attribute):
                try:
                    b = self.ev(x.func.value)
                except AnalysisError:
                    b = None
                if b == ("dict",) and nm == "keys":
                    return ("keys",)
                if b == ("dict",) and nm == "get" and x.args and isinstance(x.args[0], ast.Constant):
                    return self.content.get(x.args[0].value, self.ev(x.args[1]) if len(x.args) > 1 else None)
                if isinstance(b, tuple) and b and b[0] == "table" and nm == "get" and x.args:
                    key = self.ev(x.args[0])
                    for k, v in zip(b[1].keys, b[1].values):
                        if isinstance(k, ast.Constant) and k.value == key:
                            val = self.ev(v)
                            return ("obj", val[1], "shared") if isinstance(val, tuple) and val[0] == "obj" else val
                    return self.ev(x.args[1]) if len(x.args) > 1 else None
            if isinstance(x.func, ast.Name) and x.func.id == "isinstance" and len(x.args) == 2 and x.func.id not in self.env:
                v = self.ev(x.args[0])
                types = {"str": str, "int": int, "float": float, "bool": bool, "dict": dict, "list": list, "tuple": tuple}
                names = [t.id for t in (x.args[1].elts if isinstance(x.args[1], ast.Tuple) else [x.args[1]]) if isinstance(t, ast.Name)]
                if names and all(n_ in types for n_ in names) and not isinstance(v, tuple):
                    return isinstance(v, tuple(types[n_] for n_ in names))
            if isinstance(x.func, ast.Name) and x.func.id in ("list", "set", "tuple") and len(x.args) == 1:
                return self.ev(x.args[0])
            f = self.ev(x.func) if isinstance(x.func, ast.Name) else None
            if isinstance(f, tuple) and f[0] == "class" and not x.args and not x.keywords:
                return ("obj", f[1])
        if isinstance(x, ast.Compare) and len(x.ops) == 1:
            op = x.ops[0]
            if isinstance(op, (ast.In, ast.NotIn)):
                item = self.ev(x.left)
                c0 = x.comparators[0]
                if isinstance(c0, (ast.Tuple, ast.List, ast.Set)) and all(isinstance(e_, ast.Constant) for e_ in c0.elts):
                    r = item in [e_.value for e_ in c0.elts]          # membership in a display of literals
                    return r if isinstance(op, ast.In) else not r
                cont = self.ev(c0)
                if cont in (("dict",), ("keys",)):
                    r = item in self.content
                    return r if isinstance(op, ast.In) else not r
            if isinstance(op, (ast.Eq, ast.NotEq)):
                r = self.ev(x.left) == self.ev(x.comparators[0])
                return r if isinstance(op, ast.Eq) else not r
            if isinstance(op, (ast.Is, ast.IsNot)):
                r = self.ev(x.left) is self.ev(x.comparators[0]) or self.ev(x.left) == self.ev(x.comparators[0])
                return r if isinstance(op, ast.Is) else not r
        if isinstance(x, ast.BoolOp):
            vals = [self.ev(v) for v in x.values]
            return all(vals) if isinstance(x.op, ast.And) else any(vals)
        if isinstance(x, ast.UnaryOp) and isinstance(x.op, ast.Not):
            return not self.ev(x.operand)
        raise AnalysisError(f"dispatcher: unsupported expression `{unparse(x)}`")

    def run(self, stmts) -> Optional[object]:
        for st in stmts:
            if isinstance(st, ast.If):
                r = self.run(st.body if self.ev(st.test) else st.orelse)
                if r is not None:
                    return r
            elif isinstance(st, ast.Assign) and len(st.targets) == 1 and isinstance(st.targets[0], ast.Name):
                if st.targets[0].id == self.dname:
                    continue
                self.env[st.targets[0].id] = self.ev(st.value)
            elif isinstance(st, ast.Raise):
                raise _Raise()
            elif isinstance(st, ast.Return):
                return self.ev(st.value) if st.value is not None else ("none",)
            elif isinstance(st, ast.Expr) and isinstance(st.value, ast.Call) and call_name(st.value) == "load" and isinstance(st.value.func, ast.Attribute) \
                    and isinstance(st.value.func.value, ast.Name) and st.value.func.value.id in self.env:
                self.loaded.append(st.value.func.value.id)
            elif isinstance(st, ast.With):
                r = self.run(st.body)
                if r is not None:
                    return r
            elif isinstance(st, ast.Try):
                try:
                    r = self.run(list(st.body) + list(st.orelse))
                except KeyError:
                    hs = [h for h in st.handlers if h.type is None or any(isinstance(n_, ast.Name) and n_.id in ("KeyError", "LookupError", "Exception") for n_ in ast.walk(h.type))]
                    if not hs:
                        raise
                    r = self.run(hs[0].body)
                if r is not None:
                    return r
            elif isinstance(st, (ast.Expr, ast.Pass)):
                continue
            else:
                continue        # not part of the decision ladder (checked by the load/return rule)
        return None


def _r3(ck: Checker, prog: Program, public: List[str]):
    f = prog.func("object_io.read_settings_object_from_file")
    fq = f.qualname
    # the dict loaded from the file
    dname = None
    for st in own_nodes(f.node):
        if isinstance(st, ast.Assign) and isinstance(st.targets[0], ast.Name) and any(call_name(c) == "load" for c in calls_in(st.value)):
            dname = st.targets[0].id
    if dname is None:
        raise AnalysisError(f"{fq}: `attr_dict = json.load(f)` not found")
    for cname in public:
        c = prog.cls(cname)
        env = _class_defaults(prog, c)
        d = _Dispatch(prog, dname, env)
        d.module = f.module
        loaded_ok = None
        try:
            res = d.run(f.node.body)
            got = res[1] if isinstance(res, tuple) and res[0] == "obj" else str(res)
            if isinstance(res, tuple) and res[0] == "obj" and len(res) == 3:
                ck.violation("C15.R3", fq, f"shared instance for {cname}",
                             f"a file saved from a {cname} is read into an object that was constructed when the module was imported: every read returns "
                             f"(and overwrites) the same object", loc=f.loc())
            ret_name = None
            loaded_ok = bool(d.loaded)
        except KeyError as e:
            got = f"KeyError({e})"
        except _Raise:
            got = "raise"
        if got == cname:
            ck.ok("C15.R3", fq, f"{cname} -> {got}", detail=f"keys {{{', '.join(f'{k}={v!r}' for k, v in env.items() if k.endswith('method') or k.startswith('method'))}}}")
        else:
            ck.violation("C15.R3", fq, f"dispatch of {cname}",
                         f"a file saved from a default {cname} is read back as `{got}`", loc=f.loc())
    # load + return
    rets = [r for r in own_nodes(f.node) if isinstance(r, ast.Return)]
    loads = [c for c in calls_in(f.node, "load") if isinstance(c.func, ast.Attribute) and isinstance(c.func.value, ast.Name)
             and c.func.value.id != "json"]
    good = len(rets) == 1 and isinstance(rets[0].value, ast.Name) and len(loads) == 1 and loads[0].func.value.id == rets[0].value.id \
        and parent_of(parent_of(loads[0])) is f.node and loads[0].args and isinstance(loads[0].args[0], ast.Name) and loads[0].args[0].id == f.params[0]
    if good:
        ck.ok("C15.R3", fq, "settings_object.load(fname); return settings_object")
        # ... and what is returned is what was loaded: nothing is stored into the object after load()
        obj = rets[0].value.id
        load_st = parent_of(loads[0])
        while not isinstance(load_st, ast.stmt):
            load_st = parent_of(load_st)
        idx = f.node.body.index(load_st)
        after = f.node.body[idx + 1:]
        touched = [x for st in after for x in ast.walk(st)
                   if (isinstance(x, (ast.Attribute, ast.Subscript)) and isinstance(x.ctx, (ast.Store, ast.Del)) and unparse(x).startswith(obj + (".", "[")[isinstance(x, ast.Subscript)]))
                   or (isinstance(x, ast.Call) and ((isinstance(x.func, ast.Name) and x.func.id in ("setattr", "delattr") and x.args and unparse(x.args[0]) == obj)
                                                    or (isinstance(x.func, ast.Attribute) and unparse(x.func.value) in (obj, obj + ".__dict__") and x.func.attr in ("update", "__setattr__", "pop", "clear"))))]
        if touched:
            st0 = touched[0]
            while not isinstance(st0, ast.stmt):
                st0 = parent_of(st0)
            ck.violation("C15.R3", fq, norm_key(st0, 90), f"`{norm_key(st0, 80)}` changes the object after it was loaded: an attribute of the object read back no longer "
                         f"equals the one that was saved", loc=f.loc(st0))
        else:
            ck.ok("C15.R3", fq, "the loaded object is returned untouched", nontrivial=False)
    else:
        ck.violation("C15.R3", fq, "load and return", "the constructed object is not unconditionally load()ed from the same file and returned", loc=f.loc())
    # decorators on the I/O path
    io_funcs = [f, prog.func("object_io.write_settings_object_to_file")] + list(prog.cls("Settings").methods.values())
    for g in io_funcs:
        extra = [d for d in g.decorators if d not in ("property", "staticmethod", "classmethod")]
        if extra:
            ck.violation("C15.R3", g.qualname, f"decorator {extra[0]}",
                         f"`@{extra[0]}` on the settings I/O path: results may be cached/shared between calls", loc=g.loc())
        else:
            ck.ok("C15.R3", g.qualname, "no caching decorator", nontrivial=False)
    # the reader returns a new object each call
    s = engine(prog).summary(f)
    if s.ret.origins and all(o[0] == "F" for o in s.ret.origins):
        ck.ok("C15.R3", fq, "returns a freshly constructed object")
    else:
        ck.violation("C15.R3", fq, "return value", f"the reader may return a shared object: {s.ret}", loc=f.loc())


# --------------------------------------------------------------------------- R4
def _r4(ck: Checker, prog: Program):
    eng = engine(prog)
    S = prog.cls("Settings")
    save, load, ad = S.methods.get("save"), S.methods.get("load"), S.methods.get("attr_dict")
    if not (save and load and ad):
        raise AnalysisError("Settings.save/load/attr_dict not found")
    # save dumps attr_dict
    dumps = [c for c in calls_in(save.node, "dump")]
    good = len(dumps) == 1 and dumps[0].args and unparse(dumps[0].args[0]) == "self.attr_dict"
    if good:
        ck.ok("C15.R4", save.qualname, norm_key(dumps[0]))
    else:
        ck.violation("C15.R4", save.qualname, "json.dump(self.attr_dict, f)", "save does not dump self.attr_dict", loc=save.loc())
    # the file written is the file read: save, load and the dispatching reader open exactly the name they are given
    from ..dataflow import reaching
    n_open = 0
    for g in (save, load, prog.func("object_io.read_settings_object_from_file"), prog.func("object_io.write_settings_object_to_file")):
        pname = next((p_ for p_ in g.params if p_ in ("fname", "filename", "path", "file_name")), None)
        for c in calls_in(g.node, "open"):
            if not isinstance(c.func, ast.Name) or not c.args:
                continue
            n_open += 1
            a0 = c.args[0]
            same_name = False
            if pname is not None:
                try:
                    from ..resolve import Resolver as _Res
                    _r = _Res(prog, g, inline=False)
                    v0 = _r.value(a0, _stmt_of_node(c))
                    P0 = sp.Symbol(pname, real=True)
                    same_name = not _r.multi and v0 in (P0, sp.Function("str")(P0), sp.Function("Path")(P0), sp.Function("fspath")(P0), sp.Function("PurePath")(P0))
                except AnalysisError:
                    same_name = False
            if same_name:
                ck.ok("C15.R4", g.qualname, f"opens the given `{pname}`", nontrivial=False)
            else:
                ck.violation("C15.R4", g.qualname, "file name", f"{g.qualname} opens `{unparse(a0)}`, which is not (or no longer) the name it was given: what one of "
                             f"save / load / the reader writes, the others would not find", loc=g.loc(c))
    ck.floor("C15.R4", n_open, 3, "open() calls of the settings I/O")
    # attr_dict: every name of self.attrs -> conv(getattr(self, name)); conv = per-value tolist inside dicts, tolist otherwise
    from ..pathtable import PathTable, literals, flatten_cases, Leaf
    from ..resolve import Resolver, canon
    NAME = sp.Symbol("<name>", real=True)
    SELF = sp.Symbol("self", real=True)
    V = sp.Function("getattr")(SELF, NAME)
    called = {call_name(c) for c in calls_in(ad.node)}
    conv = [g for g in prog.funcs.values() if any(call_name(c) == "tolist" for c in calls_in(g.node)) and g.name in called
            and ((g.parent is ad and g.kind == "nested") or (g.module is ad.module and g.cls is None and g.kind == "function"))]
    cases = None
    why = "construction not recognised"
    loops = [st for st in ad.node.body if isinstance(st, ast.For)]
    rets = [r for r in own_nodes(ad.node) if isinstance(r, ast.Return) and parent_of(r) is ad.node]
    if len(loops) == 1 and unparse(loops[0].iter) == "self.attrs" and isinstance(loops[0].target, ast.Name) and len(rets) == 1 and isinstance(rets[0].value, ast.Name):
        lp = loops[0]
        if any(isinstance(x, (ast.Continue, ast.Break, ast.Return)) for x in ast.walk(lp)):
            why = "the loop over self.attrs can skip names"
        else:
            sub = PathTable(prog, ad.module, env={lp.target.id: NAME}, scope=ad).leaves(lp.body)
            cases = []
            for l in sub:
                st_ = [(l.store_at[id(x[3])], x[2], x[3]) for x in l.events if x[0] == "store" and id(x[3]) in l.store_at]
                if len(st_) != 1 or st_[0][0][1] != NAME or not isinstance(st_[0][2].targets[0].value, ast.Name) or st_[0][2].targets[0].value.id != rets[0].value.id:
                    cases = None
                    why = f"a path stores {[(str(a[0]), str(a[1])) for a in st_]}"
                    break
                cases += flatten_cases(literals(l), st_[0][1])
    elif len(rets) == 1 and isinstance(rets[0].value, ast.DictComp):
        dc = rets[0].value
        if len(dc.generators) == 1 and not dc.generators[0].ifs and unparse(dc.generators[0].iter) == "self.attrs" and isinstance(dc.generators[0].target, ast.Name) \
                and isinstance(dc.key, ast.Name) and dc.key.id == dc.generators[0].target.id:
            T = PathTable(prog, ad.module, env={dc.key.id: NAME}, scope=ad)._T({dc.key.id: NAME})
            cases = flatten_cases([], T.tr(dc.value))
        else:
            why = "the comprehension does not map every name of self.attrs"
    okk = False
    if cases is not None and len(conv) == 1:
        t = sp.Function(conv[0].name)
        is_dict = sp.Eq(sp.Function("truth")(sp.Function("isinstance")(V, sp.Symbol("dict", real=True))), sp.true, evaluate=False)
        it0 = sp.Symbol("_it0")
        item = sp.Function("item")
        want_dict = sp.Function("comp")(sp.Function("kv")(item(it0, sp.Integer(0)), t(item(it0, sp.Integer(1)))), sp.Function("gen")(it0, sp.Function("items")(V)))
        from ..pathtable import same_rel, negate
        got_dict = [v for lits, v in cases if any(same_rel(x, is_dict) for x in lits)]
        got_else = [v for lits, v in cases if any(same_rel(x, negate(is_dict)) for x in lits)]
        okk = len(cases) == 2 and got_dict == [want_dict] and got_else == [t(V)]
        if not okk and got_dict == [want_dict] and len(cases) == 3:
            # the converter written out in place for the plain value: tolist(value), or the value itself when that raised
            TL = sp.Function("tolist")(V)
            else_cases = [(lits, v) for lits, v in cases if any(same_rel(x, negate(is_dict)) for x in lits)]
            plain = [v for lits, v in else_cases if not any("raised(" in str(x) and isinstance(x, sp.Eq) for x in lits)]
            failed = [v for lits, v in else_cases if any("raised(" in str(x) and isinstance(x, sp.Eq) for x in lits)]
            okk = len(else_cases) == 2 and plain == [TL] and failed == [V]
        why = f"cases {[(str(l_), str(v)) for l_, v in cases]}"
        # the converter: tolist() of the value itself, the value unchanged when that fails
        g = conv[0]
        pn = g.params[0] if g.params else None
        tl = [c for c in calls_in(g.node) if call_name(c) == "tolist"]
        conv_ok = pn is not None and len(tl) == 1 and isinstance(tl[0].func.value, ast.Name) and tl[0].func.value.id == pn and not tl[0].args
        outs = [unparse(r.value) for r in own_nodes(g.node) if isinstance(r, ast.Return)] + \
               [unparse(st.value) for st in own_nodes(g.node) if isinstance(st, ast.Assign) and unparse(st.targets[0]) == pn]
        conv_ok = conv_ok and set(outs) <= {pn, f"{pn}.tolist()"} and any(isinstance(x, ast.Try) for x in ast.walk(g.node))
        if not conv_ok:
            okk = False
            why = f"the converter `{g.name}` yields {sorted(set(outs))}: arrays are not written as the exact list of their values"
    detail = why
    if not okk and (why == "construction not recognised" or len(conv) != 1):
        raise AnalysisError(f"{ad.qualname}: the construction of the dictionary (or its array converter) is not recognised ({why}; {len(conv)} converter(s))")
    if okk:
        ck.ok("C15.R4", ad.qualname, "every name of attrs serialised (arrays via tolist, also inside dicts)", detail=detail[:300])
    else:
        ck.violation("C15.R4", ad.qualname, "attr_dict serialisation", f"attr_dict does not serialise every attribute listed in attrs: {detail}", loc=ad.loc())
    # load: every (key, value) of the dict parsed from the file is set, unconditionally
    loops = [st for st in own_nodes(load.node) if isinstance(st, ast.For)]
    good = False
    detail = "loop over the loaded dict not found"
    RL = Resolver(prog, load, inline=False)
    for lp in loops:
        it = lp.iter
        if not (isinstance(it, ast.Call) and call_name(it) == "items" and isinstance(lp.target, ast.Tuple) and len(lp.target.elts) == 2):
            continue
        src = canon(RL.value(it.func.value, lp))
        names = {getattr(getattr(a, "func", None), "__name__", "") for a in sp.preorder_traversal(src)}
        from_file = ("load" in names or "loads" in names) and "open" in str(src) or bool(names & {"load", "loads"})
        K, VV = sp.Symbol("<key>", real=True), sp.Symbol("<value>", real=True)
        sub = PathTable(prog, load.module, env={unparse(lp.target.elts[0]): K, unparse(lp.target.elts[1]): VV}).leaves(lp.body)
        want = sp.Function("setattr")(SELF, K, VV)
        body_ok = len(sub) == 1 and sub[0].exit == "fall" and [e[2] for e in sub[0].events if e[0] == "call"] == [want]
        detail = f"iterates the dict loaded from the file={from_file}; unconditional setattr(self, key, value)={body_ok}"
        if from_file and body_ok:
            good = True
            break
    if good:
        ck.ok("C15.R4", load.qualname, "for key, value in loaded.items(): setattr(self, key, value)", detail=detail)
    else:
        ck.violation("C15.R4", load.qualname, "load restores every stored key",
                     f"load does not set every key of the file unconditionally: {detail}", loc=load.loc())
    # read-only
    for m in (ad, save):
        s = eng.summary(m)
        effs = [e for e in s.effects if e.origin[0] in ("P", "G")]
        if not effs:
            ck.ok("C15.R4", m.qualname, "does not modify the settings object")
        for (func, text), es in group_effects(prog, effs).items():
            ck.violation("C15.R4", func, text, f"{m.qualname} modifies state: {describe_effect(es[0])}", loc=es[0].chain[0].loc, path=chain_text(es[0]))
