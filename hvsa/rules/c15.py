"""C15 - settings round-trip through files and are independent of one another."""
from __future__ import annotations

import ast
from typing import Dict, List, Optional, Set, Tuple

from ..astutil import call_name, calls_in, own_nodes, unparse, kwarg, names_loaded, dotted
from ..effects import fmt_origin
from ..model import AnalysisError, Class, Program, norm_key, parent_of
from ..report import Checker
from .common import engine, reachable_nonlocal, group_effects, describe_effect, chain_text

EXPLANATION = (
    "Table extraction over the 12 settings classes and the type-dispatching reader plus effect/freshness "
    "analysis of the constructors. Decided: (R1) in every class the names added to self.attrs equal the "
    "attributes stored by that __init__; (R2) every __init__ parameter is forwarded by keyword to "
    "super().__init__ or stored under its own name from its own value, and every base parameter is supplied; "
    "(R3) evaluating the dispatcher ladder of read_settings_object_from_file on the default key values of each "
    "of the 8 public classes constructs exactly that class, which is then load()ed and returned, with no "
    "memoising decorator on the I/O path; (R4) save dumps attr_dict, attr_dict visits every name of attrs and "
    "converts arrays (also inside dicts) with tolist, load sets every key unconditionally; attr_dict/save do "
    "not modify the object; (R5) no shared state: no object reachable from a stored attribute is a default-"
    "argument object, a module-level object, or (for parameters with mutable defaults) the argument itself, at "
    "any nesting depth. Not decided: that processing with reloaded settings is bit-identical (JSON float "
    "round trip, assumption 2).")

RULES = {
    "C15.R1": "names added to self.attrs == attributes stored in the same __init__",
    "C15.R2": "each parameter forwarded by keyword to super().__init__ or stored under its own name; base parameters all supplied",
    "C15.R3": "dispatcher constructs the class whose default keys it is given; loads and returns it; no caching decorator",
    "C15.R4": "save -> attr_dict (all attrs, arrays via tolist, also in dicts); load sets every key; both read-only on the object",
    "C15.R5": "stored attributes share no object with defaults, module state or mutable-default arguments (deep)",
}


def _settings_classes(prog: Program) -> List[Class]:
    base = prog.cls("Settings")
    return [c for c in prog.classes.values() if base in c.mro() and c.module.name == "settings"]


def _init_facts(c: Class):
    init = c.methods.get("__init__")
    if init is None:
        return None
    added: List[str] = []
    stored: Dict[str, ast.AST] = {}
    super_call = None
    for st in own_nodes(init.node):
        if isinstance(st, ast.Call) and isinstance(st.func, ast.Attribute):
            if st.func.attr in ("extend", "append") and unparse(st.func.value) == "self.attrs" and st.args:
                a = st.args[0]
                elts = a.elts if isinstance(a, (ast.List, ast.Tuple)) else [a]
                for e in elts:
                    if not isinstance(e, ast.Constant):
                        raise AnalysisError(f"{init.qualname}: non-literal attribute name in self.attrs")
                    added.append(e.value)
            if st.func.attr == "__init__" and isinstance(st.func.value, ast.Call) and call_name(st.func.value) == "super":
                super_call = st
        if isinstance(st, ast.Assign):
            for t in st.targets:
                if isinstance(t, ast.Attribute) and isinstance(t.value, ast.Name) and t.value.id == "self":
                    if t.attr == "attrs":
                        if isinstance(st.value, (ast.List, ast.Tuple)):
                            added += [e.value for e in st.value.elts if isinstance(e, ast.Constant)]
                    else:
                        stored[t.attr] = st
    return init, added, stored, super_call


def delivers(prog: Program, cls, pname: str, depth: int = 0) -> bool:
    """Does `cls(pname=X)` end with `self.pname` computed from X (stored directly or forwarded up the chain)?"""
    facts = _init_facts(cls)
    if facts is None or depth > 6:
        for b in cls.mro()[1:]:
            if "__init__" in b.methods:
                return delivers(prog, b, pname, depth + 1)
        return False
    init, _added, stored, super_call = facts
    if pname not in init.params:
        return False
    if pname in stored and names_loaded(stored[pname].value) & set(init.params) == {pname}:
        return True
    if super_call is not None:
        fwd = {k.arg: k.value for k in super_call.keywords if k.arg}
        if pname in fwd and isinstance(fwd[pname], ast.Name) and fwd[pname].id == pname:
            for b in cls.mro()[1:]:
                if "__init__" in b.methods:
                    return delivers(prog, b, pname, depth + 1)
    return False


def run(ck: Checker, prog: Program, tier: str):
    eng = engine(prog)
    classes = _settings_classes(prog)
    ck.floor("C15.R1", len(classes), 12, "settings classes")
    public = prog.module("settings").all_names or []
    ck.floor("C15.R3", len(public), 8, "public settings classes in __all__")

    flagged = set()
    for c in sorted(classes, key=lambda x: len(x.mro())):
        facts = _init_facts(c)
        if facts is None:
            continue
        init, added, stored, super_call = facts
        # ------------------------------------------------------------ R1
        if sorted(added) == sorted(stored) and len(set(added)) == len(added):
            ck.ok("C15.R1", init.qualname, f"attrs += {sorted(added)}")
        else:
            miss = sorted(set(stored) - set(added))
            extra = sorted(set(added) - set(stored))
            ck.violation("C15.R1", init.qualname, "attrs vs stored attributes",
                         f"stored but not listed in attrs (not saved / not compared): {miss}; listed but never stored: {extra}",
                         loc=init.loc())
        # ------------------------------------------------------------ R2
        params = init.params[1:]
        base_init = None
        for b in c.mro()[1:]:
            if "__init__" in b.methods:
                base_init = b.methods["__init__"]
                break
        fwd: Dict[str, ast.AST] = {}
        if super_call is not None:
            if super_call.args:
                ck.violation("C15.R2", init.qualname, norm_key(super_call, 80), "super().__init__ is called with positional arguments", loc=init.loc(super_call))
            fwd = {k.arg: k.value for k in super_call.keywords if k.arg}
        for p in params:
            ok_fwd = p in fwd and isinstance(fwd[p], ast.Name) and fwd[p].id == p
            ok_store = False
            if p in stored:
                srcs = names_loaded(stored[p].value) & set(init.params)
                ok_store = srcs == {p}
            if ok_fwd or ok_store:
                ck.ok("C15.R2", init.qualname, f"parameter {p}", nontrivial=True,
                      detail="forwarded to base" if ok_fwd else f"stored: {norm_key(stored[p], 70)}")
            else:
                why = []
                if p in fwd:
                    why.append(f"forwarded as {p}={unparse(fwd[p])}")
                if p in stored:
                    why.append(f"stored as `{norm_key(stored[p], 70)}`")
                ck.violation("C15.R2", init.qualname, f"parameter {p}",
                             f"constructor argument `{p}` is neither forwarded to the base class as {p}={p} nor stored from its own value"
                             + (f" ({'; '.join(why)})" if why else " (dropped)"), loc=init.loc())
        # stores must be named after their own parameter
        for name, st in stored.items():
            srcs = names_loaded(st.value) & set(init.params)
            if name not in params or srcs - {name}:
                ck.violation("C15.R2", init.qualname, norm_key(st, 80),
                             f"attribute `{name}` is stored from {sorted(srcs) or 'no parameter'}", loc=init.loc(st))
        if base_init is not None and base_init.cls.name != "object":
            need = base_init.params[1:]
            missing = [q for q in need if q not in fwd]
            wrong = [q for q in fwd if q not in need]
            if not missing and not wrong and super_call is not None:
                ck.ok("C15.R2", init.qualname, f"super().__init__({', '.join(sorted(fwd))})", detail=f"all {len(need)} base parameters supplied")
            else:
                ck.violation("C15.R2", init.qualname, "super().__init__ arguments",
                             f"base parameters not supplied (fall back to defaults, the caller's value is lost): {missing}; unknown keywords: {wrong}",
                             loc=init.loc(super_call) if super_call is not None else init.loc())
        # ------------------------------------------------------------ R5
        s = eng.summary(init)
        mutable_default_params = set()
        for pname, dnode in init.defaults().items():
            dv = eng.default_value(init, pname, dnode)
            if any(o[0] == "G" for o in dv.origins):
                mutable_default_params.add(init.params.index(pname))
        n_fields = 0
        for (o, fld), (val, _strong) in sorted(s.heap.items(), key=lambda kv: str(kv[0])):
            if o != ("P", 0, ()) or fld in ("attrs",):
                continue
            if any((b.name, fld) in flagged for b in c.mro()[1:]):
                continue      # the sink lives in a base class and is reported there
            n_fields += 1
            bad = []
            for (path, org) in reachable_nonlocal(eng, s, val):
                if org[0] == "G":
                    bad.append((path, org))
                elif org[0] == "P" and org[1] in mutable_default_params:
                    bad.append((path, org))
            if bad:
                path, org = bad[0]
                what = "the default-argument object" if org[0] == "G" and "<default" in org[1] else \
                    ("a module-level object" if org[0] == "G" else f"the argument `{init.params[org[1]]}` (whose default is a shared mutable object)")
                flagged.add((c.name, fld))
                ck.violation("C15.R5", init.qualname, f"self.{fld}",
                             f"`self.{fld}{''.join('.' + x for x in path)}` is {what} ({fmt_origin(org)}): settings objects share state",
                             loc=init.loc())
            else:
                ck.ok("C15.R5", init.qualname, f"self.{fld}", detail=f"origin {_short(val)}")
    ck.guard(_r3, ck, prog, public)
    ck.guard(_r4, ck, prog)
    ck.extra["calls_resolved"] = eng.calls_resolved


def _short(av) -> str:
    t = repr(av)
    return t if len(t) < 100 else t[:97] + "..."


# --------------------------------------------------------------------------- R3
def _class_defaults(prog: Program, c: Class) -> Dict[str, object]:
    out: Dict[str, object] = {}
    for k in reversed(c.mro()):
        init = k.methods.get("__init__")
        if init is None:
            continue
        for name, d in init.defaults().items():
            if isinstance(d, ast.Constant):
                out[name] = d.value
    # only keys that are actually in attrs (saved) are visible to the dispatcher
    attrs = set()
    for k in c.mro():
        f = _init_facts(k) if k.module.name == "settings" else None
        if f:
            attrs |= set(f[1])
    return {k: v for k, v in out.items() if k in attrs}


def _eval_ladder(stmts, env: Dict[str, object], dname: str):
    """Evaluate the dispatcher's if-ladder on concrete key values; returns constructed class name or 'raise'."""
    for st in stmts:
        if isinstance(st, ast.If):
            v = _eval_test(st.test, env, dname)
            r = _eval_ladder(st.body if v else st.orelse, env, dname)
            if r is not None:
                return r
        elif isinstance(st, ast.Assign) and isinstance(st.value, ast.Call) and isinstance(st.value.func, ast.Name):
            return st.value.func.id
        elif isinstance(st, ast.Raise):
            return "raise"
    return None


def _eval_test(t: ast.AST, env, dname):
    if isinstance(t, ast.Compare) and len(t.ops) == 1:
        l, op, r = t.left, t.ops[0], t.comparators[0]
        if isinstance(op, (ast.In, ast.NotIn)) and isinstance(l, ast.Constant):
            base = r.func.value if isinstance(r, ast.Call) and call_name(r) == "keys" else r
            if isinstance(base, ast.Name) and base.id == dname:
                v = l.value in env
                return v if isinstance(op, ast.In) else not v
        if isinstance(op, (ast.Eq, ast.NotEq)):
            def val(x):
                if isinstance(x, ast.Constant):
                    return x.value
                if isinstance(x, ast.Subscript) and isinstance(x.value, ast.Name) and x.value.id == dname and isinstance(x.slice, ast.Constant):
                    if x.slice.value not in env:
                        raise KeyError(x.slice.value)
                    return env[x.slice.value]
                if isinstance(x, ast.Call) and call_name(x) == "get" and x.args and isinstance(x.args[0], ast.Constant):
                    return env.get(x.args[0].value)
                raise AnalysisError(f"dispatcher: cannot evaluate `{unparse(x)}`")
            v = val(l) == val(r)
            return v if isinstance(op, ast.Eq) else not v
    if isinstance(t, ast.BoolOp):
        vals = [_eval_test(v, env, dname) for v in t.values]
        return all(vals) if isinstance(t.op, ast.And) else any(vals)
    if isinstance(t, ast.UnaryOp) and isinstance(t.op, ast.Not):
        return not _eval_test(t.operand, env, dname)
    raise AnalysisError(f"dispatcher: unsupported test `{unparse(t)}`")


def _r3(ck: Checker, prog: Program, public: List[str]):
    f = prog.func("object_io.read_settings_object_from_file")
    fq = f.qualname
    # the dict loaded from the file
    dname = None
    for st in own_nodes(f.node):
        if isinstance(st, ast.Assign) and isinstance(st.targets[0], ast.Name) and any(call_name(c) == "load" for c in calls_in(st.value)):
            dname = st.targets[0].id
    if dname is None:
        raise AnalysisError(f"{fq}: `attr_dict = json.load(f)` not found")
    ladder = [st for st in f.node.body if isinstance(st, ast.If)]
    for cname in public:
        c = prog.cls(cname)
        env = _class_defaults(prog, c)
        try:
            got = _eval_ladder(ladder, env, dname)
        except KeyError as e:
            got = f"KeyError({e})"
        if got == cname:
            ck.ok("C15.R3", fq, f"{cname} -> {got}", detail=f"keys {{{', '.join(f'{k}={v!r}' for k, v in env.items() if k.endswith('method') or k.startswith('method'))}}}")
        else:
            ck.violation("C15.R3", fq, f"dispatch of {cname}",
                         f"a file saved from a default {cname} is read back as `{got}`", loc=f.loc())
    # load + return
    rets = [r for r in own_nodes(f.node) if isinstance(r, ast.Return)]
    loads = [c for c in calls_in(f.node, "load") if isinstance(c.func, ast.Attribute) and isinstance(c.func.value, ast.Name)
             and c.func.value.id != "json"]
    good = len(rets) == 1 and isinstance(rets[0].value, ast.Name) and len(loads) == 1 and loads[0].func.value.id == rets[0].value.id \
        and parent_of(parent_of(loads[0])) is f.node and loads[0].args and isinstance(loads[0].args[0], ast.Name) and loads[0].args[0].id == f.params[0]
    if good:
        ck.ok("C15.R3", fq, "settings_object.load(fname); return settings_object")
    else:
        ck.violation("C15.R3", fq, "load and return", "the constructed object is not unconditionally load()ed from the same file and returned", loc=f.loc())
    # decorators on the I/O path
    io_funcs = [f, prog.func("object_io.write_settings_object_to_file")] + list(prog.cls("Settings").methods.values())
    for g in io_funcs:
        extra = [d for d in g.decorators if d not in ("property", "staticmethod", "classmethod")]
        if extra:
            ck.violation("C15.R3", g.qualname, f"decorator {extra[0]}",
                         f"`@{extra[0]}` on the settings I/O path: results may be cached/shared between calls", loc=g.loc())
        else:
            ck.ok("C15.R3", g.qualname, "no caching decorator", nontrivial=False)
    # the reader returns a new object each call
    s = engine(prog).summary(f)
    if s.ret.origins and all(o[0] == "F" for o in s.ret.origins):
        ck.ok("C15.R3", fq, "returns a freshly constructed object")
    else:
        ck.violation("C15.R3", fq, "return value", f"the reader may return a shared object: {s.ret}", loc=f.loc())


# --------------------------------------------------------------------------- R4
def _r4(ck: Checker, prog: Program):
    eng = engine(prog)
    S = prog.cls("Settings")
    save, load, ad = S.methods.get("save"), S.methods.get("load"), S.methods.get("attr_dict")
    if not (save and load and ad):
        raise AnalysisError("Settings.save/load/attr_dict not found")
    # save dumps attr_dict
    dumps = [c for c in calls_in(save.node, "dump")]
    good = len(dumps) == 1 and dumps[0].args and unparse(dumps[0].args[0]) == "self.attr_dict"
    if good:
        ck.ok("C15.R4", save.qualname, norm_key(dumps[0]))
    else:
        ck.violation("C15.R4", save.qualname, "json.dump(self.attr_dict, f)", "save does not dump self.attr_dict", loc=save.loc())
    # attr_dict: for name in self.attrs: attr = getattr(self, name); dict -> per value tolist; else tolist; attr_dict[name] = attr
    loops = [st for st in ad.node.body if isinstance(st, ast.For)]
    okk = False
    detail = "loop over self.attrs not found"
    if len(loops) == 1 and unparse(loops[0].iter) == "self.attrs" and isinstance(loops[0].target, ast.Name):
        lp = loops[0]
        nm = lp.target.id
        has_get = any(call_name(c) == "getattr" and len(c.args) == 2 and unparse(c.args[0]) == "self" and unparse(c.args[1]) == nm
                      for c in calls_in(lp))
        stores = [st for st in lp.body if isinstance(st, ast.Assign) and isinstance(st.targets[0], ast.Subscript)
                  and unparse(st.targets[0].slice) == nm]
        no_skip = not any(isinstance(x, (ast.Continue, ast.Break, ast.Return)) for x in ast.walk(lp))
        # conversion helper uses tolist, applied in both branches
        conv = [g for g in prog.funcs.values() if g.parent is ad and g.kind == "nested"]
        conv_ok = bool(conv) and any(call_name(c) == "tolist" for c in calls_in(conv[0].node))
        uses = [c for c in calls_in(lp) if conv and call_name(c) == conv[0].name]
        dict_branch = any(isinstance(x, ast.DictComp) for x in ast.walk(lp))
        rets = [r for r in own_nodes(ad.node) if isinstance(r, ast.Return) and parent_of(r) is ad.node]
        okk = has_get and len(stores) == 1 and parent_of(stores[0]) is lp and no_skip and conv_ok and len(uses) >= 2 and dict_branch \
            and len(rets) == 1 and isinstance(rets[0].value, ast.Name) and unparse(stores[0].targets[0].value) == rets[0].value.id
        detail = (f"getattr={has_get} store-per-name={len(stores)} unconditional={no_skip} tolist-helper={conv_ok} "
                  f"helper-uses={len(uses)} dict-branch={dict_branch}")
    if okk:
        ck.ok("C15.R4", ad.qualname, "every name of attrs serialised (arrays via tolist, also inside dicts)", detail=detail)
    else:
        ck.violation("C15.R4", ad.qualname, "attr_dict serialisation", f"attr_dict does not serialise every attribute listed in attrs: {detail}", loc=ad.loc())
    # load: a loop over the loaded dict whose body unconditionally does setattr(self, key, <value of key>)
    loops = [st for st in own_nodes(load.node) if isinstance(st, ast.For)]
    good = False
    detail = "loop over the loaded dict not found"
    for lp in loops:
        it = lp.iter
        base = it.func.value if isinstance(it, ast.Call) and call_name(it) in ("items", "keys") and isinstance(it.func, ast.Attribute) else it
        if not isinstance(base, ast.Name):
            continue
        dsrc = None
        for st in own_nodes(load.node):
            if isinstance(st, ast.Assign) and isinstance(st.targets[0], ast.Name) and st.targets[0].id == base.id:
                dsrc = st.value
        from_file = dsrc is not None and any(call_name(c) == "load" for c in calls_in(dsrc))
        with_items = isinstance(it, ast.Call) and call_name(it) == "items"
        if with_items and isinstance(lp.target, ast.Tuple) and len(lp.target.elts) == 2:
            kname, vtxt = unparse(lp.target.elts[0]), [unparse(lp.target.elts[1])]
        elif isinstance(lp.target, ast.Name):
            kname, vtxt = lp.target.id, [f"{base.id}[{lp.target.id}]"]
        else:
            continue
        direct = [st.value for st in lp.body if isinstance(st, ast.Expr) and isinstance(st.value, ast.Call) and call_name(st.value) == "setattr"]
        body_ok = any(len(c.args) == 3 and unparse(c.args[0]) == "self" and unparse(c.args[1]) == kname and unparse(c.args[2]) in vtxt
                      for c in direct)
        first = lp.body.index(next(st for st in lp.body if isinstance(st, ast.Expr) and st.value in direct)) if direct else 0
        no_skip = not any(isinstance(x, (ast.Continue, ast.Break, ast.Return, ast.Raise)) for st in lp.body[:first + 1] for x in ast.walk(st))
        rebinds = any(isinstance(st, (ast.Assign, ast.AugAssign)) for st in lp.body[:first])
        detail = f"iterates the dict loaded from the file={from_file}; unconditional setattr(self, key, value)={body_ok and no_skip and not rebinds}"
        if from_file and body_ok and no_skip and not rebinds:
            good = True
            break
    if good:
        ck.ok("C15.R4", load.qualname, "for key, value in loaded.items(): setattr(self, key, value)", detail=detail)
    else:
        ck.violation("C15.R4", load.qualname, "load restores every stored key",
                     f"load does not set every key of the file unconditionally: {detail}", loc=load.loc())
    # read-only
    for m in (ad, save):
        s = eng.summary(m)
        effs = [e for e in s.effects if e.origin[0] in ("P", "G")]
        if not effs:
            ck.ok("C15.R4", m.qualname, "does not modify the settings object")
        for (func, text), es in group_effects(prog, effs).items():
            ck.violation("C15.R4", func, text, f"{m.qualname} modifies state: {describe_effect(es[0])}", loc=es[0].chain[0].loc, path=chain_text(es[0]))
