"""C19 - command-line batch output equals the per-file library pipeline."""
from __future__ import annotations

import ast

from ..astutil import call_name, calls_in, dotted, names_loaded, own_nodes, unparse, kwarg, bind_call
from ..dataflow import value_sources, reaching, PARAM
from ..model import AnalysisError, Program, norm_key
from ..report import Checker
from .common import engine, group_effects, describe_effect, chain_text

EXPLANATION = (
    "Effect analysis of the CLI worker cli._process_hvsr through read/preprocess/process/write (all resolved "
    "callees) plus def-use role checks of the worker and of the pool dispatch. Decided: (R1) no reachable "
    "statement mutates an object that came in through one of the worker's shared arguments (the two settings "
    "objects and the option dict are shared by all tasks of a chunk) or a module-level object, so tasks "
    "share nothing and chunking/order/--nproc cannot matter; (R2) the worker is read -> preprocess -> process "
    "-> write on the task's own file with the matching settings object, and every output file name depends "
    "on the task's own fname only; (R3) the pool maps the worker over zip(file names, repeat(preprocessing "
    "settings), repeat(processing settings), repeat(options)) in the worker's parameter order, each settings "
    "object loaded from its own option; the file_names argument is declared so that every name reaches the worker as "
    "typed (no path rewriting, nargs=-1). Not decided: multiprocessing itself, file-system collisions of equal "
    "stems.")

RULES = {
    "C19.R1": "no statement reachable from the worker mutates a shared argument or module-level object",
    "C19.R2a": "worker pipeline: read(fname) -> preprocess(., preprocessing_settings) -> process(., processing_settings) -> write(result, name(fname))",
    "C19.R2b": "every output file name is a function of the task's own fname only",
    "C19.R3": "pool dispatch passes (fname, preprocessing settings, processing settings, options) in the worker's parameter order, each loaded from its own option",
}

WORKER = "cli._process_hvsr"


def _resolve_call(prog: Program, mod, call: ast.Call):
    d = dotted(call.func)
    if d is None:
        return None
    parts = d.split(".")
    r = prog.resolve_name(mod, parts[0])
    if r is None:
        return None
    if r[0] == "func" and len(parts) == 1:
        return r[1].qualname
    if r[0] == "module_pkg" and len(parts) == 2:
        rr = prog.resolve_pkg_attr(r[1], parts[1])
        if rr and rr[0] == "func":
            return rr[1].qualname
    return None


def run(ck: Checker, prog: Program, tier: str):
    eng = engine(prog)
    w = prog.func(WORKER)
    mod = w.module
    if len(w.params) != 4:
        raise AnalysisError(f"{WORKER}: expected 4 parameters (fname, preprocessing_settings, processing_settings, settings)")
    p_fname, p_pre, p_proc, p_opt = w.params
    s = eng.summary(w)

    # the file written for an input is that input's result alone, whatever the output directory already holds
    from . import c12
    with ck.borrow(c12, "C19.R3+"):
        ck.guard(c12._writers_truncate, ck, prog)
    # the figure the worker draws before it writes must leave the result as process() returned it (rules of C20); the settings
    # objects the worker copies and loads behave as C15 states
    from . import c20, c15
    with ck.borrow(c20, "C19.R2a+"):
        ck.guard(c20._read_only, ck, prog)
    with ck.borrow(c15, "C19.R3+"):
        ck.guard(c15.run, ck, prog, tier)
    ck.guard(_always_writes, ck, prog, w)
    # ---------------------------------------------------------------- R1
    shared = [e for e in s.effects if (e.origin[0] == "P" and e.origin[1] in (1, 2, 3)) or e.origin[0] == "G"]
    if not shared:
        ck.ok("C19.R1", WORKER, f"{len(s.effects)} effects in the worker summary, none on shared arguments or globals",
              detail=f"summaries={len(eng.summaries)}")
    for (func, text), effs in group_effects(prog, shared).items():
        e = effs[0]
        ck.violation("C19.R1", func, text,
                     f"worker mutates state shared between tasks: {describe_effect(e)}",
                     loc=e.chain[0].loc, path=chain_text(e))

    # ---------------------------------------------------------------- R2a pipeline roles
    stage_calls = {}
    for c in calls_in(w.node):
        q = _resolve_call(prog, mod, c)
        if q in ("data_wrangler.read", "preprocessing.preprocess", "processing.process",
                 "object_io.write_hvsr_object_to_file"):
            stage_calls.setdefault(q, []).append(c)
    for q in ("data_wrangler.read", "preprocessing.preprocess", "processing.process",
              "object_io.write_hvsr_object_to_file"):
        if len(stage_calls.get(q, [])) != 1:
            raise AnalysisError(f"{WORKER}: expected exactly one call of {q}, found {len(stage_calls.get(q, []))}")
    c_read, c_pre = stage_calls["data_wrangler.read"][0], stage_calls["preprocessing.preprocess"][0]
    c_proc, c_write = stage_calls["processing.process"][0], stage_calls["object_io.write_hvsr_object_to_file"][0]

    def flows_from_call(expr, producer: ast.Call) -> bool:
        _params, stmts = value_sources(w, expr, expr)
        for st in stmts:
            if any(sub is producer for sub in ast.walk(st)):
                return True
        return any(sub is producer for sub in ast.walk(expr))

    def check(rule, cond, key_node, msg_ok, msg_bad):
        if cond:
            ck.ok(rule, WORKER, norm_key(key_node), detail=msg_ok)
        else:
            ck.violation(rule, WORKER, norm_key(key_node), msg_bad, loc=w.loc(key_node))

    # read gets the task's fname
    pr, _ = value_sources(w, c_read.args[0] if c_read.args else c_read, c_read)
    check("C19.R2a", pr == {p_fname}, c_read, "read() argument derives from fname only",
          f"read() argument derives from {sorted(pr)} instead of the task's own `{p_fname}`")
    # preprocess(records from read, preprocessing settings)
    a0, a1 = (c_pre.args + [None, None])[:2]
    a1 = a1 if a1 is not None else kwarg(c_pre, "settings")
    ok0 = a0 is not None and flows_from_call(a0, c_read)
    ps, _ = value_sources(w, a1, c_pre) if a1 is not None else (set(), [])
    check("C19.R2a", ok0 and ps == {p_pre}, c_pre, "preprocess(read(fname), preprocessing_settings)",
          f"preprocess() receives records-from-read={ok0}, settings derived from {sorted(ps)} (expected {p_pre})")
    # process(preprocessed, processing settings)
    a0, a1 = (c_proc.args + [None, None])[:2]
    a1 = a1 if a1 is not None else kwarg(c_proc, "settings")
    ok0 = a0 is not None and flows_from_call(a0, c_pre)
    ps, _ = value_sources(w, a1, c_proc) if a1 is not None else (set(), [])
    check("C19.R2a", ok0 and ps == {p_proc}, c_proc, "process(preprocess(...), processing_settings)",
          f"process() receives preprocessed-records={ok0}, settings derived from {sorted(ps)} (expected {p_proc})")
    # write(result of process, name)
    bound_w = bind_call(c_write, prog.func("object_io.write_hvsr_object_to_file").params)
    a0 = bound_w.get("hvsr")
    ok0 = a0 is not None and flows_from_call(a0, c_proc)
    check("C19.R2a", ok0, c_write, "write(process(...), ...)",
          "the object written is not the result of process() for this task")
    bound = bound_w
    for kwname in ("distribution_mc", "distribution_fn"):
        v = bound.get(kwname)
        if v is not None:
            good = isinstance(v, ast.Subscript) and isinstance(v.value, ast.Name) and v.value.id == p_opt \
                and isinstance(v.slice, ast.Constant) and v.slice.value == kwname
            check("C19.R2a", good, v, f"{kwname} taken from options['{kwname}']",
                  f"write(... {kwname}={unparse(v)}) does not pass options['{kwname}']")

    # ---------------------------------------------------------------- R2b output names
    outs = []
    fn_arg = bound_w.get("fname")
    if fn_arg is not None:
        outs.append(("csv", fn_arg, c_write))
    for c in calls_in(w.node, "savefig"):
        if c.args:
            outs.append(("png", c.args[0], c))
    ck.floor("C19.R2b", len(outs), 2, "output file name expressions (csv, png)")
    for kind, e, c in outs:
        pr, _ = value_sources(w, e, c)
        free = {n for n in names_loaded(e)} - {p_fname}
        modnames = {n for n in free if prog.resolve_name(mod, n) is not None and n not in w.params}
        local = free - modnames
        bad = (pr - {p_fname}) | {n for n in local if n in w.params}
        consts_only = not pr
        _p2, _st2 = value_sources(w, e, c)
        cut = [x for node in [e] + list(_st2) for x in ast.walk(node) if isinstance(x, ast.Subscript) and isinstance(x.value, ast.Call)
               and call_name(x.value) in ("split", "partition") and x.value.args and isinstance(x.value.args[0], ast.Constant) and x.value.args[0].value == "."
               and isinstance(x.slice, ast.Constant) and x.slice.value == 0]
        if cut:
            ck.violation("C19.R2b", WORKER, norm_key(e) + " [first dot]",
                         f"{kind} output name keeps only the part of the file name before its first dot (`{unparse(cut[0])}`): different input files "
                         f"of one batch (e.g. UT.STN11.A.mseed, UT.STN11.B.mseed) share one output and overwrite each other", loc=w.loc(c))
        if bad or consts_only:
            ck.violation("C19.R2b", WORKER, norm_key(e),
                         f"{kind} output name does not depend on the task's own file name only "
                         f"(depends on {sorted(pr) or 'nothing'})", loc=w.loc(c))
        else:
            ck.ok("C19.R2b", WORKER, norm_key(e), detail=f"{kind} name derives from {sorted(pr)}")

    # ---------------------------------------------------------------- R3 pool dispatch
    cli = prog.func("cli.cli")
    star = [c for c in calls_in(cli.node) if call_name(c) in ("starmap", "starmap_async")]
    if len(star) != 1:
        raise AnalysisError(f"cli.cli: expected exactly one starmap call, found {len(star)}")
    sm = star[0]
    tgt = sm.args[0] if sm.args else None
    if not (isinstance(tgt, ast.Name) and tgt.id == w.name):
        ck.violation("C19.R3", "cli.cli", norm_key(sm), f"starmap target is `{unparse(tgt)}`, not the worker {w.name}",
                     loc=cli.loc(sm))
    else:
        ck.ok("C19.R3", "cli.cli", f"starmap({w.name}, ...)")
    # the chunk size handed to the pool is a whole number (a float makes the pool's task slicing fail or hang for batches of at
    # least as many files as workers): integer literals, len(), int(), //, +, -, * and max / min of such
    cs_arg = kwarg(sm, "chunksize") or (sm.args[2] if len(sm.args) > 2 else None)
    if cs_arg is not None:
        int_names = set()
        for st_ in own_nodes(cli.node):
            if isinstance(st_, ast.Assign) and len(st_.targets) == 1 and isinstance(st_.targets[0], ast.Name):
                v_ = st_.value
                if isinstance(v_, ast.IfExp):
                    okk = all(_whole(x, int_names) or (isinstance(x, ast.Subscript)) for x in (v_.body, v_.orelse))
                else:
                    okk = _whole(v_, int_names)
                if okk:
                    int_names.add(st_.targets[0].id)
        if _whole(cs_arg, int_names):
            ck.ok("C19.R3", "cli.cli", f"chunksize={unparse(cs_arg)} is a whole number", nontrivial=False)
        else:
            ck.violation("C19.R3", "cli.cli", f"chunksize={unparse(cs_arg)[:60]}", f"the chunk size `{unparse(cs_arg)}` is not a whole number by construction (true division?): "
                         f"multiprocessing cannot slice the task list with it - a batch with at least as many files as workers produces no result", loc=cli.loc(sm))
    # an option the user leaves out means what the library means by leaving it out: the declared defaults of the distribution
    # options are the defaults of the writer they are handed to
    wr = prog.func("object_io.write_hvsr_object_to_file")
    wd = wr.defaults()
    n_opt = 0
    for deco in cli.node.decorator_list:
        if not (isinstance(deco, ast.Call) and call_name(deco) == "option" and deco.args and isinstance(deco.args[0], ast.Constant) and isinstance(deco.args[0].value, str)):
            continue
        oname = deco.args[0].value.lstrip("-").replace("-", "_")
        if oname not in wd or not oname.startswith("distribution"):
            continue
        n_opt += 1
        dv = kwarg(deco, "default")
        lib = wd[oname]
        if dv is not None and isinstance(dv, ast.Constant) and isinstance(lib, ast.Constant) and dv.value == lib.value:
            ck.ok("C19.R3", "cli.cli", f"--{oname} defaults to {lib.value!r} like the writer", nontrivial=False)
        else:
            ck.violation("C19.R3", "cli.cli", f"default of --{oname}", f"the option --{oname} defaults to {unparse(dv) if dv is not None else None} while "
                         f"write_hvsr_object_to_file defaults to {unparse(lib)}: without the option the file differs from what the library pipeline writes", loc=cli.loc(deco))
    ck.floor("C19.R3", n_opt, 2, "distribution options of the command line")
    z = sm.args[1] if len(sm.args) > 1 else None
    rd = reaching(cli)
    # the task iterable: zip(files, repeat(a), repeat(b), repeat(c)) or [(file, a, b, c) for file in files]
    if isinstance(z, ast.Name):
        defs = rd.def_stmts(z.id, sm)
        if len(defs) == 1 and isinstance(defs[0], ast.Assign):
            z = defs[0].value
    comps: List[ast.AST] = []
    problems: List[str] = []
    seq = None
    if isinstance(z, ast.Call) and call_name(z) == "zip" and len(z.args) == len(w.params):
        seq = z.args[0]
        comps.append(seq)
        for i, a in enumerate(z.args[1:], start=1):
            if isinstance(a, ast.Call) and call_name(a) == "repeat" and a.args:
                if len(a.args) > 1 or a.keywords:
                    problems.append(f"zip argument {i} `{norm_key(a, 60)}` is repeated a limited number of times: zip stops there and the remaining files are never processed")
                comps.append(a.args[0])
            else:
                problems.append(f"zip argument {i} should be itertools.repeat(...)")
                comps.append(a)
    elif isinstance(z, (ast.ListComp, ast.GeneratorExp)) and len(z.generators) == 1 and not z.generators[0].ifs \
            and isinstance(z.elt, ast.Tuple) and len(z.elt.elts) == len(w.params) and isinstance(z.generators[0].target, ast.Name):
        g = z.generators[0]
        seq = g.iter
        if not (isinstance(z.elt.elts[0], ast.Name) and z.elt.elts[0].id == g.target.id):
            problems.append(f"the first element of a task is `{unparse(z.elt.elts[0])}`, not the file of that task")
        comps = [seq] + list(z.elt.elts[1:])
    else:
        raise AnalysisError("cli.cli: the task iterable of starmap is neither zip(files, repeat(..)...) nor a comprehension of task tuples")

    def loaded_from_option(expr) -> str:
        """name of the CLI option a value was loaded from (through read_settings_object_from_file / kwargs.pop)."""
        _p, stmts = value_sources(cli, expr, sm)
        opts = set()
        for node in [expr] + stmts:
            for c in calls_in(node):
                if call_name(c) in ("pop", "get") and c.args and isinstance(c.args[0], ast.Constant):
                    opts.add(c.args[0].value)
            for sub in ast.walk(node):
                if isinstance(sub, ast.Subscript) and isinstance(sub.slice, ast.Constant) and isinstance(sub.slice.value, str):
                    opts.add(sub.slice.value)
        return ",".join(sorted(opts))
    for pr_ in problems:
        ck.violation("C19.R3", "cli.cli", pr_[:80], pr_, loc=cli.loc(sm))
    expect = ["file_names", "preprocessing_settings_file", "processing_settings_file", None]
    for i, (a, opt) in enumerate(zip(comps, expect)):
        if opt is None:
            good = isinstance(a, ast.Name) and a.id == (cli.kwarg or "kwargs")
            src = unparse(a)
        else:
            src = loaded_from_option(a)
            good = src == opt
        if good:
            ck.ok("C19.R3", "cli.cli", f"task component {i}: {norm_key(a)}", detail=f"from option {src} -> worker param {w.params[i]}")
        else:
            ck.violation("C19.R3", "cli.cli", norm_key(a),
                         f"worker parameter `{w.params[i]}` receives a value loaded from `{src}` (expected {opt or 'the option dict'})",
                         loc=cli.loc(a))
    ck.guard(_file_argument, ck, prog, cli)
    # settings loaded through the dispatching reader
    for c in calls_in(cli.node, "read_settings_object_from_file"):
        q = _resolve_call(prog, cli.module, c)
        if q != "object_io.read_settings_object_from_file":
            ck.violation("C19.R3", "cli.cli", norm_key(c), "settings are not loaded through object_io.read_settings_object_from_file",
                         loc=cli.loc(c))
    ck.extra["worker_effects"] = [describe_effect(e) for e in s.effects][:30]
    ck.extra["calls_resolved"] = eng.calls_resolved
    ck.extra["externals_assumed_pure"] = dict(eng.assumed_pure)
    from .common import check_identity_comparisons as _cic
    ck.guard(_cic, ck, prog, "C19.R1", "C19")


#: keyword arguments of click.Path that only validate the string (it reaches the worker as typed by the user)
PATH_VALIDATION_ONLY = {"exists", "file_okay", "dir_okay", "readable", "writable", "executable", "allow_dash"}
#: keyword arguments that rewrite the string (absolute path, resolved links, another type)
PATH_REWRITING = {"resolve_path", "path_type"}


def _distribution_options(ck: Checker, prog: Program):
    """The distributions under which the written mean curve / fn statistics are computed are the ones asked for on the command
    line: the worker hands options['distribution_mc'] / options['distribution_fn'] to the writer's parameters of the same name."""
    w = prog.func(WORKER)
    p_opt = w.params[3]
    calls = [c for c in calls_in(w.node) if _resolve_call(prog, w.module, c) == "object_io.write_hvsr_object_to_file"]
    if len(calls) != 1:
        raise AnalysisError(f"{WORKER}: expected exactly one call of the writer")
    bound = bind_call(calls[0], prog.func("object_io.write_hvsr_object_to_file").params)
    n = 0
    for kwname in ("distribution_mc", "distribution_fn"):
        v = bound.get(kwname)
        if v is None:
            continue
        n += 1
        good = isinstance(v, ast.Subscript) and isinstance(v.value, ast.Name) and v.value.id == p_opt and isinstance(v.slice, ast.Constant) and v.slice.value == kwname
        if good:
            ck.ok("C19.R2a", WORKER, f"{kwname} taken from options['{kwname}']", nontrivial=False)
        else:
            ck.violation("C19.R2a", WORKER, f"writer option {kwname}", f"write(... {kwname}={unparse(v)}) does not pass options['{kwname}']: the statistics in the file are computed "
                         f"under another distribution than the one requested", loc=w.loc(calls[0]))
    ck.floor("C19.R2a", n, 2, "distribution options handed to the writer")


def _whole(e: ast.AST, ints) -> bool:
    """The expression is an int whatever the data: literals, len / int / os.cpu_count, names known to be whole, and + - * // max min of such."""
    if isinstance(e, ast.Constant):
        return isinstance(e.value, int) and not isinstance(e.value, bool)
    if isinstance(e, ast.Name):
        return e.id in ints
    if isinstance(e, ast.Call):
        nm = call_name(e)
        if nm in ("int", "len", "cpu_count", "ceil", "floor", "trunc") or (nm == "round" and len(e.args) == 1):
            return True
        if nm in ("max", "min") and e.args and not e.keywords:
            return all(_whole(a, ints) for a in e.args)
        return False
    if isinstance(e, ast.BinOp) and isinstance(e.op, (ast.Add, ast.Sub, ast.Mult, ast.FloorDiv, ast.Mod)):
        return _whole(e.left, ints) and _whole(e.right, ints)
    if isinstance(e, ast.IfExp):
        return _whole(e.body, ints) and _whole(e.orelse, ints)
    return False


def _always_writes(ck: Checker, prog: Program, w):
    """Every path through the worker that does not fail writes the result - unless the user asked for no file.  A shortcut that
    returns early because of what the output directory already holds (an "up to date" test) leaves a result that other settings,
    options or another version produced."""
    from ..pathtable import PathTable, literals, same_rel
    import sympy as sp
    leaves = PathTable(prog, w.module, structured=True).leaves([st for st in w.node.body if not (isinstance(st, ast.Expr) and isinstance(st.value, ast.Constant))])
    NOFILE = sp.Eq(sp.Function("truth")(sp.Function("getitem")(sp.Symbol(w.params[3], real=True), sp.Symbol("'no_file'"))), sp.true, evaluate=False)
    n = bad = 0
    why = ""
    for l in leaves:
        if l.exit == "raise":
            continue
        n += 1
        wrote = any(e[0] == "call" and e[1].split(".")[-1] == "write_hvsr_object_to_file" for e in l.events)
        asked_not_to = any(same_rel(x, NOFILE) for x in literals(l))
        if not wrote and not asked_not_to:
            bad += 1
            why = why or "; ".join(str(c)[:60] for c, _t in l.conds[:2])
    if n == 0:
        raise AnalysisError(f"{w.qualname}: no path through the worker")
    if bad == 0:
        ck.ok("C19.R2a", w.qualname, "the result is written on every path unless `no_file` was requested", detail=f"{n} path(s)")
    else:
        ck.violation("C19.R2a", w.qualname, "result written", f"{bad} of {n} paths through the worker end without writing the result although a file was requested "
                     f"(taken when {why or 'unconditionally'}): the output then does not depend on this run's settings and options alone", loc=w.loc())


def _file_argument(ck: Checker, prog: Program, cli):
    """The worker derives the record's meta and the output names from the file name: the command line must hand it over as typed."""
    decl = None
    for d in cli.node.decorator_list:
        if isinstance(d, ast.Call) and call_name(d) == "argument" and d.args and isinstance(d.args[0], ast.Constant) and d.args[0].value == "file_names":
            decl = d
    if decl is None:
        raise AnalysisError("cli.cli: declaration of the `file_names` argument not found")
    for kw in decl.keywords:
        if kw.arg == "callback":
            raise AnalysisError("cli.cli: `file_names` goes through a callback; not analysed")
    ty = kwarg(decl, "type")
    bad = None
    if ty is None or (isinstance(ty, ast.Name) and ty.id == "str") or dotted(ty) in ("click.STRING", "click.UNPROCESSED"):
        pass
    elif isinstance(ty, ast.Call) and (dotted(ty.func) or "").split(".")[-1] == "Path":
        if ty.args:
            raise AnalysisError("cli.cli: positional arguments of click.Path are not analysed")
        for kw in ty.keywords:
            falsy = isinstance(kw.value, ast.Constant) and not kw.value.value
            if kw.arg in PATH_REWRITING and not falsy:
                bad = f"click.Path({kw.arg}={unparse(kw.value)}) rewrites every file name before the pipeline sees it"
            elif kw.arg not in PATH_VALIDATION_ONLY | PATH_REWRITING:
                raise AnalysisError(f"cli.cli: click.Path option `{kw.arg}` is not classified")
    else:
        raise AnalysisError(f"cli.cli: type `{unparse(ty)}` of the `file_names` argument is not classified")
    if bad:
        ck.violation("C19.R3", "cli.cli", "file_names declaration",
                     f"{bad}: the meta written into the result and the output stem no longer belong to the file as the user named it "
                     f"(two links to like-named targets overwrite each other)", loc=cli.loc(decl))
    else:
        ck.ok("C19.R3", "cli.cli", "file_names reach the worker as typed", detail=unparse(decl))
    n = kwarg(decl, "nargs")
    if n is not None and isinstance(n, ast.UnaryOp) and isinstance(n.op, ast.USub) and isinstance(n.operand, ast.Constant) and n.operand.value == 1:
        ck.ok("C19.R3", "cli.cli", "file_names takes every file of the command line (nargs=-1)", nontrivial=False)
    else:
        ck.violation("C19.R3", "cli.cli", "file_names nargs", f"the `file_names` argument is declared with nargs={unparse(n) if n is not None else 'default'}: "
                     f"not every file of the batch is processed", loc=cli.loc(decl))
