"""C01 - HVSR curves equal the defined spectral ratio for every combination method."""
from __future__ import annotations

import ast
from typing import Dict, List

import sympy as sp

from ..astutil import call_name, calls_in, own_nodes, unparse, kwarg
from ..dataflow import reaching
from ..expr import Translator, equal, forward_substitute, degree, LINEAR_FUNCS
from ..model import AnalysisError, Program, norm_key, parent_of
from ..report import Checker
from . import fftlen
from . import c03 as C03
from .procmodel import ROW_BODIES, extract_body, RowExec, NS, EW, VT, taper, rfft_, combine

EXPLANATION = (
    "Formula canonicalisation, registry tables, role and degree rules over processing.py. Decided: (R1) the "
    "return expression of each combine function equals its defining formula ((a+b)/2, sqrt((a^2+b^2)/2), "
    "sqrt(ab), sqrt(a^2+b^2), max(a,b), a cos t + b sin t) and is homogeneous of degree 1; (R2) every alias key of "
    "the combine register maps to the function of the mean it names, every combine key is a traditional-"
    "processing key mapped to the frequency-domain body, single_azimuth/directional_energy/rotdpp map to the "
    "time-domain bodies, PROCESSING_METHODS covers the four methods and process() dispatches on "
    "settings.processing_method; (R3) pipeline shape per body: what is written to the horizontal row is "
    "combine(|rfft(taper(copy ns))|, |rfft(taper(copy ew))|) (frequency-domain) or |rfft(taper(copy projection))| "
    "(azimuth bodies, projection before taper), the vertical row is |rfft(taper(copy vt))|, rfft always with "
    "**settings.fft_settings, taper always with *settings.window_type_and_width, smoothing by the configured "
    "operator/bandwidth over (fft frequencies of settings.fft_settings['n'] and the group's dt) at fcs; (R4) "
    "numerator/denominator roles: rows [0,count) horizontals over rows [count,2count) verticals, RotDpp "
    "percentile rows over the last row, diffuse field sqrt(row0/row1) with row0 = Pns+Pew and row1 = Pvt, and "
    "the per-record row bookkeeping of C03.R1; (R5) degrees: the row expressions have degree 1 in the horizontals "
    "resp. the vertical, so the ratio has degree (+1,-1) and 0 under a common factor; (R6) the frequencies handed "
    "to the smoothing operator as fcs are those handed to the result; (R7) zero padding, never truncation: every "
    "FFT length stored by prepare_fft_settings is >= the longest record (decision table, nextpow2 > n). Not "
    "decided: numerical equality of a returned curve with an independently computed ratio; numpy's FFT; "
    "fft_settings keys other than n.")

RULES = {
    "C01.R1": "combine functions equal their defining formulas and are homogeneous of degree 1",
    "C01.R2": "registries: aliases -> the mean they name; processing registers consistent; process() dispatch",
    "C01.R3": "pipeline shape: copy -> (project) -> taper -> rfft(**fft_settings) -> abs -> combine; smoothing call wiring",
    "C01.R4": "numerator/denominator roles (rows, RotDpp percentile rows, diffuse field) and per-record row bookkeeping",
    "C01.R5": "row expressions have degree 1 in their component(s): ratio degree (+1, -1)",
    "C01.R6": "smoothing centre frequencies == result frequencies == configured centre frequencies",
    "C01.R7": "stored FFT length >= longest record on every path (zero padding, never truncation)",
}

P = "C01."     # rule-id prefix (C17 reuses the diffuse-field and smoothing-call rules under its own ids)
HOMOG = {name: 1 for name in LINEAR_FUNCS}
HOMOG.update({"proj": 2, "combine": 2})

RULES.update({f"C01.R4#{k[4:]}": "(row bookkeeping, shared with C03) " + v for k, v in C03.RULES.items()})

a, b, t = sp.symbols("a b t", positive=True)
FORMULAS = {
    "arithmetic_mean": (a + b) / 2,
    "squared_average": sp.sqrt((a ** 2 + b ** 2) / 2),
    "geometric_mean": sp.sqrt(a * b),
    "total_horizontal_energy": sp.sqrt(a ** 2 + b ** 2),
    "maximum_horizontal_value": sp.Max(a, b),
}
ALIASES = {
    "arithmetic_mean": "arithmetic_mean", "squared_average": "squared_average", "quadratic_mean": "squared_average",
    "root_mean_square": "squared_average", "effective_amplitude_spectrum": "squared_average",
    "geometric_mean": "geometric_mean", "total_horizontal_energy": "total_horizontal_energy",
    "vector_summation": "total_horizontal_energy", "maximum_horizontal_value": "maximum_horizontal_value",
}
TIME_DOMAIN = {"single_azimuth": "traditional_single_azimuth_hvsr_processing",
               "directional_energy": "traditional_single_azimuth_hvsr_processing",
               "rotdpp": "traditional_rotdpp_hvsr_processing"}


def run(ck: Checker, prog: Program, tier: str):
    ck.guard(_r1, ck, prog)
    ck.guard(_r1_projection, ck, prog)
    ck.guard(_r2, ck, prog)
    for q in ROW_BODIES:
        ck.guard(_body, ck, prog, q)
    ck.guard(_diffuse, ck, prog)
    ck.guard(_r7, ck, prog)


def _r1(ck: Checker, prog: Program):
    for name, want in FORMULAS.items():
        f = prog.func(f"processing.{name}")
        if f.params[:2] != ["ns", "ew"]:
            ck.violation("C01.R1", f.qualname, "parameters", f"parameters are {f.params}; callers pass (ns, ew, settings)", loc=f.loc())
            continue
        T = Translator(env={"ns": a, "ew": b})
        forward_substitute([st for st in f.node.body if isinstance(st, ast.Assign)], T)
        rets = [r for r in own_nodes(f.node) if isinstance(r, ast.Return)]
        if len(rets) != 1:
            ck.violation("C01.R1", f.qualname, "single return", f"{len(rets)} return statements", loc=f.loc())
            continue
        got = T.tr(rets[0].value)
        if equal(got, want):
            d = degree(got, {a: 1, b: 1})
            ck.ok("C01.R1", f.qualname, norm_key(rets[0]), detail=f"= {want}; degree {d}")
            if d != 1:
                ck.violation("C01.R5", f.qualname, "degree", f"degree of {name} in (ns, ew) is {d}, expected 1", loc=f.loc())
        else:
            ck.violation("C01.R1", f.qualname, norm_key(rets[0]), f"{name} returns {got}; the defining formula is {want}", loc=f.loc(rets[0]))


def _r1_projection(ck: Checker, prog: Program):
    f = prog.func("processing.single_azimuth")
    if f.params[:2] != ["ns", "ew"]:
        ck.violation("C01.R1", f.qualname, "parameters", f"parameters are {f.params}; callers pass (ns, ew, azimuth)", loc=f.loc())
        return
    T = Translator(env={"ns": a, "ew": b, f.params[2]: t})
    forward_substitute([st for st in f.node.body if isinstance(st, ast.Assign)], T)
    rets = [r for r in own_nodes(f.node) if isinstance(r, ast.Return)]
    if len(rets) != 1:
        ck.violation("C01.R1", f.qualname, "single return", f"{len(rets)} return statements", loc=f.loc())
        return
    got = T.tr(rets[0].value)
    want = a * sp.cos(t * sp.pi / 180) + b * sp.sin(t * sp.pi / 180)
    if equal(got, want):
        ck.ok("C01.R1", f.qualname, norm_key(rets[0]), detail="projection on azimuth t (degrees): a cos t + b sin t; linear in (ns, ew)")
    else:
        ck.violation("C01.R1", f.qualname, norm_key(rets[0]), f"single_azimuth returns {got}; the defining formula is {want}", loc=f.loc(rets[0]))


def _r2(ck: Checker, prog: Program):
    reg = prog.registry("processing", "COMBINE_HORIZONTAL_REGISTER")
    if set(reg) != set(ALIASES):
        ck.violation("C01.R2", "processing.COMBINE_HORIZONTAL_REGISTER", "keys", f"keys {sorted(reg)} != {sorted(ALIASES)}", loc="hvsrpy/processing.py")
    for k, v in reg.items():
        want = ALIASES.get(k)
        if want is not None and isinstance(v, ast.Name) and v.id == want:
            ck.ok("C01.R2", "processing.COMBINE_HORIZONTAL_REGISTER", f"'{k}' -> {v.id}")
        elif want is not None:
            ck.violation("C01.R2", "processing.COMBINE_HORIZONTAL_REGISTER", f"'{k}'",
                         f"method name '{k}' is bound to `{unparse(v)}` but names the {want.replace('_', ' ')}", loc=f"hvsrpy/processing.py:{v.lineno}")
    treg = prog.registry("processing", "TRADITIONAL_PROCESSING_REGISTER")
    want_t = {k: "traditional_hvsr_processing" for k in ALIASES}
    want_t.update(TIME_DOMAIN)
    for k, fn in want_t.items():
        v = treg.get(k)
        if isinstance(v, ast.Name) and v.id == fn:
            ck.ok("C01.R2", "processing.TRADITIONAL_PROCESSING_REGISTER", f"'{k}' -> {fn}")
        else:
            ck.violation("C01.R2", "processing.TRADITIONAL_PROCESSING_REGISTER", f"'{k}'",
                         f"'{k}' is processed by `{unparse(v) if v is not None else None}`, expected {fn}", loc="hvsrpy/processing.py")
    for k in set(treg) - set(want_t):
        ck.violation("C01.R2", "processing.TRADITIONAL_PROCESSING_REGISTER", f"'{k}'", "unknown method key", loc="hvsrpy/processing.py")
    preg = prog.registry("processing", "PROCESSING_METHODS")
    want_p = {"traditional": "traditional_hvsr_processing_base", "azimuthal": "azimuthal_hvsr_processing",
              "diffuse_field": "diffuse_field_hvsr_processing", "psd": "rpsd"}
    for k, fn in want_p.items():
        v = preg.get(k)
        if isinstance(v, ast.Name) and v.id == fn:
            ck.ok("C01.R2", "processing.PROCESSING_METHODS", f"'{k}' -> {fn}")
        else:
            ck.violation("C01.R2", "processing.PROCESSING_METHODS", f"'{k}'", f"'{k}' -> `{unparse(v) if v is not None else None}`, expected {fn}", loc="hvsrpy/processing.py")
    # dispatchers
    for fq, regname, key in (("processing.process", "PROCESSING_METHODS", "settings.processing_method"),
                             ("processing.traditional_hvsr_processing_base", "TRADITIONAL_PROCESSING_REGISTER", "settings.method_to_combine_horizontals")):
        f = prog.func(fq)
        rets = [r for r in own_nodes(f.node) if isinstance(r, ast.Return)]
        T = Translator()
        forward_substitute([st for st in f.node.body if isinstance(st, ast.Assign)], T)
        src = unparse(rets[0].value) if len(rets) == 1 else ""
        ok1 = src == f"{regname}[{key}](records, settings)"
        ok2 = False
        if len(rets) == 1 and isinstance(rets[0].value, ast.Call) and isinstance(rets[0].value.func, ast.Name):
            d = [st for st in f.node.body if isinstance(st, ast.Assign) and unparse(st.targets[0]) == rets[0].value.func.id]
            ok2 = len(d) == 1 and unparse(d[0].value) == f"{regname}[{key}]" and [unparse(x) for x in rets[0].value.args] == ["records", "settings"]
        if ok1 or ok2:
            ck.ok("C01.R2", fq, f"dispatch {regname}[{key}](records, settings)")
        else:
            ck.violation("C01.R2", fq, "dispatch", f"does not dispatch as {regname}[{key}](records, settings)", loc=f.loc())


def _smoothing_call(ck: Checker, f, scope: List[ast.stmt], raw_name: str, dt_expr: str, what: str):
    """smooth_spectra = SMOOTHING_OPERATORS[operator](fft_frq, <raw>, fcs, bandwidth) with the configured operator/bandwidth."""
    q = f.qualname
    calls = [c for st in scope for c in calls_in(st) if isinstance(c.func, ast.Subscript) and unparse(c.func.value) == "SMOOTHING_OPERATORS"]
    if len(calls) != 1:
        ck.violation(P + "R3", q, f"{what}: smoothing call", f"expected one SMOOTHING_OPERATORS[...] call, found {len(calls)}", loc=f.loc())
        return None
    c = calls[0]
    args = [unparse(x) for x in c.args]
    opk = unparse(c.func.slice)
    rd = reaching(f)

    class _Env:
        """value text of the single definition of a name that reaches the smoothing call"""
        def get(self, name, default=None):
            if name is None:
                return default
            defs = rd.def_stmts(name, c)
            if len(defs) != 1 or not isinstance(defs[0], ast.Assign):
                return default
            d = defs[0]
            t = d.targets[0]
            if isinstance(t, ast.Tuple) and isinstance(d.value, ast.Tuple):
                for e, v in zip(t.elts, d.value.elts):
                    if unparse(e) == name:
                        return unparse(v)
                return default
            return unparse(d.value)
    env = _Env()
    good = len(args) == 4 and not c.keywords and args[1] == raw_name and args[2] == "fcs" \
        and env.get(opk) == "settings.smoothing['operator']" and env.get(args[3]) == "settings.smoothing['bandwidth']"
    frq = env.get(args[0]) if args else None
    good_f = frq in (f"np.fft.rfftfreq(settings.fft_settings['n'], {dt_expr})", f"rfftfreq(settings.fft_settings['n'], {dt_expr})")
    if good and good_f:
        ck.ok(P + "R3", q, norm_key(c, 110), detail=f"{what}: operator/bandwidth from settings; frequencies of the padded FFT at the group's time step; evaluated at fcs")
    else:
        ck.violation(P + "R3", q, norm_key(c, 110),
                     f"{what}: the smoothing call is not OPERATORS[settings.smoothing['operator']](rfftfreq(settings.fft_settings['n'], {dt_expr}), {raw_name}, fcs, "
                     f"settings.smoothing['bandwidth']) (args {args}; operator {env.get(opk)}; bandwidth {env.get(args[3]) if len(args) > 3 else None}; frequencies {frq})",
                     loc=f.loc(c))
    ck.ok(P + "R6", q, "smoothing evaluated at fcs", nontrivial=False) if len(args) > 2 and args[2] == "fcs" else \
        ck.violation(P + "R6", q, "smoothing centre frequencies", f"the smoothing operator is evaluated at `{args[2] if len(args) > 2 else None}`, not at fcs", loc=f.loc(c))
    return c


def _body(ck: Checker, prog: Program, q: str):
    b = extract_body(prog, q)
    f = b.func
    rotd = q.endswith("rotdpp_hvsr_processing")
    single = q.endswith("single_azimuth_hvsr_processing")
    az = sp.Symbol("azimuth", real=True)
    ex = RowExec(prog, b, az)
    stmts = [st for st in b.record_loop.body if st is not b.filter_if]
    ex.run(stmts)
    for n in ex.notes:
        ck.violation("C01.R3", q, n, n, loc=f.loc(b.record_loop))
    for st in ex.inplace_on_record:
        ck.violation("C01.R3", q, norm_key(st), "the taper is applied to the caller's record instead of a copy: a record processed twice (or listed twice) "
                     "is tapered twice and its curve is no longer the defined ratio", loc=f.loc(st))
    proj = sp.Function("proj")
    if rotd:
        want = {"raw_spectra_per_record[-1]": sp.Abs(rfft_(taper(VT))), "raw_spectra_per_record[idx]": sp.Abs(rfft_(taper(proj(NS, EW, az))))}
        got = {}
        for k, v in ex.rows.items():
            if k.startswith("raw_spectra_per_record"):
                got["raw_spectra_per_record[-1]" if k.endswith("[-1]") else "raw_spectra_per_record[idx]"] = v
    elif single:
        want = {"raw_spectra[hor_idx]": sp.Abs(rfft_(taper(proj(NS, EW, ex.T.sym("settings.azimuth_in_degrees"))))),
                "raw_spectra[ver_idx]": sp.Abs(rfft_(taper(VT)))}
        got = {k: v for k, v in ex.rows.items() if k.startswith("raw_spectra[")}
    else:
        want = {"raw_spectra[hor_idx]": combine(sp.Abs(rfft_(taper(NS))), sp.Abs(rfft_(taper(EW)))),
                "raw_spectra[ver_idx]": sp.Abs(rfft_(taper(VT)))}
        got = {k: v for k, v in ex.rows.items() if k.startswith("raw_spectra[")}
    for k, w in want.items():
        g = got.get(k)
        role = "vertical" if ("ver_idx" in k or k.endswith("[-1]")) else "horizontal"
        if g is not None and equal(g, w):
            ck.ok("C01.R3", q, f"{k} = {w}", detail=f"{role} row")
            scale = {VT: 1} if role == "vertical" else {NS: 1, EW: 1}
            d = degree(g, scale, HOMOG)
            if d == 1:
                ck.ok("C01.R5", q, f"{role} row has degree 1", detail=str(g))
            else:
                ck.violation("C01.R5", q, f"{role} row degree", f"degree of the {role} row is {d}, expected 1", loc=f.loc(b.record_loop))
            other = {NS: 1, EW: 1} if role == "vertical" else {VT: 1}
            if degree(g, other, HOMOG) != 0:
                ck.violation("C01.R4", q, f"{role} row purity", f"the {role} row depends on the other component(s): {g}", loc=f.loc(b.record_loop))
        else:
            ck.violation("C01.R3", q, k,
                         f"the {role} row receives {g}; the definition requires {w} "
                         f"(copy, {'project, ' if role == 'horizontal' and (rotd or single) else ''}taper, rfft with the padded length, magnitude"
                         f"{', combine' if role == 'horizontal' and not (rotd or single) else ''})", loc=f.loc(b.record_loop))
    # combine method comes from the register with the configured key
    if not (rotd or single):
        m = [st for st in b.record_loop.body if isinstance(st, ast.Assign) and unparse(st.targets[0]) == "method"]
        if len(m) == 1 and unparse(m[0].value) == "COMBINE_HORIZONTAL_REGISTER[settings.method_to_combine_horizontals]":
            ck.ok("C01.R3", q, norm_key(m[0]))
        else:
            ck.violation("C01.R3", q, "combine method", "the combine function is not COMBINE_HORIZONTAL_REGISTER[settings.method_to_combine_horizontals]", loc=f.loc(b.record_loop))
    # smoothing + ratio
    if rotd:
        _smoothing_call(ck, f, b.group_loop.body, "raw_spectra_per_record", b.dt_var, "per record")
        # percentile/ratio roles are C04.R5; repeat the role part here
        pc = calls_in(b.record_loop, "percentile")
        ratio = [st for st in b.record_loop.body if isinstance(st, ast.Assign) and unparse(st.targets[0]) == "hvsr_spectra[hvsr_idx]"]
        env = {unparse(st.targets[0]): unparse(st.value) for st in b.record_loop.body if isinstance(st, ast.Assign) and isinstance(st.targets[0], ast.Name)}
        good = len(pc) == 1 and unparse(pc[0].args[0]) == "smooth_spectra[:-1]" and kwarg(pc[0], "axis") is not None and unparse(kwarg(pc[0], "axis")) == "0" \
            and len(ratio) == 1 and unparse(ratio[0].value) == "smooth_h / smooth_v" and env.get("smooth_v") == "smooth_spectra[-1]" \
            and env.get("smooth_h", "").startswith("np.percentile(smooth_spectra[:-1]")
        if good:
            ck.ok("C01.R4", q, "percentile over the azimuth rows / last (vertical) row")
        else:
            ck.violation("C01.R4", q, "RotDpp ratio", "the curve is not percentile(smoothed azimuth rows, axis 0) / smoothed vertical row", loc=f.loc(b.record_loop))
    else:
        _smoothing_call(ck, f, [st for st in b.group_loop.body if st is not b.record_loop], "raw_spectra", b.dt_var, "per group")
    # bookkeeping of rows (C03.R1) under this property's ids
    old = C03.P
    C03.P = "C01.R4#"
    try:
        C03._body(ck, prog, q)
    finally:
        C03.P = old
    # result
    if b.ctor is not None and unparse(b.ctor.args[0]) == "fcs":
        d = [st for st in f.node.body if isinstance(st, ast.Assign) and unparse(st.targets[0]) == "fcs"]
        if len(d) == 1 and unparse(d[0].value) == "np.array(settings.smoothing['center_frequencies_in_hz'])":
            ck.ok("C01.R6", q, "result frequency = fcs = configured centre frequencies")
        else:
            ck.violation("C01.R6", q, "fcs", "fcs is not the configured centre frequencies", loc=f.loc())
    else:
        ck.violation("C01.R6", q, "result frequency", "the result is not built on fcs", loc=f.loc())


def _diffuse(ck: Checker, prog: Program):
    f = prog.func("processing.diffuse_field_hvsr_processing")
    q = f.qualname
    env = {}
    for st in f.node.body:
        if isinstance(st, ast.Assign) and isinstance(st.targets[0], ast.Name):
            env[st.targets[0].id] = st
    comp = {}
    for nm in ("psd_ns", "psd_ew", "psd_vt"):
        st = env.get(nm)
        want = f"_rpds_single_component([record.{nm[-2:]} for record in records], settings)"
        if st is not None and unparse(st.value) == want:
            ck.ok(P + "R4", q, f"{nm} from component {nm[-2:]}")
        else:
            ck.violation(P + "R4", q, nm, f"`{nm}` is computed as `{unparse(st.value) if st is not None else None}`; expected {want}", loc=f.loc())
    sp_st = env.get("spectra")
    if sp_st is not None and unparse(sp_st.value) in ("np.array([psd_ns + psd_ew, psd_vt])", "np.array([psd_ew + psd_ns, psd_vt])"):
        ck.ok(P + "R4", q, norm_key(sp_st), detail="row 0 = Pns + Pew, row 1 = Pvt")
    else:
        ck.violation(P + "R4", q, "diffuse-field rows", f"rows are `{unparse(sp_st.value) if sp_st is not None else None}`; expected [Pns + Pew, Pvt]", loc=f.loc())
    _smoothing_call(ck, f, f.node.body, "spectra", "records[0].vt.dt_in_seconds", "diffuse field")
    rets = [r for r in own_nodes(f.node) if isinstance(r, ast.Return)]
    good = False
    if len(rets) == 1 and isinstance(rets[0].value, ast.Call) and call_name(rets[0].value) == "HvsrDiffuseField":
        c = rets[0].value
        T = Translator()
        hor, ver = env.get("hor"), env.get("ver")
        if hor is not None and ver is not None and unparse(hor.value) == "smooth_spectra[0]" and unparse(ver.value) == "smooth_spectra[1]":
            T.env["hor"], T.env["ver"] = sp.Symbol("H", positive=True), sp.Symbol("V", positive=True)
            got = T.tr(c.args[1])
            good = equal(got, sp.sqrt(T.env["hor"] / T.env["ver"])) and unparse(c.args[0]) == "fcs"
    if good:
        ck.ok(P + "R4", q, norm_key(rets[0], 110), detail="sqrt(smoothed (Pns+Pew) / smoothed Pvt) at fcs")
        ck.ok(P + "R5", q, "power ratio under sqrt: degree (+1, -1) in amplitude", nontrivial=False)
    else:
        ck.violation(P + "R4", q, "diffuse-field ratio", "the curve is not sqrt(smooth_spectra[0] / smooth_spectra[1]) at fcs", loc=f.loc())


def _r7(ck: Checker, prog: Program):
    tab = fftlen.extract(prog)
    ck.floor("C01.R7", len(tab.stores), 3, "stores of the FFT length")
    if tab.nextpow2_ok:
        ck.ok("C01.R7", "processing.nextpow2", tab.nextpow2_detail)
    else:
        ck.violation("C01.R7", "processing.nextpow2", "result > n", f"nextpow2 may return a value not larger than its argument: {tab.nextpow2_detail}", loc="hvsrpy/processing.py")
    ck.ok("C01.R7", tab.func.qualname, "M = maximum record length", detail=tab.m_detail)
    for st in tab.stores:
        key = norm_key(st.stmt)
        if fftlen.never_truncates(st.value):
            ck.ok("C01.R7", tab.func.qualname, key, detail=f"n = {st.value} >= M under {st.conds}")
        else:
            ck.violation("C01.R7", tab.func.qualname, key,
                         f"this path stores n = {st.value} (M = longest record, G = nextpow2(M), u = length found in the settings), which can be smaller "
                         f"than a record: rfft would silently truncate the window", loc=tab.func.loc(st.stmt))
    # every processing entry prepares the length before use
    for q in ROW_BODIES + ["processing.diffuse_field_hvsr_processing", "processing.rpsd", "processing.azimuthal_hvsr_processing"]:
        f = prog.func(q)
        first = f.node.body[0]
        if isinstance(first, ast.Expr) and isinstance(first.value, ast.Constant):
            first = f.node.body[1]
        if isinstance(first, ast.Expr) and isinstance(first.value, ast.Call) and call_name(first.value) == "prepare_fft_settings" \
                and [unparse(x) for x in first.value.args] == ["records", "settings"]:
            ck.ok("C01.R7", q, "prepare_fft_settings(records, settings) first", nontrivial=False)
        else:
            ck.violation("C01.R7", q, "prepare_fft_settings", "the FFT length is not prepared from all records before processing", loc=f.loc())
