"""C01 - HVSR curves equal the defined spectral ratio for every combination method."""
from __future__ import annotations

import ast
from typing import Dict, List

import sympy as sp

from ..astutil import call_name, calls_in, own_nodes, unparse, kwarg
from ..dataflow import reaching
from ..expr import Translator, equal, forward_substitute, degree, LINEAR_FUNCS
from ..model import AnalysisError, Program, norm_key, parent_of
from ..report import Checker
from . import fftlen
from . import c03 as C03
from ..resolve import Resolver, canon
from .procmodel import ROW_BODIES, extract_body, RowExec, NS, EW, VT, taper, rfft_, combine

EXPLANATION = (
    "Formula canonicalisation, registry tables, role and degree rules over processing.py. Decided: (R1) the "
    "return expression of each combine function equals its defining formula ((a+b)/2, sqrt((a^2+b^2)/2), "
    "sqrt(ab), sqrt(a^2+b^2), max(a,b), a cos t + b sin t) and is homogeneous of degree 1; (R2) every alias key of "
    "the combine register maps to the function of the mean it names, every combine key is a traditional-"
    "processing key mapped to the frequency-domain body, single_azimuth/directional_energy/rotdpp map to the "
    "time-domain bodies, PROCESSING_METHODS covers the four methods and process() dispatches on "
    "settings.processing_method; (R3) pipeline shape per body: what is written to the horizontal row is "
    "combine(|rfft(taper(copy ns))|, |rfft(taper(copy ew))|) (frequency-domain) or |rfft(taper(copy projection))| "
    "(azimuth bodies, projection before taper), the vertical row is |rfft(taper(copy vt))|, rfft always with "
    "**settings.fft_settings, taper always with *settings.window_type_and_width, smoothing by the configured "
    "operator/bandwidth over (fft frequencies of settings.fft_settings['n'] and the group's dt) at fcs; (R4) "
    "numerator/denominator roles: rows [0,count) horizontals over rows [count,2count) verticals, RotDpp "
    "percentile rows over the last row, diffuse field sqrt(row0/row1) with row0 = Pns+Pew and row1 = Pvt, and "
    "the per-record row bookkeeping of C03.R1; (R5) degrees: the row expressions have degree 1 in the horizontals "
    "resp. the vertical, so the ratio has degree (+1,-1) and 0 under a common factor; (R6) the frequencies handed "
    "to the smoothing operator as fcs are those handed to the result; (R7) zero padding, never truncation: every "
    "FFT length stored by prepare_fft_settings is >= the longest record (decision table, nextpow2 > n). Not "
    "decided: numerical equality of a returned curve with an independently computed ratio; numpy's FFT; "
    "fft_settings keys other than n.")

RULES = {
    "C01.R1": "combine functions equal their defining formulas and are homogeneous of degree 1",
    "C01.R2": "registries: aliases -> the mean they name; processing registers consistent; process() dispatch",
    "C01.R3": "pipeline shape: copy -> (project) -> taper -> rfft(**fft_settings) -> abs -> combine; smoothing call wiring",
    "C01.R4": "numerator/denominator roles (rows, RotDpp percentile rows, diffuse field) and per-record row bookkeeping",
    "C01.R5": "row expressions have degree 1 in their component(s): ratio degree (+1, -1)",
    "C01.R6": "smoothing centre frequencies == result frequencies == configured centre frequencies",
    "C01.R7": "stored FFT length >= longest record on every path (zero padding, never truncation)",
}

P = "C01."     # rule-id prefix (C17 reuses the diffuse-field and smoothing-call rules under its own ids)
HOMOG = {name: 1 for name in LINEAR_FUNCS}
HOMOG.update({"proj": 2, "combine": 2})

RULES.update({f"C01.R4#{k[4:]}": "(row bookkeeping, shared with C03) " + v for k, v in C03.RULES.items()})

a, b, t = sp.symbols("a b t", positive=True)
FORMULAS = {
    "arithmetic_mean": (a + b) / 2,
    "squared_average": sp.sqrt((a ** 2 + b ** 2) / 2),
    "geometric_mean": sp.sqrt(a * b),
    "total_horizontal_energy": sp.sqrt(a ** 2 + b ** 2),
    "maximum_horizontal_value": sp.Max(a, b),
}
ALIASES = {
    "arithmetic_mean": "arithmetic_mean", "squared_average": "squared_average", "quadratic_mean": "squared_average",
    "root_mean_square": "squared_average", "effective_amplitude_spectrum": "squared_average",
    "geometric_mean": "geometric_mean", "total_horizontal_energy": "total_horizontal_energy",
    "vector_summation": "total_horizontal_energy", "maximum_horizontal_value": "maximum_horizontal_value",
}
TIME_DOMAIN = {"single_azimuth": "traditional_single_azimuth_hvsr_processing",
               "directional_energy": "traditional_single_azimuth_hvsr_processing",
               "rotdpp": "traditional_rotdpp_hvsr_processing"}


def run(ck: Checker, prog: Program, tier: str):
    _PROG[0] = prog
    ck.guard(_r1, ck, prog)
    ck.guard(_r1_projection, ck, prog)
    ck.guard(_r2, ck, prog)
    for q in ROW_BODIES:
        ck.guard(_body, ck, prog, q)
    ck.guard(_diffuse, ck, prog)
    ck.guard(_r7, ck, prog)
    from .procmodel import taper_rule
    ck.guard(taper_rule, ck, prog, "C01.R3")
    # "every smoothing operator": the kernel rules of C02 are part of this property's pipeline
    from . import c02
    with ck.borrow(c02, "C01.R3+"):
        for k in c02.LOOP_KERNELS:
            ck.guard(c02._kernel, ck, prog, k)
        ck.guard(c02._sg, ck, prog)
        ck.guard(c02._registry, ck, prog)
    from . import c04
    with ck.borrow(c04, "C01.R4+"):
        ck.guard(c04._r4, ck, prog, "C04.R4")
    # the curve is reported at the centre frequencies it was evaluated at: the result containers keep their vectors as given
    from .c15 import check_stored_as_given
    ck.guard(check_stored_as_given, ck, prog, "C01.R6", ["HvsrCurve", "HvsrTraditional"], ("frequency", "amplitude"),
             "curve values would be paired with other frequencies / lose precision")
    # the FFT length belongs to the definition of the curve: it comes from this call's records and the caller's request, never from
    # what an earlier call on other records left behind in the caller's settings
    from . import c09
    with ck.borrow(c09, "C01.R7+"):
        ck.guard(c09._r2c, ck, prog)
        # "the tapered, zero-padded window": the taper is applied to a copy - records tapered in place are tapered twice by the next call
        ck.guard(c09._entry_effects, ck, prog, ("R1",))
    # the settings a caller constructs are the settings the pipeline reads (taper, smoothing, FFT length, method, ...)
    from .c15 import check_delivery
    ck.guard(check_delivery, ck, prog, "C01.R7", ["HvsrTraditionalProcessingSettings", "HvsrTraditionalSingleAzimuthProcessingSettings", "HvsrTraditionalRotDppProcessingSettings", "HvsrAzimuthalProcessingSettings", "HvsrDiffuseFieldProcessingSettings"],
             why="the curve would be computed with a different taper / smoothing / method than requested", floor=20)
    from .common import check_no_narrow_float_buffers
    ck.guard(check_no_narrow_float_buffers, ck, prog, "C01.R6", ("processing", "smoothing", "timeseries"),
             "the curve is no longer the defined ratio to double precision and a common factor of the components no longer cancels at extreme scales")
    from .common import check_identity_comparisons as _cic
    ck.guard(_cic, ck, prog, "C01.R1", "C01")


def _r1(ck: Checker, prog: Program):
    for name, want in FORMULAS.items():
        f = prog.func(f"processing.{name}")
        if f.params[:2] != ["ns", "ew"]:
            ck.violation("C01.R1", f.qualname, "parameters", f"parameters are {f.params}; callers pass (ns, ew, settings)", loc=f.loc())
            continue
        T = Translator(env={"ns": a, "ew": b})
        forward_substitute([st for st in f.node.body if isinstance(st, (ast.Assign, ast.AugAssign))], T)
        rets = [r for r in own_nodes(f.node) if isinstance(r, ast.Return)]
        if len(rets) != 1:
            ck.violation("C01.R1", f.qualname, "single return", f"{len(rets)} return statements", loc=f.loc())
            continue
        got = T.tr(rets[0].value)
        if equal(got, want):
            d = degree(got, {a: 1, b: 1})
            ck.ok("C01.R1", f.qualname, norm_key(rets[0]), detail=f"= {want}; degree {d}")
            if d != 1:
                ck.violation("C01.R5", f.qualname, "degree", f"degree of {name} in (ns, ew) is {d}, expected 1", loc=f.loc())
        else:
            ck.violation("C01.R1", f.qualname, norm_key(rets[0]), f"{name} returns {got}; the defining formula is {want}", loc=f.loc(rets[0]))


def _r1_projection(ck: Checker, prog: Program):
    f = prog.func("processing.single_azimuth")
    if f.params[:2] != ["ns", "ew"]:
        ck.violation("C01.R1", f.qualname, "parameters", f"parameters are {f.params}; callers pass (ns, ew, azimuth)", loc=f.loc())
        return
    T = Translator(env={"ns": a, "ew": b, f.params[2]: t})
    forward_substitute([st for st in f.node.body if isinstance(st, (ast.Assign, ast.AugAssign))], T)
    rets = [r for r in own_nodes(f.node) if isinstance(r, ast.Return)]
    if len(rets) != 1:
        ck.violation("C01.R1", f.qualname, "single return", f"{len(rets)} return statements", loc=f.loc())
        return
    got = T.tr(rets[0].value)
    want = a * sp.cos(t * sp.pi / 180) + b * sp.sin(t * sp.pi / 180)
    if equal(got, want):
        ck.ok("C01.R1", f.qualname, norm_key(rets[0]), detail="projection on azimuth t (degrees): a cos t + b sin t; linear in (ns, ew)")
    else:
        ck.violation("C01.R1", f.qualname, norm_key(rets[0]), f"single_azimuth returns {got}; the defining formula is {want}", loc=f.loc(rets[0]))


def _r2(ck: Checker, prog: Program):
    reg = prog.registry("processing", "COMBINE_HORIZONTAL_REGISTER")
    if set(reg) != set(ALIASES):
        ck.violation("C01.R2", "processing.COMBINE_HORIZONTAL_REGISTER", "keys", f"keys {sorted(reg)} != {sorted(ALIASES)}", loc="hvsrpy/processing.py")
    for k, v in reg.items():
        want = ALIASES.get(k)
        if want is not None and isinstance(v, ast.Name) and v.id == want:
            ck.ok("C01.R2", "processing.COMBINE_HORIZONTAL_REGISTER", f"'{k}' -> {v.id}")
        elif want is not None:
            ck.violation("C01.R2", "processing.COMBINE_HORIZONTAL_REGISTER", f"'{k}'",
                         f"method name '{k}' is bound to `{unparse(v)}` but names the {want.replace('_', ' ')}", loc=f"hvsrpy/processing.py:{v.lineno}")
    # the two dispatchers, by value: for every method name the function that receives (records, settings)
    from .common import dispatch_table
    R_, S_ = sp.Symbol("records", real=True), sp.Symbol("settings", real=True)
    want_t = {k: "traditional_hvsr_processing" for k in ALIASES}
    want_t.update(TIME_DOMAIN)
    want_p = {"traditional": "traditional_hvsr_processing_base", "azimuthal": "azimuthal_hvsr_processing",
              "diffuse_field": "diffuse_field_hvsr_processing", "psd": "rpsd"}
    for fq, label, subject, want in (("processing.traditional_hvsr_processing_base", "processing.TRADITIONAL_PROCESSING_REGISTER", "method_to_combine_horizontals", want_t),
                                     ("processing.process", "processing.PROCESSING_METHODS", "processing_method", want_p)):
        tab = dispatch_table(prog, fq, subject, sorted(want))
        for k, fn in sorted(want.items()):
            got, args = tab[k]
            copied = len(args) == 2 and getattr(getattr(args[1], "func", None), "__name__", "") == "deepcopy" and args[1].args and args[1].args[-1] == S_
            if got == fn and len(args) == 2 and args[0] == R_ and (args[1] == S_ or copied):
                ck.ok("C01.R2", label, f"'{k}' -> {fn}")
            elif got == fn:
                ck.violation("C01.R2", fq, "dispatch", f"for '{k}' {fn} receives {args} instead of (records, settings)", loc=prog.func(fq).loc())
            else:
                ck.violation("C01.R2", label, f"'{k}'", f"'{k}' is processed by `{got}`, expected {fn}", loc="hvsrpy/processing.py")
        if tab["<an unknown name>"][0] is not None:
            ck.violation("C01.R2", label, "unknown method key", f"an unknown method name is processed by {tab['<an unknown name>'][0]}", loc="hvsrpy/processing.py")
        else:
            ck.ok("C01.R2", fq, f"dispatch on settings.{subject}; unknown names are refused")


OPERATOR_PARAMS = ["frequencies", "spectrum", "fcs", "bandwidth"]
FCS_SRC = "np.array(settings.smoothing['center_frequencies_in_hz'])"



def _parse(src: str) -> ast.AST:
    return ast.parse(src, mode="eval").body


def _smoothing_call(ck: Checker, f, scope: List[ast.stmt], raw_name: str, dt_expr: str, what: str, prog: Program = None):
    """The smoothing call, resolved through temporaries: OPERATORS[settings.smoothing['operator']](rfftfreq(settings.fft_settings['n'], dt),
    <raw>, fcs, settings.smoothing['bandwidth']).  Returns (call, bound arguments) or None."""
    q = f.qualname
    R = Resolver(prog or _PROG[0], f)
    want_callee = R.value(_parse("SMOOTHING_OPERATORS[settings.smoothing['operator']]"), f.node.body[-1])
    calls = []
    for st in scope:
        for c in calls_in(st):
            if isinstance(c.func, (ast.Subscript, ast.Name)) and not (isinstance(c.func, ast.Name) and not reaching(f).defs_at(c.func.id, c)):
                try:
                    v = R.value(c.func, c)
                except AnalysisError:
                    continue
                if v.has(sp.Symbol("SMOOTHING_OPERATORS", real=True)) or "SMOOTHING_OPERATORS" in str(v):
                    calls.append((c, v))
    if not calls:
        raise AnalysisError(f"{q}: {what}: no call of a SMOOTHING_OPERATORS entry is visible (the operator may be called through an object that is not analysed)")
    if len(calls) != 1:
        ck.violation(P + "R3", q, f"{what}: smoothing call", f"expected one call of a SMOOTHING_OPERATORS entry, found {len(calls)}", loc=f.loc())
        return None
    c, callee = calls[0]
    if getattr(getattr(callee, "func", None), "__name__", "") not in ("getitem", "get") and not callee.is_Symbol:
        # the registry entry is wrapped in an object that is called instead (its __call__ is not analysed here)
        raise AnalysisError(f"{q}: the smoothing operator is called through `{str(callee)[:80]}`, an object whose call is not analysed")
    from ..astutil import bind_call
    b = bind_call(c, OPERATOR_PARAMS)
    problems = []
    if not equal(canon(callee), canon(want_callee)):
        problems.append(f"operator is `{callee}`, not SMOOTHING_OPERATORS[settings.smoothing['operator']]")
    wants = {"frequencies": f"np.fft.rfftfreq(settings.fft_settings['n'], {dt_expr})", "fcs": FCS_SRC, "bandwidth": "settings.smoothing['bandwidth']"}
    for pn, src in wants.items():
        a = b.get(pn)
        if a is None:
            problems.append(f"argument `{pn}` is not passed (the operator's own default would be used)")
            continue
        got, want = canon(R.value(a, c)), canon(R.value(_parse(src), c))
        if not equal(got, want):
            problems.append(f"{pn} = {str(got)[:120]}; expected {src}")
    if b.get("spectrum") is None:
        problems.append("no spectrum argument")
    if not problems:
        ck.ok(P + "R3", q, norm_key(c, 110), detail=f"{what}: operator/bandwidth from settings; frequencies of the padded FFT at the group's time step; evaluated at fcs")
        ck.ok(P + "R6", q, "smoothing evaluated at the configured centre frequencies", nontrivial=False)
    else:
        ck.violation(P + "R3", q, norm_key(c, 110), f"{what}: " + "; ".join(problems), loc=f.loc(c))
    return c, b


_PROG = [None]


def _rotdpp(ck: Checker, prog: Program, q: str):
    from .procmodel import rotdpp_roles
    problems, facts, b = rotdpp_roles(prog)
    f = b.func
    for fct in facts:
        ck.ok("C01.R3" if "row" in fct else "C01.R4", q, fct)
    for pr in problems:
        rule = "C01.R4" if ("percentile" in pr or "denominator" in pr or "numerator" in pr or "ratio" in pr) else "C01.R3"
        ck.violation(rule, q, pr[:100], "RotDpp: " + pr, loc=f.loc(b.record_loop))
    if not problems:
        ck.ok("C01.R5", q, "rows have degree 1 in their component(s); percentile and smoothing preserve degree", nontrivial=False)
    ex = RowExec(prog, b, sp.Symbol("azimuth", real=True))
    ex.run([st for st in b.record_loop.body if st is not b.filter_if])
    for st in ex.inplace_on_record:
        ck.violation("C01.R3", q, norm_key(st), "the taper is applied to the caller's record instead of a copy: a record processed twice (or listed twice) "
                     "is tapered twice and its curve is no longer the defined ratio", loc=f.loc(st))
    _smoothing_call(ck, f, b.group_loop.body, "raw_spectra_per_record", b.dt_var, "per record", prog)
    old = C03.P
    C03.P = "C01.R4#"
    try:
        C03._body(ck, prog, q)
    finally:
        C03.P = old
    R = Resolver(prog, f)
    if b.ctor is not None and equal(canon(R.value(b.ctor.args[0], b.ctor)), canon(R.value(_parse(FCS_SRC), b.ctor))):
        ck.ok("C01.R6", q, "result frequency = configured centre frequencies")
    else:
        ck.violation("C01.R6", q, "result frequency", "the result is not built on the configured centre frequencies", loc=f.loc())


def _body(ck: Checker, prog: Program, q: str):
    if q.endswith("rotdpp_hvsr_processing"):
        return _rotdpp(ck, prog, q)
    b = extract_body(prog, q)
    f = b.func
    rotd = q.endswith("rotdpp_hvsr_processing")
    single = q.endswith("single_azimuth_hvsr_processing")
    az = sp.Symbol("azimuth", real=True)
    ex = RowExec(prog, b, az)
    stmts = b.stmts if b.stmts else [st for st in b.record_loop.body if st is not b.filter_if]
    ex.run(stmts)
    for n in ex.notes:
        ck.violation("C01.R3", q, n, n, loc=f.loc(b.record_loop))
    for st in ex.inplace_on_record:
        ck.violation("C01.R3", q, norm_key(st), "the taper is applied to the caller's record instead of a copy: a record processed twice (or listed twice) "
                     "is tapered twice and its curve is no longer the defined ratio", loc=f.loc(st))
    def proj(n_, e_, az_):
        return n_ * sp.cos(az_ * sp.pi / 180) + e_ * sp.sin(az_ * sp.pi / 180)
    if rotd:
        want = {"raw_spectra_per_record[-1]": sp.Abs(rfft_(taper(VT))), "raw_spectra_per_record[idx]": sp.Abs(rfft_(taper(proj(NS, EW, az))))}
        got = {}
        for k, v in ex.rows.items():
            if k.startswith("raw_spectra_per_record"):
                got["raw_spectra_per_record[-1]" if k.endswith("[-1]") else "raw_spectra_per_record[idx]"] = v
    else:
        # which stored row is the numerator / denominator follows from the row-index algebra (C03): row k / row count + k
        C = C03._Counters(b, q)
        got = {}
        for k_txt, node in ex.row_nodes.items():
            if not isinstance(node.value, ast.Name):
                continue
            try:
                idx = sp.expand(Translator(env=C.env_at(node)).tr(node.slice))
            except AnalysisError:
                continue
            if idx == sp.expand(C03.k_):
                got["raw_spectra[hor_idx]"] = ex.rows[k_txt]
            elif idx == sp.expand(C03.CNT_ + C03.k_):
                got["raw_spectra[ver_idx]"] = ex.rows[k_txt]
        # rows collected in two lists and stacked per group: first list = rows k, second list = rows count + k
        lists = None
        for st_ in b.group_loop.body:
            if isinstance(st_, ast.Assign) and isinstance(st_.value, ast.Call) and len(st_.value.args) == 4 and isinstance(st_.value.args[1], ast.Name):
                lists = C03.raw_list_form(b, st_.value.args[1].id) or lists
        if lists is not None:
            app = dict(getattr(ex, "appended", {}))
            for nm_ in lists[:2]:
                ev_ = ex.T.env.get(nm_)
                if nm_ not in app and isinstance(ev_, sp.Tuple):
                    app[nm_] = list(ev_)
            if len(app.get(lists[0], [])) == 1:
                got["raw_spectra[hor_idx]"] = app[lists[0]][0]
            if len(app.get(lists[1], [])) == 1:
                got["raw_spectra[ver_idx]"] = app[lists[1]][0]
        if single:
            want = {"raw_spectra[hor_idx]": sp.Abs(rfft_(taper(proj(NS, EW, ex.T.sym("settings.azimuth_in_degrees"))))),
                    "raw_spectra[ver_idx]": sp.Abs(rfft_(taper(VT)))}
        else:
            want = {"raw_spectra[hor_idx]": combine(sp.Abs(rfft_(taper(NS))), sp.Abs(rfft_(taper(EW)))),
                    "raw_spectra[ver_idx]": sp.Abs(rfft_(taper(VT)))}
    for k, w in want.items():
        g = got.get(k)
        role = "vertical" if ("ver_idx" in k or k.endswith("[-1]")) else "horizontal"
        if g is not None and equal(g, w):
            ck.ok("C01.R3", q, f"{k} = {w}", detail=f"{role} row")
            scale = {VT: 1} if role == "vertical" else {NS: 1, EW: 1}
            d = degree(g, scale, HOMOG)
            if d == 1:
                ck.ok("C01.R5", q, f"{role} row has degree 1", detail=str(g))
            else:
                ck.violation("C01.R5", q, f"{role} row degree", f"degree of the {role} row is {d}, expected 1", loc=f.loc(b.record_loop))
            other = {NS: 1, EW: 1} if role == "vertical" else {VT: 1}
            if degree(g, other, HOMOG) != 0:
                ck.violation("C01.R4", q, f"{role} row purity", f"the {role} row depends on the other component(s): {g}", loc=f.loc(b.record_loop))
        else:
            ck.violation("C01.R3", q, k,
                         f"the {role} row receives {g}; the definition requires {w} "
                         f"(copy, {'project, ' if role == 'horizontal' and (rotd or single) else ''}taper, rfft with the padded length, magnitude"
                         f"{', combine' if role == 'horizontal' and not (rotd or single) else ''})", loc=f.loc(b.record_loop))
    # smoothing + ratio
    if rotd:
        _smoothing_call(ck, f, b.group_loop.body, "raw_spectra_per_record", b.dt_var, "per record", prog)
        # percentile/ratio roles are C04.R5; repeat the role part here
        pc = calls_in(b.record_loop, "percentile")
        ratio = [st for st in b.record_loop.body if isinstance(st, ast.Assign) and unparse(st.targets[0]) == "hvsr_spectra[hvsr_idx]"]
        env = {unparse(st.targets[0]): unparse(st.value) for st in b.record_loop.body if isinstance(st, ast.Assign) and isinstance(st.targets[0], ast.Name)}
        good = len(pc) == 1 and unparse(pc[0].args[0]) == "smooth_spectra[:-1]" and kwarg(pc[0], "axis") is not None and unparse(kwarg(pc[0], "axis")) == "0" \
            and len(ratio) == 1 and unparse(ratio[0].value) == "smooth_h / smooth_v" and env.get("smooth_v") == "smooth_spectra[-1]" \
            and env.get("smooth_h", "").startswith("np.percentile(smooth_spectra[:-1]")
        if good:
            ck.ok("C01.R4", q, "percentile over the azimuth rows / last (vertical) row")
        else:
            ck.violation("C01.R4", q, "RotDpp ratio", "the curve is not percentile(smoothed azimuth rows, axis 0) / smoothed vertical row", loc=f.loc(b.record_loop))
    else:
        _smoothing_call(ck, f, [st for st in b.group_loop.body if st is not b.record_loop], "raw_spectra", b.dt_var, "per group", prog)
    # bookkeeping of rows (C03.R1) under this property's ids
    old = C03.P
    C03.P = "C01.R4#"
    try:
        C03._body(ck, prog, q)
    finally:
        C03.P = old
    # result
    R = Resolver(prog, f)
    if b.ctor is not None and equal(canon(R.value(b.ctor.args[0], b.ctor)), canon(R.value(_parse(FCS_SRC), b.ctor))):
        ck.ok("C01.R6", q, "result frequency = configured centre frequencies")
    else:
        ck.violation("C01.R6", q, "result frequency", "the result is not built on the configured centre frequencies", loc=f.loc())


def _diffuse(ck: Checker, prog: Program):
    f = prog.func("processing.diffuse_field_hvsr_processing")
    q = f.qualname
    rets = [r for r in own_nodes(f.node) if isinstance(r, ast.Return)]
    if len(rets) != 1 or not (isinstance(rets[0].value, ast.Call) and call_name(rets[0].value) == "HvsrDiffuseField"):
        raise AnalysisError(f"{q}: `return HvsrDiffuseField(...)` not found")
    ret = rets[0]
    c = ret.value
    from ..astutil import bind_call
    b = bind_call(c, ["frequency", "amplitude", "meta"])
    R = Resolver(prog, f)
    from .procmodel import psd_source
    psd = psd_source(prog)
    smooth = ("SMOOTHING_OPERATORS[settings.smoothing['operator']](np.fft.rfftfreq(settings.fft_settings['n'], records[0].vt.dt_in_seconds), "
              f"np.array([{psd.format(c='ns')} + {psd.format(c='ew')}, {psd.format(c='vt')}]), {FCS_SRC}, settings.smoothing['bandwidth'])")
    want = canon(R.value(_parse(f"np.sqrt({smooth}[0] / {smooth}[1])"), ret))
    got = canon(R.value(b["amplitude"], ret)) if "amplitude" in b else None
    same = got is not None and equal(got, want)
    if not same and "amplitude" in b:
        # second opinion by path table (unrolls loops over the component names, models lists built by append)
        from ..pathtable import PathTable
        try:
            leaves = [l for l in PathTable(prog, f.module, unroll=True, opaque=("_rpds_single_component", "prepare_records_with_inconsistent_dt", "prepare_fft_settings")).leaves(f.node.body) if l.exit == "return"]
        except AnalysisError:
            leaves = []
        if leaves:
            ok_all = True
            for l in leaves:
                v = l.value
                if getattr(getattr(v, "func", None), "__name__", "") != "HvsrDiffuseField" or len(v.args) < 2:
                    ok_all = False
                    break
                Tl = PathTable(prog, f.module, unroll=True, opaque=("_rpds_single_component", "prepare_records_with_inconsistent_dt", "prepare_fft_settings"))._T(dict(l.env))
                try:
                    w2 = Tl.tr(_parse(f"np.sqrt({smooth}[0] / {smooth}[1])"))
                except AnalysisError:
                    ok_all = False
                    break
                if not equal(canon(v.args[1]), canon(w2)):
                    ok_all = False
                    break
            same = ok_all
    if same:
        ck.ok(P + "R4", q, norm_key(ret, 110), detail="sqrt(smooth(Pns + Pew) / smooth(Pvt)); component k from record.k of the retained records")
        ck.ok(P + "R5", q, "power ratio under sqrt: degree (+1, -1) in amplitude", nontrivial=False)
        ck.ok(P + "R3", q, "smoothing: configured operator, bandwidth, padded-FFT frequencies, fcs", nontrivial=False)
    else:
        # locate the discrepancy for the message
        detail = []
        sc = _smoothing_call(ck, f, f.node.body, "spectra", "records[0].vt.dt_in_seconds", "diffuse field", prog)
        if sc is not None and sc[1].get("spectrum") is not None:
            rows = canon(R.value(sc[1]["spectrum"], sc[0]))
            wrows = canon(R.value(_parse(f"np.array([{psd.format(c='ns')} + {psd.format(c='ew')}, {psd.format(c='vt')}])"), sc[0]))
            if not equal(rows, wrows):
                detail.append(f"rows handed to the smoothing operator are {str(rows)[:200]}; expected [Pns + Pew, Pvt]")
        ck.violation(P + "R4", q, "diffuse-field ratio",
                     "the curve is not sqrt(smoothed(Pns + Pew) / smoothed(Pvt)) of the retained records at the configured centre frequencies"
                     + ("; " + "; ".join(detail) if detail else f" (found {str(got)[:160]})"), loc=f.loc(ret))
    fr = b.get("frequency")
    if fr is not None and equal(canon(R.value(fr, ret)), canon(R.value(_parse(FCS_SRC), ret))):
        ck.ok(P + "R6", q, "result frequency = configured centre frequencies")
    else:
        ck.violation(P + "R6", q, "result frequency", "the result's frequency vector is not the configured centre frequencies", loc=f.loc(ret))


def _every_path_stores(ck: Checker, prog: Program):
    """Every way through prepare_fft_settings settles the length: a path that returns with the settings untouched keeps a length
    that was never compared with the records of this call."""
    from ..pathtable import PathTable as _PT
    pf_ = prog.func("processing.prepare_fft_settings")
    sname_ = pf_.params[1]
    lv_ = [l for l in _PT(prog, pf_.module, sum_loops=True).leaves([st for st in pf_.node.body if not (isinstance(st, ast.Expr) and isinstance(st.value, ast.Constant))]) if l.exit != "raise"]
    # a local name for the settings' dictionary (`d = settings.fft_settings`, bound once): a store through it is a store into the dictionary
    alias_ = [st.targets[0].id for st in own_nodes(pf_.node) if isinstance(st, ast.Assign) and len(st.targets) == 1 and isinstance(st.targets[0], ast.Name)
              and unparse(st.value) == f"{sname_}.fft_settings"
              and sum(1 for x in own_nodes(pf_.node) if isinstance(x, ast.Name) and x.id == st.targets[0].id and isinstance(x.ctx, ast.Store)) == 1]
    heads_ = tuple([f"{sname_}.fft_settings"] + [f"{a}[" for a in alias_])
    silent_ = [l for l in lv_ if not any(e[0] == "store" and e[1].startswith(heads_) for e in l.events)]
    if lv_ and not silent_:
        ck.ok("C01.R7", pf_.qualname, "every path stores the FFT length", detail=f"{len(lv_)} path(s)")
    elif silent_:
        ck.violation("C01.R7", pf_.qualname, "a path keeps the length found in the settings",
                     f"{len(silent_)} of {len(lv_)} paths return without storing the FFT length (under {[str(c)[:70] for c, _t in silent_[0].conds][:2]}): the length found in the "
                     f"settings is used unchecked and can be shorter than a record of this call - rfft would silently truncate the window", loc=pf_.loc())


def _r7(ck: Checker, prog: Program):
    _every_path_stores(ck, prog)
    try:
        tab = fftlen.extract(prog)
    except AnalysisError:
        # no maximum over all records: is the length of one particular record used instead?
        pf = prog.func("processing.prepare_fft_settings")
        recs = pf.params[0]
        one = [st for st in own_nodes(pf.node) if isinstance(st, ast.Assign) and len(st.targets) == 1 and isinstance(st.targets[0], ast.Name)
               and any(isinstance(x, ast.Subscript) and isinstance(x.value, ast.Name) and x.value.id == recs and isinstance(x.slice, (ast.Constant, ast.UnaryOp))
                       for x in ast.walk(st.value)) and "n_samples" in unparse(st.value)]
        feeds = [st for st in one if any(isinstance(c, ast.Call) and call_name(c) in ("nextpow2", "get", "max") and st.targets[0].id in {n.id for n in ast.walk(c) if isinstance(n, ast.Name)}
                                         for c in ast.walk(pf.node))]
        if feeds:
            ck.violation("C01.R7", pf.qualname, norm_key(feeds[0], 80),
                         f"the FFT length is derived from the length of one record (`{norm_key(feeds[0], 70)}`), not from the longest of the records given: "
                         f"a longer record later in the list is silently truncated by rfft", loc=pf.loc(feeds[0]))
            return
        raise
    ck.floor("C01.R7", len(tab.stores), 3, "stores of the FFT length")
    if tab.nextpow2_ok:
        ck.ok("C01.R7", "processing.nextpow2", tab.nextpow2_detail)
    else:
        ck.violation("C01.R7", "processing.nextpow2", "result > n", f"nextpow2 may return a value not larger than its argument: {tab.nextpow2_detail}", loc="hvsrpy/processing.py")
    ck.ok("C01.R7", tab.func.qualname, "M = maximum record length", detail=tab.m_detail)
    for st in tab.stores:
        key = norm_key(st.stmt)
        if fftlen.never_truncates(st.value):
            ck.ok("C01.R7", tab.func.qualname, key, detail=f"n = {st.value} >= M under {st.conds}")
        else:
            ck.violation("C01.R7", tab.func.qualname, key,
                         f"this path stores n = {st.value} (M = longest record, G = nextpow2(M), u = length found in the settings), which can be smaller "
                         f"than a record: rfft would silently truncate the window", loc=tab.func.loc(st.stmt))
    # every processing entry prepares the length before use
    for q in ROW_BODIES + ["processing.diffuse_field_hvsr_processing", "processing.rpsd", "processing.azimuthal_hvsr_processing"]:
        f = prog.func(q)
        first = f.node.body[0]
        if isinstance(first, ast.Expr) and isinstance(first.value, ast.Constant):
            first = f.node.body[1]
        if isinstance(first, ast.Expr) and isinstance(first.value, ast.Call) and call_name(first.value) == "prepare_fft_settings" \
                and [unparse(x) for x in first.value.args] == ["records", "settings"]:
            ck.ok("C01.R7", q, "prepare_fft_settings(records, settings) first", nontrivial=False)
        else:
            ck.violation("C01.R7", q, "prepare_fft_settings", "the FFT length is not prepared from all records before processing", loc=f.loc())
