"""C04 - sensor orientation and azimuth handling are geometrically consistent."""
from __future__ import annotations

import ast
from typing import Dict, List, Set

import sympy as sp

from ..astutil import call_name, calls_in, own_nodes, unparse, kwarg, bind_call
from ..cfg import cfg_of
from ..dataflow import reaching
from ..expr import Translator, equal, forward_substitute
from ..model import AnalysisError, Program, norm_key, parent_of, enclosing_stmt
from ..report import Checker
from .common import engine


def delivers_(prog, cls, fld):
    from .c15 import delivers
    return delivers(prog, cls, fld)

EXPLANATION = (
    "Formula canonicalisation (sympy), effect analysis and def-use rules over SeismicRecording3C.orient_sensor_to, "
    "processing.single_azimuth and the azimuth loops. Decided: (R1) the two stores of orient_sensor_to form, with "
    "delta = target - current orientation of the object, ns' = ns cos d + ew sin d and ew' = ew cos d - ns sin d "
    "(both right-hand sides read the old components), determinant 1 and orthogonality follow symbolically, the "
    "vertical is not written, and the new orientation is recorded; (R2) single_azimuth(ns, ew, a) is canonically "
    "ns cos a + ew sin a = ns' of R1 with delta = a, and f(a+180) = -f(a) (180-degree periodicity once the "
    "magnitude is taken); every caller passes (north samples, east samples, azimuth) in that order; (R3) "
    "ns'^2 + ew'^2 = ns^2 + ew^2 under the matrix of R1; (R4) the azimuthal result is the stack of single-azimuth "
    "results: every settings field read by the single-azimuth path is forwarded unchanged, the loop covers the "
    "configured azimuths in order, result i is paired with azimuth i; (R5) RotDpp stores one row per azimuth plus "
    "the vertical as last row and takes the percentile over axis 0 of the horizontal rows only; (R6) both "
    "preprocessing functions orient first, exactly when a target is configured (`is not None`), with the "
    "configured value. Not decided: numerical exactness of the rotation; non-finite angles.")

RULES = {
    "C04.R1": "orient_sensor_to is the clockwise rotation by (target - current); reads old components; vertical untouched; orientation recorded",
    "C04.R2": "single_azimuth = ns cos a + ew sin a (same convention as R1), antiperiodic in 180 deg; callers pass (ns, ew, azimuth)",
    "C04.R3": "the rotation preserves ns^2 + ew^2; every method name of the rotation-invariant families is bound to a function of ns^2 + ew^2 only",
    "C04.R4": "azimuthal = loop of single-azimuth processing with all read settings forwarded; results paired with azimuths in order",
    "C04.R5": "RotDpp: rows per azimuth + vertical last; percentile along axis 0 of the horizontal rows",
    "C04.R6": "preprocessing orients first, iff a target is configured, with the configured value",
}


P = "C04."     # rule-id prefix (C10 reuses the rotation rule under its own ids)


def run(ck: Checker, prog: Program, tier: str):
    ck.guard(_r1_r3, ck, prog)
    ck.guard(_orientation_carried, ck, prog)
    ck.guard(_r2, ck, prog)
    ck.guard(_r4, ck, prog)
    ck.guard(_r5, ck, prog)
    ck.guard(_r6, ck, prog)
    ck.guard(_invariant_families, ck, prog)
    # the azimuths a caller constructs the settings with are the azimuths that are processed (delivery rule of C15)
    from .c15 import check_delivery
    ck.guard(check_delivery, ck, prog, P + "R5", ["HvsrTraditionalRotDppProcessingSettings", "HvsrTraditionalSingleAzimuthProcessingSettings", "HvsrAzimuthalProcessingSettings"],
             only=("azimuths_in_degrees", "azimuth_in_degrees", "ppth_percentile_for_rotdpp_computation"),
             why="the rotation would be computed for other azimuths than requested", floor=3)
    # the deployed orientation a reader reports is the one the orientation step starts from (rules of C07)
    from . import c07
    with ck.borrow(c07, P + "R6+"):
        c07._PROG[0] = prog
        ck.guard(c07._saf, ck, prog)
        ck.guard(c07._read_single, ck, prog)      # the deployed orientation of the file reaches the recording (None is passed on)
        ck.guard(c07._peer, ck, prog)             # ... and so does the azimuth code of the PEER component that is taken for north
        ck.guard(c07._regex, ck, prog)            # ... read in full from the header line (NORTH_ROT = 135 is 135, not 1)
    # invariance of the bound formulas presupposes that ns and ew reach them through the same taper and transform
    from . import c01
    with ck.borrow(c01, "C04.R3+"):
        ck.guard(c01._body, ck, prog, "processing.traditional_hvsr_processing")
    # "orienting the sensor to a": the orientation target a caller constructs the preprocessing settings with is the one that
    # is applied (constructor delivery, rule of C15); the diffuse-field combination is the sum of both horizontal densities
    # (rule of C17) - with one horizontal counted twice it depends on the sensor orientation
    from . import c15, c17
    with ck.borrow(c15, "C04.R1+"):
        ck.guard(c15.check_constructors, ck, prog, [prog.cls(cname) for cname in ("Settings", "PreProcessingSettings", "HvsrPreProcessingSettings", "PsdPreProcessingSettings")])
    with ck.borrow(c17, "C04.R3+"):
        ck.guard(c17._r3, ck, prog)
    from .common import check_identity_comparisons as _cic
    ck.guard(_cic, ck, prog, "C04.R1", "C04")


INVARIANT_FAMILIES = {
    "squared-average family": ["squared_average", "quadratic_mean", "root_mean_square", "effective_amplitude_spectrum"],
    "total-horizontal-energy family": ["total_horizontal_energy", "vector_summation"],
}


def _invariant_families(ck: Checker, prog: Program):
    """Every method name of the rotation-invariant families is bound to a combination that depends on the
    horizontals only through |ns|^2 + |ew|^2 (checked on the formula of the bound function)."""
    reg = prog.registry("processing", "COMBINE_HORIZONTAL_REGISTER")
    r, phi = sp.Symbol("r", positive=True), sp.Symbol("phi", real=True)
    n = 0
    for fam, keys in INVARIANT_FAMILIES.items():
        for k in keys:
            v = reg.get(k)
            if v is None:
                ck.violation(P + "R3", "processing.COMBINE_HORIZONTAL_REGISTER", f"'{k}'", f"method '{k}' of the {fam} is not registered", loc="hvsrpy/processing.py")
                continue
            t = prog.resolve_name(prog.module("processing"), v.id) if isinstance(v, ast.Name) else None
            if not t or t[0] != "func":
                raise AnalysisError(f"COMBINE_HORIZONTAL_REGISTER['{k}'] is not a function name")
            g = t[1]
            if len(g.params) < 2:
                raise AnalysisError(f"{g.qualname}: expected (ns, ew, ...)")
            T = Translator(env={g.params[0]: r * sp.cos(phi), g.params[1]: r * sp.sin(phi)})
            forward_substitute([st for st in g.node.body if isinstance(st, (ast.Assign, ast.AugAssign))], T)
            rets = [x for x in own_nodes(g.node) if isinstance(x, ast.Return)]
            if len(rets) != 1:
                raise AnalysisError(f"{g.qualname}: expected one return")
            val = T.tr(rets[0].value)
            n += 1
            if sp.simplify(sp.diff(val, phi)) == 0:
                ck.ok(P + "R3", "processing.COMBINE_HORIZONTAL_REGISTER", f"'{k}' -> {g.name}: depends on the horizontals only through ns^2 + ew^2", detail=str(sp.simplify(val)))
            else:
                ck.violation(P + "R3", "processing.COMBINE_HORIZONTAL_REGISTER", f"'{k}'",
                             f"method '{k}' of the {fam} is bound to {g.name}, whose value {sp.simplify(val)} changes when the horizontals are rotated",
                             loc=f"hvsrpy/processing.py:{v.lineno}")
    ck.floor(P + "R3", n, 6, "method names of the rotation-invariant families")


def _r1_r3(ck: Checker, prog: Program):
    m = prog.func("seismic_recording_3c.SeismicRecording3C.orient_sensor_to")
    fq = m.qualname
    N = sp.Symbol("N", real=True)
    E = sp.Symbol("E", real=True)
    target = sp.Symbol("target", real=True)
    cur = sp.Symbol("current", real=True)
    env = {"self.ns.amplitude": N, "self.ew.amplitude": E, "degrees_from_north": target, "self.degrees_from_north": cur}
    T = Translator(env=env)
    forward_substitute([st for st in m.node.body if isinstance(st, (ast.Assign, ast.AugAssign))], T)
    d = (target - cur) * sp.pi / 180
    want_ns = N * sp.cos(d) + E * sp.sin(d)
    want_ew = E * sp.cos(d) - N * sp.sin(d)
    got_ns, got_ew = T.env.get("self.ns.amplitude"), T.env.get("self.ew.amplitude")
    for nm, got, want in (("ns", got_ns, want_ns), ("ew", got_ew, want_ew)):
        if got is not None and got is not (N if nm == "ns" else E) and equal(got, want):
            ck.ok(P + "R1", fq, f"self.{nm}.amplitude = {want}")
        else:
            ck.violation(P + "R1", fq, f"self.{nm}.amplitude",
                         f"after orienting, the {nm} component is {got}; a clockwise rotation by (target - current orientation) gives {want} "
                         f"(N, E = components before the call)", loc=m.loc())
    if got_ns is not None and got_ew is not None:
        inv = sp.simplify(sp.expand(got_ns ** 2 + got_ew ** 2 - N ** 2 - E ** 2))
        if inv == 0:
            ck.ok(P + "R3", fq, "ns'^2 + ew'^2 = ns^2 + ew^2", detail="energy preserved for every angle")
        else:
            ck.violation(P + "R3", fq, "energy", f"ns'^2 + ew'^2 - (ns^2 + ew^2) = {inv}: the transformation is not a rotation", loc=m.loc())
        det = sp.simplify(sp.Matrix([[sp.diff(got_ns, N), sp.diff(got_ns, E)], [sp.diff(got_ew, N), sp.diff(got_ew, E)]]).det())
        if det == 1:
            ck.ok(P + "R1", fq, "determinant 1 (proper rotation, invertible)")
        else:
            ck.violation(P + "R1", fq, "determinant", f"determinant is {det}, expected 1", loc=m.loc())
    # bookkeeping
    stored = T.env.get("self.degrees_from_north")
    meta_cur = T.env.get("self.meta['current degrees from north']")
    if stored is not None and equal(stored, target) and meta_cur is not None and equal(meta_cur, target):
        ck.ok(P + "R1", fq, "new orientation recorded (attribute and meta)")
    else:
        ck.violation(P + "R1", fq, "orientation bookkeeping", f"after orienting, degrees_from_north is {stored} and meta is {meta_cur}; expected the target", loc=m.loc())
    # the update of the stored orientation comes after its use
    uses = [st for st in m.node.body if isinstance(st, ast.Assign) and "self.degrees_from_north" in unparse(st.value)]
    sts = [st for st in m.node.body if isinstance(st, ast.Assign) and unparse(st.targets[0]) == "self.degrees_from_north"]
    if uses and sts and max(u.lineno for u in uses) < min(s.lineno for s in sts):
        ck.ok(P + "R1", fq, "current orientation read before it is overwritten", nontrivial=False)
    else:
        ck.violation(P + "R1", fq, "order of bookkeeping", "the current orientation is overwritten before it is used", loc=m.loc())
    # vertical untouched (effects)
    s = engine(prog).summary(m)
    vt = [e for e in s.effects if e.origin[0] == "P" and e.origin[1] == 0 and e.origin[2][:1] == ("vt",)]
    other = [e for e in s.effects if e.origin[0] == "P" and e.origin[1] != 0]
    if not vt and not other:
        ck.ok(P + "R1", fq, "vertical component and arguments are not written", detail=f"{len(s.effects)} effects, all on ns/ew/orientation/meta")
    for e in vt + other:
        ck.violation(P + "R1", fq, e.site.text, f"orient_sensor_to writes {e.origin}: the vertical must stay untouched", loc=e.site.loc)



def _orientation_carried(ck: Checker, prog: Program):
    """Windows and copies carry the *current* orientation of their source (state used by later re-orientations)."""
    for fq, src in (("seismic_recording_3c.SeismicRecording3C.split", "self"),
                    ("seismic_recording_3c.SeismicRecording3C.from_seismic_recording_3c", None)):
        f = prog.func(fq)
        srcname = src or f.params[1]
        cs = [x for x in calls_in(f.node) if call_name(x) in ("cls", "SeismicRecording3C")]
        if len(cs) != 1:
            raise AnalysisError(f"{fq}: constructor call not found")
        dv = kwarg(cs[0], "degrees_from_north")
        from ..resolve import Resolver, canon
        RR = Resolver(prog, f, inline=False)
        st = cs[0]
        while not isinstance(st, ast.stmt):
            st = parent_of(st)
        good = dv is not None and canon(RR.value(dv, st)) == canon(RR.expect(f"{srcname}.degrees_from_north"))
        if good:
            ck.ok(P + "R1", fq, f"degrees_from_north={unparse(dv)}", detail="derived recordings carry the current orientation")
        else:
            ck.violation(P + "R1", fq, norm_key(cs[0], 110),
                         f"the derived recording is given degrees_from_north={unparse(dv) if dv is not None else '<default 0>'} instead of the source's "
                         f"current orientation: a later orient_sensor_to rotates it by the wrong angle", loc=f.loc(cs[0]))
    # the constructor records the orientation it is given (reduced to [0, 360)), whatever the metadata says
    from ..pathtable import PathTable
    init = prog.func("seismic_recording_3c.SeismicRecording3C.__init__")
    leaves = [l for l in PathTable(prog, init.module, unroll=True).leaves(init.node.body) if l.exit != "raise"]
    D = sp.Symbol("degrees_from_north", real=True)
    want = D - 360 * sp.floor(D / 360)
    bad = []
    for l in leaves:
        last = None
        for e in l.events:
            if e[0] == "store" and e[1] == "self.degrees_from_north":
                last = e[2]
        if last is None:
            bad.append("a path does not record the orientation")
            continue
        v = last.args[0] if getattr(getattr(last, "func", None), "__name__", "") == "float" and len(last.args) == 1 else last
        if not equal(v, want):
            bad.append(f"self.degrees_from_north <- {last}")
    if not bad and leaves:
        ck.ok(P + "R1", init.qualname, "self.degrees_from_north = argument reduced to [0, 360)", detail=f"{len(leaves)} paths")
    else:
        ck.violation(P + "R1", init.qualname, "recorded orientation",
                     f"the constructor does not record the orientation it is given ({'; '.join(sorted(set(bad))[:2])}): orient_sensor_to would rotate by the wrong angle", loc=init.loc())


def _r2(ck: Checker, prog: Program):
    f = prog.func("processing.single_azimuth")
    T = Translator()
    forward_substitute([st for st in f.node.body if isinstance(st, (ast.Assign, ast.AugAssign))], T)
    rets = [r for r in own_nodes(f.node) if isinstance(r, ast.Return)]
    if len(rets) != 1:
        raise AnalysisError("single_azimuth: expected one return")
    got = T.tr(rets[0].value)
    ns, ew, a = T.sym(f.params[0]), T.sym(f.params[1]), T.sym(f.params[2])
    if f.params[:2] != ["ns", "ew"]:
        ck.violation(P + "R2", f.qualname, "parameter order", f"parameters are {f.params}; callers pass (ns, ew, azimuth)", loc=f.loc())
    want = ns * sp.cos(a * sp.pi / 180) + ew * sp.sin(a * sp.pi / 180)
    if equal(got, want):
        ck.ok(P + "R2", f.qualname, norm_key(rets[0]), detail="ns cos a + ew sin a (a in degrees, clockwise from north)")
    else:
        ck.violation(P + "R2", f.qualname, norm_key(rets[0]), f"projection is {got}; the orientation convention requires {want}", loc=f.loc(rets[0]))
    anti = sp.simplify(sp.expand_trig(got.subs(a, a + 180) + got))
    if anti == 0:
        ck.ok(P + "R2", f.qualname, "f(a + 180) = -f(a)")
    else:
        ck.violation(P + "R2", f.qualname, "180-degree periodicity", f"f(a+180) + f(a) = {anti}", loc=f.loc())
    # callers
    n = 0
    for g in prog.funcs.values():
        if g.module.name != "processing" or g is f:
            continue
        for c in calls_in(g.node, "single_azimuth"):
            if not isinstance(c.func, ast.Name):
                continue
            n += 1
            b = bind_call(c, f.params)
            from ..resolve import Resolver
            RR = Resolver(prog, g, inline=False)
            def comp_of(v):
                """(component, owner) of `<owner>.<component>.amplitude` in either canonical spelling."""
                t = str(v)
                if v.is_Symbol and t.endswith(".amplitude") and t.count(".") >= 2:
                    parts = t.split(".")
                    return parts[-2], ".".join(parts[:-2])
                if getattr(getattr(v, "func", None), "__name__", "") == "attr_amplitude":
                    inner = v.args[0]
                    nm = getattr(getattr(inner, "func", None), "__name__", "")
                    if nm.startswith("attr_"):
                        return nm[5:], str(inner.args[0])
                    if inner.is_Symbol and "." in str(inner):
                        return str(inner).rsplit(".", 1)[1], str(inner).rsplit(".", 1)[0]
                return None, None
            v0 = RR.value(b["ns"], c) if "ns" in b else None
            v1 = RR.value(b["ew"], c) if "ew" in b else None
            a0, a1 = str(v0) if v0 is not None else "<missing>", str(v1) if v1 is not None else "<missing>"
            c0, o0 = comp_of(v0) if v0 is not None else (None, None)
            c1, o1 = comp_of(v1) if v1 is not None else (None, None)
            good = c0 == "ns" and c1 == "ew" and o0 is not None and o0 == o1
            if good:
                ck.ok(P + "R2", g.qualname, norm_key(c, 110))
            else:
                ck.violation(P + "R2", g.qualname, norm_key(c, 110),
                             f"single_azimuth is called with ns={a0}, ew={a1}: the projection would be taken on the mirrored azimuth", loc=g.loc(c))
    ck.floor(P + "R2", n, 2, "calls of single_azimuth")


def _settings_reads(prog: Program, qualnames: List[str], pname="settings") -> Set[str]:
    out = set()
    for q in qualnames:
        f = prog.func(q)
        if pname not in f.params:
            continue
        for n in own_nodes(f.node):
            if isinstance(n, ast.Attribute) and isinstance(n.value, ast.Name) and n.value.id == pname and isinstance(n.ctx, ast.Load):
                out.add(n.attr)
    return out


def _r4(ck: Checker, prog: Program, rule: str = "C04.R4"):
    """azimuthal = stack of single-azimuth results, by value: what is returned is HvsrAzimuthal(S, A, ...) with A the configured
    azimuths and S the sequence, over A, of traditional_single_azimuth_hvsr_processing(records, <settings>) where <settings> carries
    every field the single-azimuth path reads - forwarded from the azimuthal settings, the azimuth being the element of A.  Whether
    the per-azimuth settings are built once and updated in the loop, built per azimuth, through functools.partial, in a loop or a
    comprehension is immaterial."""
    from ..pathtable import PathTable, seq_form, SEQ, ELT
    f = prog.func("processing.azimuthal_hvsr_processing")
    fq = f.qualname
    reads = _settings_reads(prog, ["processing.traditional_single_azimuth_hvsr_processing", "processing.prepare_fft_settings",
                                   "processing.prepare_records_with_inconsistent_dt"])
    reads -= {"attr_dict"}
    ck.floor(rule, len(reads), 5, "settings fields read by the single-azimuth path")
    scls = prog.cls("HvsrTraditionalSingleAzimuthProcessingSettings")
    single = prog.func("processing.traditional_single_azimuth_hvsr_processing")
    F = sp.Function
    R = lambda n: sp.Symbol(n, real=True)   # noqa: E731
    if f.params[:2] != ["records", "settings"]:
        raise AnalysisError(f"{fq}: parameters are {f.params}")
    RECORDS, SETTINGS = R("records"), R("settings")
    # constructor parameters along the class chain (keyword names for positional arguments)
    init = scls.find_method("__init__")
    if init is None:
        raise AnalysisError(f"{scls.name}.__init__ not found")
    cons_sites: List[ast.Call] = []

    def fields_of(term):
        """{field: value} of a per-azimuth settings term built by the hooks below, or None."""
        if getattr(getattr(term, "func", None), "__name__", "") != "SA_SETTINGS":
            return None
        return {a.func.__name__[4:]: a.args[0] for a in term.args}

    def hook(call, T):
        nm = call_name(call)
        if nm == scls.name and isinstance(call.func, ast.Name):
            cons_sites.append(call)
            b = bind_call(call, init.params, skip_first=True)
            if any(isinstance(a, ast.Starred) for a in call.args) or any(k.arg is None for k in call.keywords):
                raise AnalysisError(f"{fq}: the per-azimuth settings are built from unpacked arguments")
            return F("SA_SETTINGS")(*[F("fld_" + k)(T.tr(v)) for k, v in sorted(b.items())])
        if nm == single.name and isinstance(call.func, ast.Name):
            b = bind_call(call, single.params)
            rec = T.tr(b["records"]) if "records" in b else sp.Symbol("<missing>")
            sarg = b.get("settings")
            if sarg is None:
                return F(single.name)(rec, sp.Symbol("<missing>"))
            sv = T.tr(sarg)
            if isinstance(sarg, ast.Name):
                over = {k.split(".", 1)[1]: v for k, v in T.env.items() if k.startswith(sarg.id + ".") and "." not in k.split(".", 1)[1]}
                fl = fields_of(sv)
                if fl is not None and over:
                    fl.update(over)
                    sv = F("SA_SETTINGS")(*[F("fld_" + k)(v) for k, v in sorted(fl.items())])
            return F(single.name)(rec, sv)
        return None
    pt = PathTable(prog, f.module, call_hook=hook, unroll=True, structured=True, map_loops=True, opaque={single.name, "prepare_fft_settings"})
    leaves = [l for l in pt.leaves(f.node.body) if l.exit != "raise"]
    if len(leaves) != 1 or leaves[0].exit != "return" or leaves[0].value is None:
        raise AnalysisError(f"{fq}: expected one returning path, found {len(leaves)}")
    ret = leaves[0].value
    if getattr(getattr(ret, "func", None), "__name__", "") != "HvsrAzimuthal" or len(ret.args) < 2:
        ck.violation(rule, fq, "azimuth loop", "HvsrAzimuthal(<results>, <azimuths>) is not what is returned", loc=f.loc())
        return
    AZS = F("attr_azimuths_in_degrees")(SETTINGS)
    results, azimuths = seq_form(ret.args[0]), ret.args[1]
    problems: List[str] = []
    if azimuths != AZS:
        problems.append(f"the results are paired with `{azimuths}`, not with settings.azimuths_in_degrees")
    fl = None
    if getattr(getattr(results, "func", None), "__name__", "") != "SEQ":
        problems.append(f"the first argument of HvsrAzimuthal is {str(results)[:120]}, not one single-azimuth result per configured azimuth")
    else:
        body, over = results.args
        if over != AZS:
            problems.append(f"the results are computed over `{over}`, not over settings.azimuths_in_degrees in order")
        if getattr(getattr(body, "func", None), "__name__", "") != single.name:
            problems.append(f"result i is {str(body)[:120]}, not the single-azimuth processing")
        else:
            if body.args[0] != RECORDS:
                problems.append(f"the single-azimuth processing receives `{body.args[0]}`, not the caller's records")
            fl = fields_of(body.args[1])
            if fl is None:
                problems.append(f"the single-azimuth processing receives `{str(body.args[1])[:100]}`, not per-azimuth settings built from the azimuthal settings")
    site = cons_sites[0] if cons_sites else f.node
    if fl is not None:
        for fld in sorted(reads):
            v = fl.get(fld)
            if fld == "azimuth_in_degrees":
                if v == ELT:
                    ck.ok(rule, fq, f"{fld} = loop azimuth")
                else:
                    ck.violation(rule, fq, f"settings field {fld}",
                                 f"`{fld}` of the per-azimuth settings is `{v}` when the i-th result is computed, not the i-th configured azimuth "
                                 f"(the azimuthal result would not be the stack of single-azimuth results)", loc=f.loc(site))
            elif v == F("attr_" + fld)(SETTINGS):
                if not delivers_(prog, scls, fld):
                    ck.violation(rule, scls.qualname + ".__init__", f"constructor keyword {fld}",
                                 f"`{fld}` is handed to the per-azimuth settings but the constructor does not store it (falls back to the default): "
                                 f"the azimuthal result would not be the stack of single-azimuth results", loc=f.loc(site))
                else:
                    ck.ok(rule, fq, f"{fld} forwarded")
            else:
                ck.violation(rule, fq, f"settings field {fld}",
                             f"`{fld}` is read by the single-azimuth processing but is not forwarded from the azimuthal settings "
                             f"(given: {v}): the azimuthal result would not be the stack of single-azimuth results", loc=f.loc(site))
    if not problems:
        ck.ok(rule, fq, "result i = single-azimuth processing at azimuth i; paired with the azimuth list",
              detail=str(results)[:200])
    else:
        ck.violation(rule, fq, "azimuth loop", "the azimuthal result is not the in-order list of single-azimuth results paired with settings.azimuths_in_degrees: "
                     + "; ".join(problems), loc=f.loc())
    # single-azimuth body uses its settings' azimuth
    g = prog.func("processing.traditional_single_azimuth_hvsr_processing")
    c = [x for x in calls_in(g.node, "single_azimuth") if isinstance(x.func, ast.Name)]
    sa = prog.func("processing.single_azimuth")
    bnd = bind_call(c[0], sa.params) if len(c) == 1 else {}
    if len(c) == 1 and len(sa.params) >= 3 and bnd.get(sa.params[2]) is not None and unparse(bnd[sa.params[2]]) == "settings.azimuth_in_degrees":
        ck.ok(rule, g.qualname, "projection azimuth = settings.azimuth_in_degrees")
    else:
        ck.violation(rule, g.qualname, "projection azimuth", "the projection does not use settings.azimuth_in_degrees", loc=g.loc())


def _r5(ck: Checker, prog: Program):
    from .procmodel import rotdpp_roles
    problems, facts, b = rotdpp_roles(prog)
    fq = b.func.qualname
    for fct in facts:
        ck.ok(P + "R5", fq, fct)
    for pr in problems:
        ck.violation(P + "R5", fq, pr[:100], "RotDpp: " + pr, loc=b.func.loc(b.record_loop))


def _orientation_guard(prog: Program, f, lp: ast.For, rec: str):
    """One pass of the per-record loop over the two worlds of the configured target (None / given): the record is oriented
    exactly when a target is given (0 is a target), and to that target.  Returns (guard ok, argument ok)."""
    from ..pathtable import PathTable, consistent
    F = sp.Function
    SET, REC, NONE = sp.Symbol("settings", real=True), sp.Symbol("<record>", real=True), sp.Symbol("None")
    ORI = F("attr_orient_to_degrees_from_north")(SET)
    top = [l for l in PathTable(prog, f.module, structured=True, unroll=True).leaves(f.node.body) if id(lp) in l.snaps]
    if not top:
        raise AnalysisError(f"{f.qualname}: the per-record loop is not reached")
    env = dict(top[0].snaps[id(lp)][0])
    env[rec] = REC
    leaves = [l for l in PathTable(prog, f.module, env=env, structured=True, unroll=True).leaves(lp.body) if l.exit in ("fall", "continue")]
    ok_g = ok_a = True
    for world in ({ORI: NONE}, {ORI: sp.Symbol("'<given>'")}):
        live = [l for l in leaves if consistent(l, world)]
        if not live:
            raise AnalysisError(f"{f.qualname}: no pass of the per-record loop for {world}")
        for l in live:
            calls = [e[2] for e in l.events if e[0] == "call" and getattr(getattr(e[2], "func", None), "__name__", "") == "orient_sensor_to"]
            if bool(calls) != (world[ORI] != NONE):
                ok_g = False
            for c_ in calls:
                if len(c_.args) != 2 or c_.args[0] != REC or c_.args[1] != ORI:
                    ok_a = False
    return ok_g, ok_a


def _r6(ck: Checker, prog: Program):
    for fq in ("preprocessing.hvsr_preprocess", "preprocessing.psd_preprocess"):
        f = prog.func(fq)
        loops = [st for st in f.node.body if isinstance(st, ast.For)]
        if len(loops) != 1:
            raise AnalysisError(f"{fq}: per-record loop not found")
        lp = loops[0]
        rec = lp.target.elts[1].id if isinstance(lp.target, ast.Tuple) else lp.target.id
        cs = [c for c in calls_in(lp, "orient_sensor_to")]
        if len(cs) != 1:
            ck.violation(P + "R6", fq, "orientation step", f"{len(cs)} orient_sensor_to calls per record", loc=f.loc(lp))
            continue
        c = cs[0]
        st = c
        while not isinstance(st, ast.stmt):
            st = parent_of(st)
        g = parent_of(st)
        ok_g, ok_a = _orientation_guard(prog, f, lp, rec)
        # first method call on the record in the iteration
        first = True
        for other in calls_in(lp):
            if isinstance(other.func, ast.Attribute) and unparse(other.func.value) == rec and other is not c and other.lineno < c.lineno \
                    and other.func.attr not in ("is_similar",):
                first = False
        if ok_g and ok_a and first:
            ck.ok(P + "R6", fq, norm_key(g), detail="first step on every record; applied iff a target is configured")
        else:
            ck.violation(P + "R6", fq, "orientation step",
                         f"orientation is not the first step, applied exactly when a target is configured (guard ok: {ok_g}, argument ok: {ok_a}, first: {first}); "
                         f"note that a target of 0 degrees is a target", loc=f.loc(c))
